/-
C09 — Ordered results are globally sorted; limit/offset is a window of them.
Theorems about the executable model `Banyan.Model.C09` (tied to /repo by the c09 correspondence driver).
-/
import Banyan.Model.C09
import Banyan.Lemmas.C09Merge
import Banyan.Lemmas.C09Order
import Banyan.Lemmas.C09Complete
import Banyan.Lemmas.C09Dedup
import Banyan.Lemmas.C09Writer
import Banyan.Lemmas.C09Measure

namespace Banyan.C09

/-! ## 1. k-way merge -/

section KWay
variable {α : Type} {lt : α → α → Bool}

/-- **kway_merge_sorted.** Whatever `Less`-minimal entry `heap.Pop` returns at every step (all tie choices),
    draining a heap of sorted cursors yields a permutation of everything the cursors hold, in sorted order. -/
theorem kway_merge_sorted (sw : StrictWeak lt) {h : List (Cursor α)} {out : List α}
    (hs : ∀ c ∈ h, Sorted lt c.all) (hm : Merge lt h out) :
    out.Perm (heapAll h) ∧ Sorted lt out := ⟨hm.perm, hm.sorted sw hs⟩

/-- The executable merge (first minimal entry) is one admissible run. -/
theorem mergeHeap_is_Merge (sw : StrictWeak lt) (h : List (Cursor α)) : Merge lt h (mergeHeap lt h) :=
  mergeHeap_Merge sw h

/-- `NewItemIter(iters, desc)` over sorted iterators: every run (any tie choices) returns a sorted
    permutation of the union. -/
theorem newItemIter_sorted (sw : StrictWeak lt) {iters : List (List α)} {out : List α}
    (hs : ∀ it ∈ iters, Sorted lt it) (hm : Merge lt (initHeap iters) out) :
    out.Perm iters.flatten ∧ Sorted lt out := by
  have := kway_merge_sorted sw (sorted_initHeap hs) hm
  rwa [heapAll_initHeap] at this

/-- … in particular the executable `kmerge`. -/
theorem kmerge_sorted (sw : StrictWeak lt) {iters : List (List α)} (hs : ∀ it ∈ iters, Sorted lt it) :
    (kmerge lt iters).Perm iters.flatten ∧ Sorted lt (kmerge lt iters) :=
  newItemIter_sorted sw hs (mergeHeap_is_Merge sw _)

/-- Under a strict total order a sorted permutation is unique. -/
theorem sorted_perm_eq (so : StrictTotal lt) : ∀ {a b : List α}, a.Perm b → Sorted lt a → Sorted lt b → a = b := by
  intro a
  induction a with
  | nil => intro b p _ _; exact (List.Perm.nil_eq p)
  | cons x a' ih =>
    intro b p sa sb
    cases b with
    | nil => exact absurd p.symm (by simp)
    | cons y b' =>
      have hx : x ∈ y :: b' := (p.mem_iff).mp List.mem_cons_self
      have hy : y ∈ x :: a' := (p.mem_iff).mpr List.mem_cons_self
      have h1 : lt y x = false := by
        rcases List.mem_cons.mp hy with rfl | hy
        · exact so.irrefl _
        · exact (Sorted_cons.mp sa).1 y hy
      have h2 : lt x y = false := by
        rcases List.mem_cons.mp hx with rfl | hx
        · exact so.irrefl _
        · exact (Sorted_cons.mp sb).1 x hx
      have := so.total x y h2 h1
      subst this
      rw [ih p.cons_inv (Sorted_cons.mp sa).2 (Sorted_cons.mp sb).2]

theorem Sorted_map {κ : Type} {ltK : κ → κ → Bool} (key : α → κ) (hlt : ∀ x y, lt x y = ltK (key x) (key y))
    {l : List α} (s : Sorted lt l) : Sorted ltK (l.map key) := by
  unfold Sorted at *
  rw [List.pairwise_map]
  exact s.imp (by intro a b h; rw [← hlt]; exact h)

/-- **sorted_perm_keys_unique.** Rows may tie, but if the comparison is a strict total order on the sort
    keys, the *key sequence* of a sorted permutation is unique. -/
theorem sorted_perm_keys_unique {κ : Type} {ltK : κ → κ → Bool} (key : α → κ)
    (hlt : ∀ x y, lt x y = ltK (key x) (key y)) (so : StrictTotal ltK)
    {a b : List α} (p : a.Perm b) (sa : Sorted lt a) (sb : Sorted lt b) : a.map key = b.map key :=
  sorted_perm_eq so (p.map key) (Sorted_map key hlt sa) (Sorted_map key hlt sb)

end KWay

/-! ## 2. limit / offset -/

section Window
variable {α : Type}

theorem LimitIt.skip_spec (s : LimitIt α) : ∀ (f : Nat), f = s.offset - s.index →
    s.skip f = if f ≤ s.inner.length then some { s with inner := s.inner.drop f, index := s.index + f } else none := by
  intro f
  induction f generalizing s with
  | zero => intro _; simp [LimitIt.skip]
  | succ f ih =>
    intro hf
    have hlt : s.index < s.offset := by omega
    simp only [LimitIt.skip, hlt, if_true]
    cases hi : s.inner with
    | nil => simp
    | cons x r =>
      simp only []
      rw [ih _ (by simp; omega)]
      simp only [List.length_cons, List.drop_succ_cons, Nat.add_le_add_iff_right]
      split
      · congr 2; omega
      · rfl

theorem LimitIt.drain_spec : ∀ (f : Nat) (s : LimitIt α), s.inner.length < f → s.offset ≤ s.index →
    LimitIt.drain f s = s.inner.take (s.limit - (s.index - s.offset)) := by
  intro f
  induction f with
  | zero => intro s h; omega
  | succ f ih =>
    intro s hlen hoff
    have h0 : s.offset - s.index = 0 := by omega
    simp only [LimitIt.drain, LimitIt.next, h0, LimitIt.skip]
    by_cases hl : s.index - s.offset ≥ s.limit
    · simp only [hl, if_true]
      have : s.limit - (s.index - s.offset) = 0 := by omega
      simp [this]
    · simp only [hl, if_false]
      cases hi : s.inner with
      | nil => simp
      | cons x r =>
        simp only []
        rw [ih _ (by simp [hi] at hlen ⊢; omega) (by simp; omega)]
        simp only []
        have : s.limit - (s.index - s.offset) = (s.limit - (s.index + 1 - s.offset)) + 1 := by omega
        rw [this, List.take_succ_cons]

/-- **limitAll_eq_window.** The row-path `limitIterator` (skip loop + counter, mirrored control flow)
    returns exactly `(rows.drop offset).take limit`. -/
theorem limitAll_eq_window (offset limit : Nat) (l : List α) : limitAll offset limit l = window offset limit l := by
  unfold limitAll window
  cases hd : l.length + 1 with
  | zero => omega
  | succ f =>
    simp only [LimitIt.drain, LimitIt.next]
    rw [LimitIt.skip_spec _ _ (by simp)]
    simp only [Nat.sub_zero, Nat.zero_add]
    by_cases hle : offset ≤ l.length
    · simp only [hle, if_true, Nat.sub_self]
      by_cases hl : limit = 0
      · subst hl; simp
      · have : ¬ (0 ≥ limit) := by omega
        simp only [this, if_false]
        cases hdr : l.drop offset with
        | nil => simp
        | cons x r =>
          simp only []
          have hlen : r.length < f := by
            have := congrArg List.length hdr
            simp at this
            omega
          rw [LimitIt.drain_spec f _ (by simpa using hlen) (by simp)]
          simp only []
          have : limit = (limit - (offset + 1 - offset)) + 1 := by omega
          conv => rhs; rw [this, List.take_succ_cons]
    · simp only [hle, if_false]
      have : l.drop offset = [] := List.drop_eq_nil_of_le (by omega)
      simp [this]

variable {lt : α → α → Bool}

/-- **window_spec.** limit/offset applied to any run of the merge is the window of the ordered result:
    its key sequence equals the window of the key sequence of *every* sorted permutation `ref` of the
    union (`ref` = "the full ordered result"); if the comparison is total on rows (distinct sort keys), the
    rows themselves are determined. -/
theorem window_spec {κ : Type} {ltK : κ → κ → Bool} (key : α → κ)
    (hlt : ∀ x y, lt x y = ltK (key x) (key y)) (so : StrictTotal ltK) (sw : StrictWeak lt)
    {h : List (Cursor α)} {out ref : List α} (hs : ∀ c ∈ h, Sorted lt c.all) (hm : Merge lt h out)
    (hp : ref.Perm (heapAll h)) (hr : Sorted lt ref) (offset limit : Nat) :
    (limitAll offset limit out).map key = window offset limit (ref.map key) := by
  have ⟨p, s⟩ := kway_merge_sorted sw hs hm
  rw [limitAll_eq_window]
  have := sorted_perm_keys_unique key hlt so (p.trans hp.symm) s hr
  simp only [window, List.map_take, List.map_drop, this]

theorem window_unique (so : StrictTotal lt)
    {h : List (Cursor α)} {out ref : List α} (hs : ∀ c ∈ h, Sorted lt c.all) (hm : Merge lt h out)
    (hp : ref.Perm (heapAll h)) (hr : Sorted lt ref) (offset limit : Nat) :
    limitAll offset limit out = window offset limit ref := by
  have ⟨p, s⟩ := kway_merge_sorted so.toStrictWeak hs hm
  rw [limitAll_eq_window, sorted_perm_eq so (p.trans hp.symm) s hr]

end Window

/-! ## 3. sidx query -/

theorem flatten_take_prefix {α : Type} (cs : List (List α)) (k : Nat) : (cs.take k).flatten <+: cs.flatten :=
  ⟨(cs.drop k).flatten, by rw [← List.flatten_append, List.take_append_drop]⟩

/-- The hypothesis under which the per-scanner-batch heap drain is harmless: all matched blocks fit
    into one scanner batch, or their key ranges are pairwise disjoint. -/
def NoF11 (r : Req) (snap : List Part) : Prop :=
  (iterBlocks r snap).length ≤ threshold r ∨ PairwiseDisjoint (iterBlocks r snap)

theorem prefix_batches_sorted (r : Req) {snap : List Part} (wf : WF snap) (h : NoF11 r snap) (k : Nat) :
    Sorted (elemLt r.asc) ((((scanBatches r snap).take k).flatMap (mergeCall r)).flatten) := by
  rw [flatten_flatMap_mergeCall]
  have hsub : ((scanBatches r snap).take k).flatten.Sublist (iterBlocks r snap) := by
    have := (flatten_take_prefix (scanBatches r snap) k).sublist
    rwa [scanBatches_flatten'] at this
  refine batches_sorted r _ ?_ ?_
  · intro c hc b hb
    exact iterBlocks_wf wf b (hsub.subset (List.mem_flatten.mpr ⟨c, hc, hb⟩))
  · rcases h with h | h
    · left
      have hlen : (scanBatches r snap).length ≤ 1 := by
        unfold scanBatches
        rcases chunk_short (threshold_pos r) h with e | e <;> simp [e]
      rw [List.length_take]; omega
    · right
      have hc := chain_of_sorted_disjoint r.asc (iterBlocks_wf wf) (iterBlocks_sorted r wf) h
      exact List.Pairwise.sublist hsub hc

/-- `QuerySync` = the first `k` scanner batches of `StreamingQuery` (it stops after the batch at which
    `MaxBatchSize` distinct data values have been collected). -/
theorem syncLoop_prefix (r : Req) : ∀ (cs : List (List Block)) (seen : List String),
    ∃ k, syncLoop r seen cs = (cs.take k).flatMap (mergeCall r) := by
  intro cs
  induction cs with
  | nil => intro seen; exact ⟨0, rfl⟩
  | cons c cs ih =>
    intro seen
    simp only [syncLoop]
    split
    · exact ⟨1, by simp⟩
    · obtain ⟨k, hk⟩ := ih (countDistinct seen (mergeCall r c).flatten)
      exact ⟨k + 1, by simp [hk]⟩

theorem syncLoop_unbounded (r : Req) (h0 : r.maxBatch = 0) : ∀ (cs : List (List Block)) (seen : List String),
    syncLoop r seen cs = cs.flatMap (mergeCall r) := by
  intro cs
  induction cs with
  | nil => intro _; rfl
  | cons c cs ih =>
    intro seen
    simp only [syncLoop, h0, Nat.lt_irrefl, false_and, if_false, List.flatMap_cons, ih]

/-- **streaming_eq_sync.** `QuerySync` returns the response batches of `StreamingQuery` for a prefix of the
    scanner batches – all of them when `MaxBatchSize = 0` – so the two entry points agree as sequences. -/
theorem streaming_eq_sync (r : Req) (snap : List Part) :
    (∃ k, querySync r snap = ((scanBatches r snap).take k).flatMap (mergeCall r)) ∧
    (querySync r snap).flatten <+: (streamingQuery r snap).flatten ∧
    (r.maxBatch = 0 → querySync r snap = streamingQuery r snap) := by
  obtain ⟨k, hk⟩ := syncLoop_prefix r (scanBatches r snap) []
  refine ⟨⟨k, hk⟩, ?_, ?_⟩
  · unfold querySync streamingQuery
    rw [hk]
    have : (scanBatches r snap).flatMap (mergeCall r)
        = ((scanBatches r snap).take k).flatMap (mergeCall r) ++ ((scanBatches r snap).drop k).flatMap (mergeCall r) := by
      rw [← List.flatMap_append, List.take_append_drop]
    rw [this, List.flatten_append]
    exact List.prefix_append _ _
  · intro h0
    exact syncLoop_unbounded r h0 _ _

/-- **sidx_query_sorted.** Outside the F11 class both entry points return their elements in key order
    (for every write/flush/merge state `snap` satisfying the writer invariants). -/
theorem sidx_query_sorted (r : Req) {snap : List Part} (wf : WF snap) (h : NoF11 r snap) :
    Sorted (elemLt r.asc) (streamingQuery r snap).flatten ∧ Sorted (elemLt r.asc) (querySync r snap).flatten := by
  constructor
  · have := prefix_batches_sorted r wf h (scanBatches r snap).length
    rwa [List.take_length] at this
  · obtain ⟨k, hk⟩ := (streaming_eq_sync r snap).1
    rw [hk]
    exact prefix_batches_sorted r wf h k

/-! ### F11: the per-scanner-batch drain breaks the order beyond the hypothesis -/

def f11Small : List Part :=
  [ { id := 1, blocks := [{ sid := 1, lo := 1, hi := 3, elems := [⟨1, 1, "a"⟩, ⟨1, 3, "b"⟩] }] },
    { id := 2, blocks := [{ sid := 2, lo := 2, hi := 4, elems := [⟨2, 2, "c"⟩, ⟨2, 4, "d"⟩] }] } ]

def f11Req (mb : Nat) (asc : Bool) (sids : List Nat) : Req := { sids := sids, minKey := none, maxKey := none, asc := asc, maxBatch := mb }

/-- two overlapping blocks, `MaxBatchSize = 1`: StreamingQuery yields keys 1 3 2 4 -/
theorem f11_counterexample_small :
    ((streamingQuery (f11Req 1 true [1, 2]) f11Small).flatten.map (·.key)) = [1, 3, 2, 4] := by decide


/-- **completeness**: without duplicate data values (the de-duplication is then the identity) the
    concatenated response batches of `StreamingQuery` are a permutation of the matching elements –
    every matching element exactly once, nothing else. No hypothesis on batch sizes or block overlap. -/
theorem streaming_perm_matching (r : Req) {snap : List Part} (wf : WF snap) (hs : r.sids.Nodup)
    (hd : ((snap.flatMap Part.elems).map (·.data)).Nodup) :
    (streamingQuery r snap).flatten.Perm (matching r snap) := by
  have hB := iterBlocks_perm r snap hs
  -- data values inside the matched blocks are distinct
  have hBnd : (((iterBlocks r snap).flatMap (·.elems)).map (·.data)).Nodup := by
    have h1 : (((selectedBlocks r snap).flatMap (·.elems)).map (·.data)).Nodup := by
      rw [elems_flatMap] at hd
      exact hd.sublist (List.Sublist.map _ (sublist_flatMap_right _ List.filter_sublist))
    exact (((List.Perm.flatMap_right _ hB).map _).nodup_iff).mpr h1
  unfold streamingQuery
  rw [flatten_flatMap_mergeCall, ← List.flatMap_def, matching_eq r wf]
  refine (perm_flatMap_left (g := fun c => c.flatMap (rangeElems r)) ?_).trans ?_
  · intro c hc
    apply drainBatch_perm
    have hsub := chunk_sublist (threshold r) (iterBlocks r snap) c hc
    exact hBnd.sublist (List.Sublist.map _ (sublist_flatMap_right _ hsub))
  · rw [flatMap_flatten', scanBatches_flatten']
    exact List.Perm.flatMap_right _ hB



/-- the hypothesis in terms of the matched blocks themselves (order independent) -/
theorem noF11_of_selected (r : Req) (snap : List Part) (hs : r.sids.Nodup)
    (h : (selectedBlocks r snap).length ≤ threshold r ∨ PairwiseDisjoint (selectedBlocks r snap)) : NoF11 r snap := by
  have hp := iterBlocks_perm r snap hs
  rcases h with h | h
  · left; rw [hp.length_eq]; exact h
  · right
    unfold PairwiseDisjoint at *
    exact (hp.pairwise_iff (fun {a b} hab => hab.symm)).mpr h

/-- **sidx_query_spec.** For every write/flush/merge state satisfying the writer invariants, every request
    with distinct series ids, and data values that are distinct (so that the data-level de-duplication is
    the identity): if the matched blocks fit into one scanner batch or have pairwise disjoint key ranges, then
    `StreamingQuery` returns exactly the matching elements, each once, in key order; its key sequence is the
    one of *any* sorted permutation of the matching elements; and `QuerySync` returns a prefix of it
    (everything when `MaxBatchSize = 0`). -/
theorem sidx_query_spec (r : Req) {snap : List Part} (wf : WF snap) (hs : r.sids.Nodup)
    (hd : ((snap.flatMap Part.elems).map (·.data)).Nodup)
    (h : (selectedBlocks r snap).length ≤ threshold r ∨ PairwiseDisjoint (selectedBlocks r snap)) :
    let out := (streamingQuery r snap).flatten
    out.Perm (matching r snap) ∧ Sorted (elemLt r.asc) out ∧
    (∀ ref : List Elem, ref.Perm (matching r snap) → Sorted (elemLt r.asc) ref → out.map (·.key) = ref.map (·.key)) ∧
    (querySync r snap).flatten <+: out ∧ Sorted (elemLt r.asc) (querySync r snap).flatten ∧
    (r.maxBatch = 0 → querySync r snap = streamingQuery r snap) := by
  intro out
  have hp := streaming_perm_matching r wf hs hd
  have ⟨s1, s2⟩ := sidx_query_sorted r wf (noF11_of_selected r snap hs h)
  have ⟨_, e2, e3⟩ := streaming_eq_sync r snap
  refine ⟨hp, s1, ?_, e2, s2, e3⟩
  intro ref hr hsr
  exact sorted_perm_keys_unique Elem.key (elemLt_eq r.asc) (strictTotal_intLt r.asc) (hp.trans hr.symm) s1 hsr


/-- `sidx_query_spec` for every modelled write/flush/merge history (the writer invariants are a theorem,
    `applyOps_WF`, not a hypothesis). -/
theorem sidx_query_spec_history (ops : List Op) (r : Req) (hs : r.sids.Nodup)
    (hd : (((applyOps ops).flatMap Part.elems).map (·.data)).Nodup)
    (h : (selectedBlocks r (applyOps ops)).length ≤ threshold r ∨ PairwiseDisjoint (selectedBlocks r (applyOps ops))) :
    let out := (streamingQuery r (applyOps ops)).flatten
    out.Perm (matching r (applyOps ops)) ∧ Sorted (elemLt r.asc) out ∧
    (querySync r (applyOps ops)).flatten <+: out := by
  intro out
  have := sidx_query_spec r (applyOps_WF ops) hs hd h
  exact ⟨this.1, this.2.1, this.2.2.2.1⟩

/-! ### F11: the heap is drained completely for every scanner batch -/

def mkBlk (sid : Nat) (ks : List Int) : Block :=
  { sid := sid, lo := ks.head!, hi := ks.getLast!, elems := ks.map fun k => ⟨sid, k, s!"{sid}-{k}"⟩ }

/-- the input of the confirmed real-code reproduction: series 1..6, one part each, keys `sid + 7k`, k < 10 -/
def f11Snap : List Part :=
  (List.range 6).map fun i => { id := i + 1, blocks := [mkBlk (i + 1) ((List.range 10).map fun k => ((i + 1 + 7 * k : Nat) : Int))] }

/-- `MaxBatchSize = 1`: StreamingQuery returns all 60 elements, but as `1 8 15 … 64 2 9 …` -/
theorem f11_counterexample :
    ((streamingQuery (f11Req 1 true [1, 2, 3, 4, 5, 6]) f11Snap).flatten.map (·.key)).take 12
      = [1, 8, 15, 22, 29, 36, 43, 50, 57, 64, 2, 9] ∧
    (streamingQuery (f11Req 1 true [1, 2, 3, 4, 5, 6]) f11Snap).flatten.length = 60 ∧
    ¬ Sorted (elemLt true) (streamingQuery (f11Req 1 true [1, 2, 3, 4, 5, 6]) f11Snap).flatten := by
  refine ⟨by decide, by decide, ?_⟩
  intro h
  have : ∀ l : List Elem, Sorted (elemLt true) l → (l.map (·.key)).Pairwise (· ≤ ·) := by
    intro l hl
    rw [List.pairwise_map]
    exact hl.imp (by intro a b hab; simp [elemLt] at hab; omega)
  have h2 := this _ h
  revert h2
  decide



theorem countDistinct_length (l : List Elem) : ∀ seen : List String, (countDistinct seen l).length ≤ seen.length + l.length := by
  induction l with
  | nil => intro seen; simp [countDistinct]
  | cons e es ih =>
    intro seen
    simp only [countDistinct]
    split
    · have := ih seen; simp only [List.length_cons]; omega
    · have := ih (e.data :: seen); simp only [List.length_cons] at this ⊢; omega

/-- either the sync loop saw every scanner batch, or it collected at least `MaxBatchSize` elements -/
theorem syncLoop_full_or_budget (r : Req) : ∀ (cs : List (List Block)) (seen : List String),
    syncLoop r seen cs = cs.flatMap (mergeCall r) ∨ r.maxBatch ≤ seen.length + (syncLoop r seen cs).flatten.length := by
  intro cs
  induction cs with
  | nil => intro seen; left; rfl
  | cons c cs ih =>
    intro seen
    simp only [syncLoop]
    split
    · rename_i hb
      right
      have := countDistinct_length (mergeCall r c).flatten seen
      omega
    · rcases ih (countDistinct seen (mergeCall r c).flatten) with h | h
      · left; simp [h]
      · right
        have := countDistinct_length (mergeCall r c).flatten seen
        simp only [List.flatten_append, List.length_append]
        omega

/-- **first_n_correct** (conditional – see `first_n_statement_false`): outside the F11 class the first
    `MaxBatchSize` keys returned by `QuerySync` are the first keys of the ordered matching elements. -/
theorem first_n_correct (r : Req) {snap : List Part} (wf : WF snap) (hs : r.sids.Nodup)
    (hd : ((snap.flatMap Part.elems).map (·.data)).Nodup)
    (h : (selectedBlocks r snap).length ≤ threshold r ∨ PairwiseDisjoint (selectedBlocks r snap))
    (ref : List Elem) (hr : ref.Perm (matching r snap)) (hsr : Sorted (elemLt r.asc) ref) :
    ((querySync r snap).flatten.take r.maxBatch).map (·.key) = (ref.take r.maxBatch).map (·.key) := by
  have spec := sidx_query_spec r wf hs hd h
  simp only at spec
  obtain ⟨_, _, hk, hpre, _, _⟩ := spec
  have hkeys := hk ref hr hsr
  have htake : (querySync r snap).flatten.take r.maxBatch = (streamingQuery r snap).flatten.take r.maxBatch := by
    rcases syncLoop_full_or_budget r (scanBatches r snap) [] with h1 | h1
    · unfold querySync streamingQuery; rw [h1]
    · obtain ⟨t, ht⟩ := hpre
      rw [← ht, List.take_append_of_le_length]
      simpa [querySync] using h1
  rw [htake, List.map_take, List.map_take, hkeys]

/-- the claim in the comment of `processSyncLoop` ("the block iterator yields blocks in key order, so the
    first MaxBatchSize distinct elements are the ordered top-N"), without the F11 hypothesis -/
def FirstNStatement : Prop :=
  ∀ (r : Req) (snap : List Part), WF snap → r.sids.Nodup → ((snap.flatMap Part.elems).map (·.data)).Nodup →
    ∀ ref : List Elem, ref.Perm (matching r snap) → Sorted (elemLt r.asc) ref →
      ((querySync r snap).flatten.take r.maxBatch).map (·.key) = (ref.take r.maxBatch).map (·.key)



/-! decidability of the writer invariants on concrete snapshots -/
theorem wfBlock_iff (b : Block) : WFBlock b ↔
    ((∀ e ∈ b.elems, e.sid = b.sid ∧ b.lo ≤ e.key ∧ e.key ≤ b.hi) ∧
      b.elems.Pairwise (fun x y => x.key ≤ y.key) ∧ b.lo ≤ b.hi) := by
  constructor
  · intro w; exact ⟨fun e he => ⟨w.sid e he, w.lo e he, w.hi e he⟩, w.sorted, w.range⟩
  · intro ⟨h1, h2, h3⟩
    exact ⟨fun e he => (h1 e he).1, fun e he => (h1 e he).2.1, fun e he => (h1 e he).2.2, h2, h3⟩

instance (b : Block) : Decidable (WFBlock b) := decidable_of_iff _ (wfBlock_iff b).symm

instance {α : Type} (lt : α → α → Bool) (l : List α) : Decidable (Sorted lt l) := by
  unfold Sorted; infer_instance

theorem wfPart_iff (p : Part) : WFPart p ↔
    ((∀ b ∈ p.blocks, WFBlock b) ∧
      ∀ sid ∈ p.blocks.map (·.sid), Sorted lessByKey (p.blocks.filter fun b => b.sid == sid)) := by
  constructor
  · intro w; exact ⟨w.blocks, fun sid _ => w.series sid⟩
  · intro ⟨h1, h2⟩
    refine ⟨h1, fun sid => ?_⟩
    by_cases hm : sid ∈ p.blocks.map (·.sid)
    · exact h2 sid hm
    · have : (p.blocks.filter fun b => b.sid == sid) = [] := by
        rw [List.filter_eq_nil_iff]
        intro b hb hbs
        exact hm (List.mem_map.mpr ⟨b, hb, by simpa using hbs⟩)
      rw [this]; exact List.Pairwise.nil

instance (p : Part) : Decidable (WFPart p) := decidable_of_iff _ (wfPart_iff p).symm
instance (snap : List Part) : Decidable (WF snap) := by unfold WF; infer_instance

/-- descending order, `MaxBatchSize = 1`: blocks come by *minimum* key descending, the first scanner batch
    holds the block [50,60] only, the budget is reached, and `QuerySync` answers 60 although 100 matches.
    (Confirmed on the real code: `sidxf11 W1=1:1:a,1:100:b W2=2:50:c,2:60:d Q desc;1;*;*;1+2`.) -/
def firstNSnap : List Part :=
  [ { id := 1, blocks := [{ sid := 1, lo := 1, hi := 100, elems := [⟨1, 1, "a"⟩, ⟨1, 100, "b"⟩] }] },
    { id := 2, blocks := [{ sid := 2, lo := 50, hi := 60, elems := [⟨2, 50, "c"⟩, ⟨2, 60, "d"⟩] }] } ]

theorem first_n_counterexample_desc :
    ((querySync (f11Req 1 false [1, 2]) firstNSnap).flatten.map (·.key)) = [60, 50] := by decide

/-- ascending order with a lower key bound: block minima say nothing about the least *in-range* key.
    (Confirmed on the real code: `W1=1:1:a,1:20:b W2=2:2:c,2:9:d W3=3:3:e,3:6:f Q asc;1;5;10;1+2+3` → 9.) -/
def firstNRangeSnap : List Part :=
  [ { id := 1, blocks := [{ sid := 1, lo := 1, hi := 20, elems := [⟨1, 1, "a"⟩, ⟨1, 20, "b"⟩] }] },
    { id := 2, blocks := [{ sid := 2, lo := 2, hi := 9, elems := [⟨2, 2, "c"⟩, ⟨2, 9, "d"⟩] }] },
    { id := 3, blocks := [{ sid := 3, lo := 3, hi := 6, elems := [⟨3, 3, "e"⟩, ⟨3, 6, "f"⟩] }] } ]

theorem first_n_counterexample_range :
    ((querySync { sids := [1, 2, 3], minKey := some 5, maxKey := some 10, asc := true, maxBatch := 1 }
      firstNRangeSnap).flatten.map (·.key)) = [9] ∧
    (matching { sids := [1, 2, 3], minKey := some 5, maxKey := some 10, asc := true, maxBatch := 1 }
      firstNRangeSnap).map (·.key) = [9, 6] := by decide

/-- The unconditional top-N claim is false. -/
theorem first_n_statement_false : ¬ FirstNStatement := by
  intro h
  have := h (f11Req 1 false [1, 2]) firstNSnap (by decide) (by decide) (by decide)
    [⟨1, 100, "b"⟩, ⟨2, 60, "d"⟩, ⟨2, 50, "c"⟩, ⟨1, 1, "a"⟩] (by decide) (by decide)
  revert this
  decide

/-! non-vacuity of the hypotheses of `sidx_query_spec` / `first_n_correct` -/
example : WF f11Snap ∧ (f11Req 0 true [1, 2, 3, 4, 5, 6]).sids.Nodup ∧
    ((f11Snap.flatMap Part.elems).map (·.data)).Nodup ∧
    (selectedBlocks (f11Req 0 true [1, 2, 3, 4, 5, 6]) f11Snap).length ≤ threshold (f11Req 0 true [1, 2, 3, 4, 5, 6]) ∧
    (selectedBlocks (f11Req 0 true [1, 2, 3, 4, 5, 6]) f11Snap).length = 6 := by decide

/-- a disjoint layout with 3 blocks and `MaxBatchSize = 1` (threshold 1 < 3 blocks) -/
def disjointSnap : List Part :=
  [ { id := 1, blocks := [mkBlk 1 [1, 2, 5], mkBlk 2 [20, 21]] },
    { id := 2, blocks := [mkBlk 1 [6, 9, 20]] } ]

example : WF disjointSnap ∧ ((disjointSnap.flatMap Part.elems).map (·.data)).Nodup ∧
    ¬ (selectedBlocks (f11Req 1 false [2, 1]) disjointSnap).length ≤ threshold (f11Req 1 false [2, 1]) ∧
    PairwiseDisjoint (selectedBlocks (f11Req 1 false [2, 1]) disjointSnap) ∧
    (streamingQuery (f11Req 1 false [2, 1]) disjointSnap).flatten.map (·.key) = [21, 20, 20, 9, 6, 5, 2, 1] := by
  unfold PairwiseDisjoint
  decide

end Banyan.C09
