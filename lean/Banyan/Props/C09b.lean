/-
C09, second part: TopQueue, coordinator merge + version de-duplication, measure queryResult.
-/
import Banyan.Props.C09

namespace Banyan.C09

/-! ## 4. TopQueue -/

theorem popMin_none {rev : Bool} {h : List Int} (hn : popMin rev h = none) : h = [] := by
  cases h with
  | nil => rfl
  | cons c cs =>
    simp only [popMin] at hn
    split at hn
    · contradiction
    · split at hn <;> contradiction

theorem topLt_eq (rev : Bool) : topLt rev = intLt (!rev) := by
  funext a b; cases rev <;> simp [topLt, intLt]

theorem popMin_spec (rev : Bool) : ∀ (h : List Int) (m : Int) (o : List Int),
    popMin rev h = some (m, o) → h.Perm (m :: o) ∧ ∀ c ∈ h, topLt rev c m = false := by
  have sw : StrictWeak (topLt rev) := by rw [topLt_eq]; exact (strictTotal_intLt _).toStrictWeak
  intro h
  induction h with
  | nil => intro m o hp; simp [popMin] at hp
  | cons c cs ih =>
    intro m o hp
    simp only [popMin] at hp
    split at hp
    · rename_i hnone
      have := popMin_none hnone
      subst this
      cases hp
      exact ⟨List.Perm.refl _, by intro c' hc'; simp at hc'; subst hc'; exact sw.irrefl _⟩
    · rename_i m' o' hsome
      have ⟨hperm, hmin⟩ := ih m' o' hsome
      split at hp
      · rename_i hlt
        cases hp
        refine ⟨(List.Perm.cons c hperm).trans (List.Perm.swap _ _ _), ?_⟩
        intro c' hc'
        rcases List.mem_cons.mp hc' with rfl | hc'
        · exact sw.asymm hlt
        · exact hmin c' hc'
      · rename_i hlt
        cases hp
        refine ⟨List.Perm.refl _, ?_⟩
        intro c' hc'
        rcases List.mem_cons.mp hc' with rfl | hc'
        · exact sw.irrefl _
        · exact sw.nlt_trans (by simpa using hlt) (hmin c' hc')

/-- `a` ranks at least as high as `b` in the queue's order (top: `b ≤ a`, bottom: `a ≤ b`) -/
def topGe (rev : Bool) (a b : Int) : Prop := if rev then a ≤ b else b ≤ a

/-- the heap holds a top-`n` selection of `xs`: everything left out ranks no higher than anything kept -/
def IsTopN (n : Nat) (rev : Bool) (xs h : List Int) : Prop :=
  h.length = min n xs.length ∧ ∃ rest, xs.Perm (h ++ rest) ∧ ∀ a ∈ h, ∀ b ∈ rest, topGe rev a b

theorem topInsert_spec (n : Nat) (rev : Bool) (xs h : List Int) (x : Int) (inv : IsTopN n rev xs h)
    {a : Bool} {h' : List Int} (hi : topInsert n rev h x = some (a, h')) : IsTopN n rev (xs ++ [x]) h' := by
  obtain ⟨hlen, rest, hperm, hge⟩ := inv
  have hxl := hperm.length_eq
  simp only [List.length_append] at hxl
  unfold topInsert at hi
  split at hi
  · -- not full
    rename_i hlt
    cases hi
    have hrest : rest = [] := by
      apply List.length_eq_zero_iff.mp
      omega
    subst hrest
    refine ⟨by simp only [List.length_append, List.length_singleton]; omega, [], ?_, by simp⟩
    simp only [List.append_nil] at hperm ⊢
    exact List.Perm.append hperm (List.Perm.refl _)
  · rename_i hfull
    split at hi
    · contradiction
    · rename_i m o hpop
      have ⟨hp, hmin⟩ := popMin_spec rev h m o hpop
      have hol : o.length + 1 = h.length := by have := hp.length_eq; simp at this; omega
      have hmh : m ∈ h := (hp.mem_iff).mpr List.mem_cons_self
      have hoh : ∀ c ∈ o, c ∈ h := fun c hc => (hp.mem_iff).mpr (List.mem_cons_of_mem _ hc)
      have hm_le : ∀ c ∈ h, topGe rev c m := by
        intro c hc
        have := hmin c hc
        cases rev <;> simp [topLt, topGe] at this ⊢ <;> omega
      cases hrej : topRejects rev m x with
      | true =>
        -- rejected: x ranks strictly below the heap minimum
        simp only [hrej, if_true] at hi
        cases hi
        refine ⟨by simp only [List.length_append, List.length_singleton]; omega, x :: rest, ?_, ?_⟩
        · have h1 : (o ++ [m]).Perm h := (List.perm_append_comm.trans hp.symm)
          have : (xs ++ [x]).Perm (h ++ rest ++ [x]) := List.Perm.append hperm (List.Perm.refl _)
          refine this.trans ?_
          rw [List.append_assoc]
          refine List.Perm.append h1.symm ?_
          exact List.perm_append_comm
        · intro a ha b hb
          have ha' : a ∈ h := by
            rcases List.mem_append.mp ha with ha | ha
            · exact hoh a ha
            · simp at ha; subst ha; exact hmh
          rcases List.mem_cons.mp hb with rfl | hb
          · have := hm_le a ha'
            cases rev <;> simp [topGe, topRejects] at this hrej ⊢ <;> omega
          · exact hge a ha' b hb
      | false =>
        have hacc := hrej
        simp only [hrej, Bool.false_eq_true, if_false] at hi
        cases hi
        refine ⟨by simp only [List.length_append, List.length_singleton]; omega, m :: rest, ?_, ?_⟩
        · have : (xs ++ [x]).Perm (h ++ rest ++ [x]) := List.Perm.append hperm (List.Perm.refl _)
          refine this.trans ?_
          have h2 : (h ++ rest ++ [x]).Perm (m :: o ++ rest ++ [x]) :=
            List.Perm.append (List.Perm.append hp (List.Perm.refl _)) (List.Perm.refl _)
          refine h2.trans ?_
          have hA : (m :: o ++ rest ++ [x]).Perm (m :: (o ++ [x] ++ rest)) := by
            have : (o ++ rest ++ [x]).Perm (o ++ [x] ++ rest) := by
              rw [List.append_assoc, List.append_assoc]
              exact List.Perm.append (List.Perm.refl o) List.perm_append_comm
            exact List.Perm.cons m this
          have hB : (m :: (o ++ [x] ++ rest)).Perm (o ++ [x] ++ m :: rest) := List.perm_middle.symm
          exact hA.trans hB
        · intro a ha b hb
          have hxm : topGe rev x m := by cases rev <;> simp [topGe, topRejects] at hacc ⊢ <;> omega
          rcases List.mem_cons.mp hb with rfl | hb
          · rcases List.mem_append.mp ha with ha | ha
            · exact hm_le a (hoh a ha)
            · simp at ha; subst ha; exact hxm
          · rcases List.mem_append.mp ha with ha | ha
            · exact hge a (hoh a ha) b hb
            · simp at ha; subst ha
              have := hge m hmh b hb
              cases rev <;> simp [topGe] at this hxm ⊢ <;> omega

theorem topRun_spec (n : Nat) (rev : Bool) : ∀ (xs pre : List Int) (st : List Bool × List Int),
    IsTopN n rev pre st.2 → ∀ {res}, topRun n rev xs st = some res → IsTopN n rev (pre ++ xs) res.2 := by
  intro xs
  induction xs with
  | nil => intro pre st inv res hr; simp [topRun] at hr; subst hr; simpa using inv
  | cons x xs ih =>
    intro pre st inv res hr
    simp only [topRun] at hr
    split at hr
    · contradiction
    · rename_i a h' hi
      have := ih (pre ++ [x]) _ (topInsert_spec n rev pre st.2 x inv hi) hr
      simpa using this

/-- **topn_heap_spec.** After inserting any sequence into a `TopQueue(n)` (whatever the heap's tie choices
    in the executable model), the heap is a top-`n` selection of the inserted values and `Elements()`
    lists it in rank order (descending for top, ascending for bottom). -/
theorem topn_heap_spec (n : Nat) (rev : Bool) (xs : List Int) {acc : List Bool} {h : List Int}
    (hr : topRun n rev xs ([], []) = some (acc, h)) :
    IsTopN n rev xs h ∧ (topElements rev h).Perm h ∧ (topElements rev h).Pairwise (topGe rev) := by
  have h0 : IsTopN n rev [] (([], []) : List Bool × List Int).2 := ⟨by simp, [], by simp, by simp⟩
  have h1 := topRun_spec n rev xs [] ([], []) h0 hr
  refine ⟨by simpa using h1, List.mergeSort_perm _ _, ?_⟩
  unfold topElements
  have := List.pairwise_mergeSort (le := fun a b => if rev then decide (a ≤ b) else decide (a ≥ b))
    (by intro a b c; cases rev <;> simp <;> omega) (by intro a b; cases rev <;> simp <;> omega) h
  exact this.imp (by intro a b hab; cases rev <;> simp [topGe] at hab ⊢ <;> omega)

/-- `heap.Pop` on an empty heap (Go: index out of range) is reachable only with `n = 0` -/
theorem topInsert_no_panic (n : Nat) (rev : Bool) (h : List Int) (x : Int) (hn : 0 < n) (hl : h.length ≤ n) :
    (topInsert n rev h x).isSome = true := by
  unfold topInsert
  split
  · rfl
  · split
    · rename_i hp
      have := popMin_none hp
      subst this
      simp at *
      omega
    · cases topRejects rev _ x <;> rfl

example : topRun 2 false [5, 1, 7, 3] ([], []) = some ([true, true, true, false], [7, 5]) := by decide


/-! ## 5. coordinator merge + (sid, ts)-by-version de-duplication (`sortedMIterator`) -/


theorem strictWeak_dpLt (desc : Bool) : StrictWeak (dpLt desc) where
  irrefl := by intro a; cases desc <;> simp [dpLt]
  trans := by intro a b c; cases desc <;> simp [dpLt] <;> omega
  ntrans := by intro a b c; cases desc <;> simp [dpLt] <;> omega

/-- what the coordinator returns for the rows `union` held by the data nodes -/
structure MergedResult (desc : Bool) (union out : List DP) : Prop where
  sorted : Sorted (dpLt desc) out
  distinct : out.Pairwise (fun a b => ¬ sameKey a b)
  newest : ∀ d ∈ out, d ∈ union ∧ ∀ e ∈ union, sameKey e d → e.ver ≤ d.ver
  complete : ∀ e ∈ union, ∃ d ∈ out, sameKey d e

theorem mem_of_pairwise_distinct {l : List DP} (h : l.Pairwise (fun a b => ¬ sameKey a b)) {a b : DP}
    (ha : a ∈ l) (hb : b ∈ l) (hk : sameKey a b) : a = b := by
  induction l with
  | nil => cases ha
  | cons x xs ih =>
    rw [List.pairwise_cons] at h
    rcases List.mem_cons.mp ha with rfl | ha'
    · rcases List.mem_cons.mp hb with rfl | hb'
      · rfl
      · exact absurd hk (h.1 b hb')
    · rcases List.mem_cons.mp hb with rfl | hb'
      · exact absurd ⟨hk.1.symm, hk.2.symm⟩ (h.1 a ha')
      · exact ih h.2 ha' hb'

/-- **distributed_merge_spec.** The coordinator's k-way merge of the per-node lists (each sorted by the sort
    key; any tie choices of the heap) followed by `sortedMIterator`'s (sid, timestamp)-by-version
    de-duplication is sorted, holds every (sid, timestamp) of the union exactly once, and each with its
    newest version. -/
theorem distributed_merge_spec (desc : Bool) (nodes : List (List DP))
    (hs : ∀ n ∈ nodes, Sorted (dpLt desc) n) {merged : List DP} (hm : Merge (dpLt desc) (initHeap nodes) merged) :
    MergedResult desc nodes.flatten (dedupGroups [] merged) := by
  have ⟨hp, hsorted⟩ := newItemIter_sorted (strictWeak_dpLt desc) hs hm
  have pre : DedupPre desc [] merged := ⟨hsorted, by simp, by simp, List.Pairwise.nil⟩
  have post := dedupGroups_spec desc merged [] pre
  refine ⟨post.sorted, post.distinct, ?_, ?_⟩
  · intro d hd
    have hdm : d ∈ merged := by
      rcases post.mem d hd with h | h
      · cases h
      · exact h
    refine ⟨(hp.mem_iff).mp hdm, ?_⟩
    intro e he hk
    obtain ⟨x, hx, hkx, hv⟩ := post.cover e (by simpa using (hp.mem_iff).mpr he)
    have : x = d := mem_of_pairwise_distinct post.distinct hx hd ⟨hkx.1.trans hk.1, hkx.2.trans hk.2⟩
    subst this
    exact hv
  · intro e he
    obtain ⟨x, hx, hkx, _⟩ := post.cover e (by simpa using (hp.mem_iff).mpr he)
    exact ⟨x, hx, hkx⟩

/-- … hence the result does not depend on how the rows are spread over nodes: two distributions of the same
    rows (in particular: all rows on a single node) yield the same (sid, timestamp, version) triples. -/
theorem distributed_eq_single_node (desc : Bool) {u₁ u₂ o₁ o₂ : List DP} (hu : u₁.Perm u₂)
    (r₁ : MergedResult desc u₁ o₁) (r₂ : MergedResult desc u₂ o₂) :
    ∀ d₁ ∈ o₁, ∃ d₂ ∈ o₂, sameKey d₂ d₁ ∧ d₂.ver = d₁.ver := by
  intro d₁ h₁
  have ⟨hm₁, hn₁⟩ := r₁.newest d₁ h₁
  obtain ⟨d₂, h₂, hk⟩ := r₂.complete d₁ ((hu.mem_iff).mp hm₁)
  have ⟨hm₂, hn₂⟩ := r₂.newest d₂ h₂
  have a := hn₂ d₁ ((hu.mem_iff).mp hm₁) ⟨hk.1.symm, hk.2.symm⟩
  have b := hn₁ d₂ ((hu.mem_iff).mpr hm₂) hk
  exact ⟨d₂, h₂, hk, by omega⟩

/-- the executable `mmerge` is such a run followed by the limit window -/
theorem mmerge_eq (desc : Bool) (offset limit : Nat) (nodes : List (List DP)) :
    mmerge desc offset limit nodes = window offset limit (dedupGroups [] (kmerge (dpLt desc) nodes)) ∧
    Merge (dpLt desc) (initHeap nodes) (kmerge (dpLt desc) nodes) :=
  ⟨limitAll_eq_window _ _ _, mergeHeap_is_Merge (strictWeak_dpLt desc) _⟩

example : mmerge false 0 10 [[⟨1, 1, 1, 5⟩, ⟨3, 1, 1, 6⟩], [⟨1, 1, 2, 7⟩, ⟨2, 2, 1, 8⟩]]
    = [⟨1, 1, 2, 7⟩, ⟨2, 2, 1, 8⟩, ⟨3, 1, 1, 6⟩] := by decide


/-! ## 6. measure `queryResult` (order by time) -/

/-- **measure_pull_sorted.** Order by time: whatever is in the heap of block cursors (each cursor in
    timestamp order), the rows handed out by successive `Pull()` calls – one series run per call, newer versions
    replacing older ones – come in timestamp order in the requested direction over the *whole* result. -/
theorem measure_pull_sorted (asc : Bool) (sids : List Nat) (h : List (Cursor MRow))
    (hs : ∀ c ∈ h, Sorted (qrLt true asc sids) c.all) (fuel : Nat) :
    (qrPullAll (qrLt true asc sids) fuel h).flatten.Pairwise (tsLe asc) :=
  (qrPullAll_spec asc sids fuel h hs).1



/-- **measure_query_sorted.** Order by time: for every set of parts (any duplicates of (series, timestamp)
    with any versions inside and across parts), every series selection and time range, the rows returned by
    the successive `Pull()` calls of the measure `queryResult` are in timestamp order in the requested
    direction over the whole result. -/
theorem measure_query_sorted (parts : List (List MRow)) (sids : List Nat) (minTS maxTS : Int) (asc : Bool) :
    (measureQuery parts sids minTS maxTS true asc).flatten.Pairwise (tsLe asc) := by
  unfold measureQuery
  refine (qrPullAll_spec asc sids _ _ ?_).1
  apply sorted_initHeap
  intro it hit
  obtain ⟨b, hb, rfl⟩ := List.mem_map.mp hit
  have hb' := (List.mem_filter.mp hb).1
  obtain ⟨p, _, hbp⟩ := List.mem_flatMap.mp hb'
  exact cursor_sorted asc sids (measureBlocks_rows p b hbp) _

/-- three cursors of two parts, duplicates of (series 1, timestamp 5) -/
def pullEx : List (Cursor MRow) :=
  [(⟨1, 7, 1, 11⟩, [⟨1, 5, 1, 10⟩]), (⟨2, 6, 1, 20⟩, []), (⟨1, 5, 2, 12⟩, []), (⟨2, 8, 1, 21⟩, [])]

/-- non-vacuity of the hypothesis of `qrPullAll_spec` / `measure_pull_sorted` (descending) -/
example : (∀ c ∈ pullEx, Sorted (qrLt true false [1, 2]) c.all) ∧
    qrPullAll (qrLt true false [1, 2]) 10 pullEx = [[⟨2, 8, 1, 21⟩], [⟨1, 7, 1, 11⟩], [⟨2, 6, 1, 20⟩], [⟨1, 5, 2, 12⟩]] := by
  unfold Sorted
  decide


end Banyan.C09
