/-
C09, third part: stream row-path limit over pages, trace multi-instance merge, getDisjointParts and the
time-ordered stream scan, measure index-mode ordered query.
-/
import Banyan.Props.C09b

namespace Banyan.C09

/-! ## 7. stream row-path limit over a paged source; trace multi-instance merge -/

section
variable {α : Type}

theorem limitLoop_eq (target : Nat) : ∀ (ps : List (List α)) (acc : List α), (∀ p ∈ ps, p ≠ []) →
    acc.length ≤ target → limitLoop target ps acc = (acc ++ ps.flatten).take target := by
  intro ps
  induction ps with
  | nil => intro acc _ h; simp [limitLoop, List.take_of_length_le h]
  | cons p ps ih =>
    intro acc hne hlen
    simp only [limitLoop]
    split
    · rename_i hlt
      have hp : p ≠ [] := hne p List.mem_cons_self
      have : p.isEmpty = false := by cases p <;> simp_all
      simp only [this, Bool.false_eq_true, if_false]
      rw [ih _ (fun q hq => hne q (List.mem_cons_of_mem _ hq))
        (by simp only [List.length_append, List.length_take]; omega)]
      simp only [List.flatten_cons]
      by_cases hpl : p.length ≤ target - acc.length
      · rw [List.take_of_length_le hpl, List.append_assoc]
      · have h1 : (acc ++ p.take (target - acc.length)).length = target := by
          simp only [List.length_append, List.length_take]; omega
        rw [List.take_append_of_le_length (by omega), List.take_of_length_le (by omega)]
        rw [← List.append_assoc, List.take_append_of_le_length (by simp only [List.length_append]; omega)]
        rw [List.take_append]
        simp only [List.take_of_length_le (Nat.le_of_lt hlt)]
    · rename_i hge
      have : acc.length = target := by omega
      rw [List.take_append_of_le_length (by omega), List.take_of_length_le (by omega)]

theorem take_flatten_map_take (t : Nat) : ∀ (ps : List (List α)) (s : Nat), s ≤ t →
    ((ps.map fun p => p.take t).flatten).take s = ps.flatten.take s := by
  intro ps
  induction ps with
  | nil => intro s _; rfl
  | cons p ps ih =>
    intro s hs
    simp only [List.map_cons, List.flatten_cons]
    by_cases hp : p.length ≤ t
    · rw [List.take_of_length_le hp, List.take_append, List.take_append,
        ih _ (by omega)]
    · have h1 : s ≤ (p.take t).length := by simp only [List.length_take]; omega
      rw [List.take_append_of_le_length h1, List.take_append_of_le_length (by omega), List.take_take]
      congr 1; omega

theorem flatten_filter_nonempty (ps : List (List α)) : (ps.filter fun p => !p.isEmpty).flatten = ps.flatten := by
  induction ps with
  | nil => rfl
  | cons p ps ih => cases p <;> simp [ih]

/-- **stream_limit_window.** The row-path `limit.Execute` of the stream plan – page accumulation loop over the
    successive pulls of the storage result, each pull capped at `limit+offset`, empty pulls skipped – returns exactly
    `window offset limit` of the concatenated pulls, however the ordered rows are spread over pulls. -/
theorem stream_limit_window (offset limit : Nat) (pulls : List (List α)) :
    streamLimit offset limit pulls = window offset limit pulls.flatten := by
  unfold streamLimit window
  by_cases h0 : offset + limit > 0
  · simp only [h0, if_true]
    rw [limitLoop_eq _ _ [] (by intro p hp; have := (List.mem_filter.mp hp).2; cases p <;> simp_all) (by simp)]
    simp only [List.nil_append, flatten_filter_nonempty]
    rw [take_flatten_map_take _ _ _ (Nat.le_refl _)]
    have hlen : (pulls.flatten.take (limit + offset)).length ≤ limit + offset := by
      simp only [List.length_take]; omega
    split
    · rename_i hle
      have : (pulls.flatten.drop offset).take limit = [] := by
        simp only [List.length_take] at hle
        by_cases hl : limit = 0
        · subst hl; simp
        · have : (pulls.flatten.drop offset) = [] := by
            apply List.length_eq_zero_iff.mp
            simp only [List.length_drop]; omega
          rw [this]; simp
      rw [this]
    · have hmin : min (offset + limit) (pulls.flatten.take (limit + offset)).length
          = (pulls.flatten.take (limit + offset)).length := by omega
      rw [hmin, List.take_length, List.drop_take]
      congr 1
      omega
  · have ho : offset = 0 := by omega
    have hl : limit = 0 := by omega
    subst ho; subst hl
    simp
end

/-- **trace_stream_merge_sorted.** Cross-instance merge of the trace index: if every sidx instance delivers its
    stream in key order (e.g. by `sidx_query_spec`), then for every run of the merge heap (any tie choices) followed
    by the trace-id de-duplication the emitted (key, trace id) sequence is in key order and every emitted entry is the
    first occurrence of its trace id in that order; without shared trace ids it is a permutation of the union. -/
theorem trace_stream_merge_sorted (asc : Bool) (streams : List (List Elem))
    (hs : ∀ s ∈ streams, Sorted (elemLt asc) s) {merged : List Elem}
    (hm : Merge (elemLt asc) (initHeap streams) merged) :
    Sorted (elemLt asc) (dedupData [] merged) ∧ (dedupData [] merged).Sublist merged ∧ merged.Perm streams.flatten ∧
    ((streams.flatten.map (·.data)).Nodup → (dedupData [] merged).Perm streams.flatten) := by
  have ⟨hp, hsorted⟩ := newItemIter_sorted (strictWeak_elemLt asc) hs hm
  refine ⟨List.Pairwise.sublist (dedupData_sublist _ _) hsorted, dedupData_sublist _ _, hp, ?_⟩
  intro hnd
  rw [dedupData_id [] merged (((hp.map _).nodup_iff).mpr hnd) (by simp)]
  exact hp

/-- the executable model is such a run, cut into batches -/
theorem traceMergeStreams_flatten (asc : Bool) (bs : Nat) (streams : List (List Elem)) :
    (traceMergeStreams asc bs streams).flatten = dedupData [] (kmerge (elemLt asc) streams) ∧
    Merge (elemLt asc) (initHeap streams) (kmerge (elemLt asc) streams) :=
  ⟨flatten_chunk _ _, mergeHeap_is_Merge (strictWeak_elemLt asc) _⟩

example : traceMergeStreams true 3 [[⟨1, 10, "a"⟩, ⟨1, 30, "b"⟩], [⟨1, 20, "c"⟩, ⟨1, 40, "a"⟩]]
    = [[⟨1, 10, "a"⟩, ⟨1, 20, "c"⟩, ⟨1, 30, "b"⟩]] := by decide



/-! ## 8. `getDisjointParts`, time-ordered stream scan, measure index-mode ordered query -/

section Groups
variable {α : Type} (rg : α → Int × Int)

theorem insertByLo_perm (p : α) (l : List α) : (insertByLo rg p l).Perm (p :: l) := by
  induction l with
  | nil => exact List.Perm.refl _
  | cons q qs ih =>
    simp only [insertByLo]
    split
    · exact List.Perm.refl _
    · exact (List.Perm.cons q ih).trans (List.Perm.swap _ _ _)

theorem sortByLo_perm (l : List α) : (sortByLo rg l).Perm l := by
  induction l with
  | nil => exact List.Perm.refl _
  | cons x xs ih => exact (insertByLo_perm rg x _).trans (List.Perm.cons x ih)

theorem insertByLo_sorted (p : α) {l : List α} (h : l.Pairwise (fun a b => (rg a).1 ≤ (rg b).1)) :
    (insertByLo rg p l).Pairwise (fun a b => (rg a).1 ≤ (rg b).1) := by
  induction l with
  | nil => exact List.pairwise_singleton _ _
  | cons q qs ih =>
    simp only [insertByLo]
    rw [List.pairwise_cons] at h
    split
    · rename_i hle
      rw [List.pairwise_cons]
      refine ⟨?_, List.pairwise_cons.mpr h⟩
      intro b hb
      rcases List.mem_cons.mp hb with rfl | hb
      · exact hle
      · exact Int.le_trans hle (h.1 b hb)
    · rename_i hgt
      rw [List.pairwise_cons]
      refine ⟨?_, ih h.2⟩
      intro b hb
      rcases List.mem_cons.mp ((insertByLo_perm rg p qs).subset hb) with rfl | hb
      · omega
      · exact h.1 b hb

theorem sortByLo_sorted (l : List α) : (sortByLo rg l).Pairwise (fun a b => (rg a).1 ≤ (rg b).1) := by
  induction l with
  | nil => exact List.Pairwise.nil
  | cons x xs ih => exact insertByLo_sorted rg x ih

/-- every part of an earlier group ends before every part of a later group starts -/
def GroupsSeparated (gs : List (List α)) : Prop :=
  gs.Pairwise (fun g₁ g₂ => ∀ a ∈ g₁, ∀ b ∈ g₂, (rg a).2 < (rg b).1)

theorem groupParts_spec : ∀ (ps cur : List α) (b : Int), (cur ++ ps).Pairwise (fun x y => (rg x).1 ≤ (rg y).1) →
    (∀ a ∈ cur, (rg a).2 ≤ b) →
    (groupParts rg ps cur b).flatten = cur ++ ps ∧ GroupsSeparated rg (groupParts rg ps cur b) ∧
    (∀ g ∈ groupParts rg ps cur b, g ≠ []) := by
  intro ps
  induction ps with
  | nil =>
    intro cur b _ _
    cases cur with
    | nil => simp [groupParts, GroupsSeparated]
    | cons c cs => simp [groupParts, GroupsSeparated]
  | cons p ps ih =>
    intro cur b hs hb
    cases cur with
    | nil =>
      simp only [groupParts]
      have := ih [p] (rg p).2 (by simpa using hs) (by intro a ha; simp at ha; subst ha; exact Int.le_refl _)
      simpa using this
    | cons c cs =>
      simp only [groupParts]
      split
      · rename_i hle
        have := ih (c :: cs ++ [p]) (if (rg p).2 > b then (rg p).2 else b) (by simpa using hs) (by
          intro a ha
          rcases List.mem_append.mp ha with ha | ha
          · have := hb a ha; split <;> omega
          · simp at ha; subst ha; split <;> omega)
        simpa using this
      · rename_i hgt
        have hs2 : ([p] ++ ps).Pairwise (fun x y => (rg x).1 ≤ (rg y).1) := by
          have := (List.pairwise_append.mp hs).2.1
          simpa using this
        have ⟨h1, h2, h3⟩ := ih [p] (rg p).2 hs2 (by intro a ha; simp at ha; subst ha; exact Int.le_refl _)
        refine ⟨by simp [h1], ?_, ?_⟩
        · unfold GroupsSeparated at *
          rw [List.pairwise_cons]
          refine ⟨?_, h2⟩
          intro g hg a ha y hy
          have hy' : y ∈ p :: ps := by
            have : y ∈ (groupParts rg ps [p] (rg p).2).flatten := List.mem_flatten.mpr ⟨g, hg, hy⟩
            rw [h1] at this
            simpa using this
          have hpy : (rg p).1 ≤ (rg y).1 := by
            rcases List.mem_cons.mp hy' with rfl | hyp
            · exact Int.le_refl _
            · exact (List.pairwise_cons.mp hs2).1 y hyp
          have := hb a ha
          omega
        · intro g hg
          rcases List.mem_cons.mp hg with rfl | hg
          · simp
          · exact h3 g hg

/-- **disjoint_groups_spec.** `getDisjointParts`: the groups partition the parts; every part of an earlier group ends
    strictly before every part of a later group starts (so groups do not overlap in time and come in time order;
    reversed order for descending scans), whatever nesting/overlap pattern the part ranges have. -/
theorem disjoint_groups_spec (parts : List α) (asc : Bool) :
    (disjointGroups rg parts asc).flatten.Perm parts ∧
    (∀ g ∈ disjointGroups rg parts asc, g ≠ []) ∧
    GroupsSeparated rg (if asc then disjointGroups rg parts asc else (disjointGroups rg parts asc).reverse) := by
  have ⟨h1, h2, h3⟩ := groupParts_spec rg (sortByLo rg parts) [] 0 (by simpa using sortByLo_sorted rg parts) (by simp)
  unfold disjointGroups
  cases asc with
  | true =>
    simp only [if_true]
    exact ⟨by rw [h1]; simpa using sortByLo_perm rg parts, h3, h2⟩
  | false =>
    simp only [Bool.false_eq_true, if_false, List.reverse_reverse]
    refine ⟨?_, fun g hg => h3 g (List.mem_reverse.mp hg), h2⟩
    have : (groupParts rg (sortByLo rg parts) [] 0).reverse.flatten.Perm (groupParts rg (sortByLo rg parts) [] 0).flatten := by
      rw [← List.flatMap_id, ← List.flatMap_id]
      exact List.Perm.flatMap_right _ (List.reverse_perm _)
    exact this.trans (by rw [h1]; simpa using sortByLo_perm rg parts)
end Groups

/-- nesting: the input of the seeded change n3 – a wide part, a part nested in it, a part overlapping only the wide
    one – plus a later part, descending -/
example : disjointGroups TRange.rg [⟨1, 1, 100⟩, ⟨2, 10, 20⟩, ⟨3, 50, 60⟩, ⟨4, 200, 300⟩] false
    = [[⟨4, 200, 300⟩], [⟨1, 1, 100⟩, ⟨2, 10, 20⟩, ⟨3, 50, 60⟩]] := by decide

def intOrd (asc : Bool) (a b : Int) : Prop := if asc then a ≤ b else b ≤ a

theorem intLe_iff (asc : Bool) (a b : Int) : intLe asc a b = true ↔ intOrd asc a b := by
  cases asc <;> simp [intLe, intOrd]

theorem intOrd_total (asc : Bool) (a b : Int) : ¬ intOrd asc a b → intOrd asc b a := by
  cases asc <;> simp [intOrd] <;> omega

theorem intOrd_trans {asc : Bool} {a b c : Int} (h1 : intOrd asc a b) (h2 : intOrd asc b c) : intOrd asc a c := by
  cases asc <;> simp [intOrd] at * <;> omega

theorem insertInt_mem {asc : Bool} {x y : Int} {l : List Int} (h : y ∈ insertInt asc x l) : y = x ∨ y ∈ l := by
  induction l with
  | nil => simp [insertInt] at h; exact Or.inl h
  | cons z zs ih =>
    simp only [insertInt] at h
    split at h
    · rcases List.mem_cons.mp h with rfl | h
      · exact Or.inl rfl
      · exact Or.inr h
    · rcases List.mem_cons.mp h with rfl | h
      · exact Or.inr List.mem_cons_self
      · rcases ih h with h | h
        · exact Or.inl h
        · exact Or.inr (List.mem_cons_of_mem _ h)

theorem insertInt_sorted (asc : Bool) (x : Int) {l : List Int} (h : l.Pairwise (intOrd asc)) :
    (insertInt asc x l).Pairwise (intOrd asc) := by
  induction l with
  | nil => exact List.pairwise_singleton _ _
  | cons z zs ih =>
    rw [List.pairwise_cons] at h
    simp only [insertInt]
    split
    · rename_i hle
      have hle' := (intLe_iff asc x z).mp hle
      rw [List.pairwise_cons]
      refine ⟨?_, List.pairwise_cons.mpr h⟩
      intro b hb
      rcases List.mem_cons.mp hb with rfl | hb
      · exact hle'
      · exact intOrd_trans hle' (h.1 b hb)
    · rename_i hgt
      have hzx : intOrd asc z x := intOrd_total asc x z (fun h' => hgt ((intLe_iff asc x z).mpr h'))
      rw [List.pairwise_cons]
      refine ⟨?_, ih h.2⟩
      intro b hb
      rcases insertInt_mem hb with rfl | hb
      · exact hzx
      · exact h.1 b hb

theorem sortInts_sorted (asc : Bool) (l : List Int) : (sortInts asc l).Pairwise (intOrd asc) := by
  induction l with
  | nil => exact List.Pairwise.nil
  | cons x xs ih => exact insertInt_sorted asc x ih

theorem sortInts_mem {asc : Bool} {l : List Int} {y : Int} (h : y ∈ sortInts asc l) : y ∈ l := by
  induction l with
  | nil => simp [sortInts] at h
  | cons x xs ih =>
    rcases insertInt_mem (l := sortInts asc xs) h with rfl | h
    · exact List.mem_cons_self
    · exact List.mem_cons_of_mem _ (ih h)

theorem spart_range (p : SPart) {r : Nat × Int} (hr : r ∈ p.rows) : p.rg.1 ≤ r.2 ∧ r.2 ≤ p.rg.2 :=
  ⟨(foldl_min_le _ _).2 _ (List.mem_map_of_mem hr), (foldl_max_ge _ _).2 _ (List.mem_map_of_mem hr)⟩

/-- **stream_ts_query_sorted.** Time-ordered scan of one segment (with the group order of fix F91): for any parts –
    nested, overlapping or disjoint time ranges –, any series selection and time range, the timestamps of the
    concatenated pages are globally ordered in the requested direction. -/
theorem stream_ts_query_sorted (parts : List SPart) (sids : List Nat) (minTS maxTS : Int) (asc : Bool) :
    (streamTsQuery parts sids minTS maxTS asc).Pairwise (intOrd asc) := by
  unfold streamTsQuery streamScan
  simp only [Bool.false_and, Bool.false_eq_true, if_false]
  generalize (parts.filter fun p => !(decide (maxTS < p.rg.1) || decide (minTS > p.rg.2))) = sel
  have ⟨_, _, hsep⟩ := disjoint_groups_spec SPart.rg sel asc
  generalize disjointGroups SPart.rg sel asc = gs at hsep
  have hmem : ∀ (g : List SPart), ∀ y ∈ sortInts asc (g.flatMap fun p =>
      (p.rows.filter fun r => sids.contains r.1 && decide (minTS ≤ r.2) && decide (r.2 ≤ maxTS)).map (·.2)),
      ∃ p ∈ g, p.rg.1 ≤ y ∧ y ≤ p.rg.2 := by
    intro g y hy
    obtain ⟨p, hp, hyp⟩ := List.mem_flatMap.mp (sortInts_mem hy)
    obtain ⟨row, hrow, rfl⟩ := List.mem_map.mp hyp
    exact ⟨p, hp, spart_range p (List.mem_filter.mp hrow).1⟩
  rw [List.flatMap_def, List.pairwise_flatten]
  refine ⟨?_, ?_⟩
  · intro l hl
    obtain ⟨g, _, rfl⟩ := List.mem_map.mp hl
    exact sortInts_sorted asc _
  · rw [List.pairwise_map]
    cases asc with
    | true =>
      simp only [if_true] at hsep
      refine hsep.imp ?_
      intro g1 g2 h12 x hx y hy
      obtain ⟨p, hp, hp1, hp2⟩ := hmem g1 x hx
      obtain ⟨q, hq, hq1, hq2⟩ := hmem g2 y hy
      have := h12 p hp q hq
      simp only [intOrd, if_true]; omega
    | false =>
      simp only [Bool.false_eq_true, if_false] at hsep
      unfold GroupsSeparated at hsep
      rw [List.pairwise_reverse] at hsep
      refine hsep.imp ?_
      intro g1 g2 h12 x hx y hy
      obtain ⟨p, hp, hp1, hp2⟩ := hmem g1 x hx
      obtain ⟨q, hq, hq1, hq2⟩ := hmem g2 y hy
      have := h12 q hq p hp
      simp only [intOrd, Bool.false_eq_true, if_false]; omega

/-- F91: `blockScanner.scan` as found (descending: last group of the already reversed list first) on two disjoint
    parts [1,2] and [10,11] yields 2 1 11 10; with the group order fixed 11 10 2 1. (Reproduced on the real code:
    `squery desc 0 1000 100 1 1:1,1:2|1:10,1:11` → `2,1,11,10`.) -/
theorem stream_ts_query_legacy_counterexample :
    streamTsQuery_legacy [⟨1, [(1, 1), (1, 2)]⟩, ⟨2, [(1, 10), (1, 11)]⟩] [1] 0 1000 false = [2, 1, 11, 10] ∧
    streamTsQuery [⟨1, [(1, 1), (1, 2)]⟩, ⟨2, [(1, 10), (1, 11)]⟩] [1] 0 1000 false = [11, 10, 2, 1] := by decide



theorem strictWeak_kvLt (desc : Bool) : StrictWeak (kvLt desc) := by
  have : kvLt desc = fun a b => intLt (!desc) a.2 b.2 := by
    funext a b; cases desc <;> simp [kvLt, intLt]
  rw [this]
  exact (strictTotal_intLt _).toStrictWeak.comap (fun x : String × Int => x.2)

theorem keepUnseen_sublist : ∀ (seg : List (String × Int)) (seen : List String), (keepUnseen seen seg).1.Sublist seg := by
  intro seg
  induction seg with
  | nil => intro seen; exact List.Sublist.refl _
  | cons x xs ih =>
    intro seen
    simp only [keepUnseen]
    split
    · exact (ih seen).cons x
    · exact (ih _).cons_cons x

/-- what `keepUnseen` keeps is new, pairwise distinct, and recorded in the filter -/
theorem keepUnseen_spec : ∀ (seg : List (String × Int)) (seen : List String),
    (∀ e ∈ (keepUnseen seen seg).1, e.1 ∉ seen) ∧ ((keepUnseen seen seg).1.map (·.1)).Nodup ∧
    (∀ n, n ∈ (keepUnseen seen seg).2 ↔ n ∈ seen ∨ n ∈ (keepUnseen seen seg).1.map (·.1)) ∧
    (∀ e ∈ seg, e.1 ∈ (keepUnseen seen seg).2) := by
  intro seg
  induction seg with
  | nil => intro seen; simp [keepUnseen]
  | cons x xs ih =>
    intro seen
    simp only [keepUnseen]
    split
    · rename_i hc
      have ⟨h1, h2, h3, h4⟩ := ih seen
      refine ⟨h1, h2, h3, ?_⟩
      intro e he
      rcases List.mem_cons.mp he with rfl | he
      · exact (h3 _).mpr (Or.inl (by simpa using hc))
      · exact h4 e he
    · rename_i hc
      have hx : x.1 ∉ seen := by simpa using hc
      have ⟨h1, h2, h3, h4⟩ := ih (x.1 :: seen)
      refine ⟨?_, ?_, ?_, ?_⟩
      · intro e he
        rcases List.mem_cons.mp he with rfl | he
        · exact hx
        · exact fun hs => h1 e he (List.mem_cons_of_mem _ hs)
      · simp only [List.map_cons, List.nodup_cons]
        refine ⟨?_, h2⟩
        intro hm
        obtain ⟨e, he, hex⟩ := List.mem_map.mp hm
        exact h1 e he (hex ▸ List.mem_cons_self)
      · intro n
        rw [h3 n]
        simp only [List.mem_cons, List.map_cons]
        constructor
        · rintro ((rfl | h) | h)
          · exact Or.inr (Or.inl rfl)
          · exact Or.inl h
          · exact Or.inr (Or.inr h)
        · rintro (h | rfl | h)
          · exact Or.inl (Or.inr h)
          · exact Or.inl (Or.inl rfl)
          · exact Or.inr h
      · intro e he
        rcases List.mem_cons.mp he with rfl | he
        · exact (h3 _).mpr (Or.inl List.mem_cons_self)
        · exact h4 e he

theorem dropSeen_spec : ∀ (segs : List (List (String × Int))) (seen : List String),
    (∀ l ∈ dropSeen seen segs, ∃ seg ∈ segs, l.Sublist seg) ∧
    (((dropSeen seen segs).flatten).map (·.1)).Nodup ∧
    (∀ e ∈ (dropSeen seen segs).flatten, e.1 ∉ seen) ∧
    (∀ seg ∈ segs, ∀ e ∈ seg, e.1 ∈ seen ∨ e.1 ∈ ((dropSeen seen segs).flatten).map (·.1)) := by
  intro segs
  induction segs with
  | nil => intro seen; simp [dropSeen]
  | cons seg rest ih =>
    intro seen
    simp only [dropSeen]
    have ⟨k1, k2, k3, k4⟩ := keepUnseen_spec seg seen
    have ⟨i1, i2, i3, i4⟩ := ih (keepUnseen seen seg).2
    refine ⟨?_, ?_, ?_, ?_⟩
    · intro l hl
      rcases List.mem_cons.mp hl with rfl | hl
      · exact ⟨seg, List.mem_cons_self, keepUnseen_sublist seg seen⟩
      · obtain ⟨s, hs, hsub⟩ := i1 l hl
        exact ⟨s, List.mem_cons_of_mem _ hs, hsub⟩
    · simp only [List.flatten_cons, List.map_append]
      rw [List.nodup_append]
      refine ⟨k2, i2, ?_⟩
      intro a ha b hb hab
      subst hab
      obtain ⟨e, he, rfl⟩ := List.mem_map.mp hb
      exact i3 e he ((k3 _).mpr (Or.inr ha))
    · intro e he
      simp only [List.flatten_cons] at he
      rcases List.mem_append.mp he with he | he
      · exact k1 e he
      · exact fun hs => i3 e he ((k3 _).mpr (Or.inl hs))
    · intro s hs e he
      simp only [List.flatten_cons, List.map_append, List.mem_append]
      rcases List.mem_cons.mp hs with rfl | hs
      · rcases (k3 e.1).mp (k4 e he) with h | h
        · exact Or.inl h
        · exact Or.inr (Or.inl h)
      · rcases i4 s hs e he with h | h
        · rcases (k3 e.1).mp h with h | h
          · exact Or.inl h
          · exact Or.inr (Or.inl h)
        · exact Or.inr (Or.inr h)

theorem insertKV_mem {desc : Bool} {x y : String × Int} {l : List (String × Int)} (h : y ∈ insertKV desc x l) :
    y = x ∨ y ∈ l := by
  induction l with
  | nil => simp [insertKV] at h; exact Or.inl h
  | cons z zs ih =>
    simp only [insertKV] at h
    split at h
    · rcases List.mem_cons.mp h with rfl | h
      · exact Or.inl rfl
      · exact Or.inr h
    · rcases List.mem_cons.mp h with rfl | h
      · exact Or.inr List.mem_cons_self
      · rcases ih h with h | h
        · exact Or.inl h
        · exact Or.inr (List.mem_cons_of_mem _ h)

theorem insertKV_sorted (desc : Bool) (x : String × Int) {l : List (String × Int)}
    (h : l.Pairwise (fun a b => intOrd (!desc) a.2 b.2)) :
    (insertKV desc x l).Pairwise (fun a b => intOrd (!desc) a.2 b.2) := by
  induction l with
  | nil => exact List.pairwise_singleton _ _
  | cons z zs ih =>
    rw [List.pairwise_cons] at h
    simp only [insertKV]
    split
    · rename_i hle
      have hle' := (intLe_iff (!desc) x.2 z.2).mp hle
      rw [List.pairwise_cons]
      refine ⟨?_, List.pairwise_cons.mpr h⟩
      intro b hb
      rcases List.mem_cons.mp hb with rfl | hb
      · exact hle'
      · exact intOrd_trans hle' (h.1 b hb)
    · rename_i hgt
      have hzx : intOrd (!desc) z.2 x.2 := intOrd_total _ x.2 z.2 (fun h' => hgt ((intLe_iff _ x.2 z.2).mpr h'))
      rw [List.pairwise_cons]
      refine ⟨?_, ih h.2⟩
      intro b hb
      rcases insertKV_mem hb with rfl | hb
      · exact hzx
      · exact h.1 b hb

theorem sortKV_sorted (desc : Bool) (l : List (String × Int)) : Sorted (kvLt desc) (sortKV desc l) := by
  have : (sortKV desc l).Pairwise (fun a b => intOrd (!desc) a.2 b.2) := by
    induction l with
    | nil => exact List.Pairwise.nil
    | cons x xs ih => exact insertKV_sorted desc x ih
  unfold Sorted
  exact this.imp (by intro a b h; cases desc <;> simp [kvLt, intOrd] at h ⊢ <;> omega)

theorem sortKV_perm (desc : Bool) (l : List (String × Int)) : (sortKV desc l).Perm l := by
  induction l with
  | nil => exact List.Perm.refl _
  | cons x xs ih =>
    have : ∀ (l : List (String × Int)), (insertKV desc x l).Perm (x :: l) := by
      intro l
      induction l with
      | nil => exact List.Perm.refl _
      | cons q qs ih2 =>
        simp only [insertKV]
        split
        · exact List.Perm.refl _
        · exact (List.Perm.cons q ih2).trans (List.Perm.swap _ _ _)
    exact (this _).trans (List.Perm.cons x ih)

/-- **index_sort_query_spec.** Index-mode measure query ordered by an indexed tag over any number of segments (series
    shared between segments in any pattern): the merged result is in sort-key order in the requested direction, no
    series is returned twice, and every series of every segment is returned. -/
theorem index_sort_query_spec (desc : Bool) (segs : List (List (String × Int))) :
    Sorted (kvLt desc) (indexSortQuery desc segs) ∧
    ((indexSortQuery desc segs).map (·.1)).Nodup ∧
    (∀ seg ∈ segs, ∀ e ∈ seg, e.1 ∈ (indexSortQuery desc segs).map (·.1)) := by
  unfold indexSortQuery
  have sw := strictWeak_kvLt desc
  have ⟨d1, d2, _, d4⟩ := dropSeen_spec (segs.map (sortKV desc)) []
  have hsorted : ∀ it ∈ dropSeen [] (segs.map (sortKV desc)), Sorted (kvLt desc) it := by
    intro it hit
    obtain ⟨s, hs, hsub⟩ := d1 it hit
    obtain ⟨seg, _, rfl⟩ := List.mem_map.mp hs
    exact List.Pairwise.sublist hsub (sortKV_sorted desc seg)
  have ⟨hp, hs⟩ := kmerge_sorted sw hsorted
  refine ⟨hs, ((hp.map _).nodup_iff).mpr d2, ?_⟩
  intro seg hseg e he
  have := d4 (sortKV desc seg) (List.mem_map_of_mem hseg) e ((sortKV_perm desc seg).mem_iff.mpr he)
  rcases this with h | h
  · cases h
  · exact ((hp.map _).mem_iff).mpr h

/-- the input of the seeded change n2 (segments {b,e,f} and {a,b,c,d,f}) -/
example : (indexSortQuery false [[("b", 20), ("e", 35), ("f", 50)], [("a", 10), ("b", 20), ("c", 30), ("d", 40), ("f", 50)]]).map (·.1)
    = ["a", "b", "c", "e", "d", "f"] := by decide





/-! ## 9. index-ordered stream query window; distributed limit/offset push-down -/

def idxStep (w : Int × Int) (e : IElem) : Int × Int :=
  (if decide (e.ts < w.1) || decide (w.1 = 0) then e.ts else w.1, if e.ts > w.2 then e.ts else w.2)

theorem idxWindow_eq (batch : List IElem) : idxWindow batch = batch.foldl idxStep (0, 0) := rfl

theorem idxFold_spec : ∀ (batch : List IElem) (w : Int × Int), (∀ e ∈ batch, 0 < e.ts) → 0 ≤ w.1 →
    let r := batch.foldl idxStep w
    (w.1 ≠ 0 → r.1 ≤ w.1 ∧ 0 < r.1) ∧ w.2 ≤ r.2 ∧ (∀ e ∈ batch, r.1 ≤ e.ts ∧ e.ts ≤ r.2 ∧ 0 < r.1) := by
  intro batch
  induction batch with
  | nil => intro w _ h0; simp; omega
  | cons x xs ih =>
    intro w hpos h0
    have hx := hpos x List.mem_cons_self
    have hstep1 : (idxStep w x).1 ≠ 0 ∧ 0 ≤ (idxStep w x).1 ∧ (idxStep w x).1 ≤ x.ts ∧ (w.1 ≠ 0 → (idxStep w x).1 ≤ w.1) := by
      simp only [idxStep]
      by_cases h1 : x.ts < w.1 <;> by_cases h2 : w.1 = 0 <;> simp [h1, h2] <;> omega
    have hstep2 : w.2 ≤ (idxStep w x).2 ∧ x.ts ≤ (idxStep w x).2 := by
      simp only [idxStep]; split <;> omega
    have ⟨i1, i2, i3⟩ := ih (idxStep w x) (fun e he => hpos e (List.mem_cons_of_mem _ he)) hstep1.2.1
    have i1' := i1 hstep1.1
    simp only [List.foldl_cons]
    refine ⟨fun hw => ⟨by have := hstep1.2.2.2 hw; omega, i1'.2⟩, by omega, ?_⟩
    intro e he
    rcases List.mem_cons.mp he with rfl | he
    · exact ⟨by omega, by omega, i1'.2⟩
    · exact i3 e he

/-- **idx_window_covers.** The [min,max] window that `idxResult.loadSortingData` accumulates while draining the ordered
    index contains the timestamp of every drained entry, whatever order the timestamps come in (the window selects the
    parts and blocks to load, so an entry outside it would be lost). -/
theorem idx_window_covers (batch : List IElem) (hpos : ∀ e ∈ batch, 0 < e.ts) :
    ∀ e ∈ batch, (idxWindow batch).1 ≤ e.ts ∧ e.ts ≤ (idxWindow batch).2 := by
  intro e he
  have := (idxFold_spec batch (0, 0) hpos (by simp)).2.2 e he
  rw [idxWindow_eq]
  exact ⟨this.1, this.2.1⟩

/-- non-monotone timestamps in index order (the input of the seeded change r1) -/
example : idxWindow [⟨1, 10, 1001⟩, ⟨1, 30, 1002⟩, ⟨1, 20, 1003⟩] = (10, 30) ∧
    idxQuery 3 [[⟨1, 10, 1001⟩], [⟨1, 20, 1003⟩, ⟨1, 30, 1002⟩]] [⟨1, 10, 1001⟩, ⟨1, 30, 1002⟩, ⟨1, 20, 1003⟩]
      = [[1001, 1002, 1003]] := by decide

/-- What the push-down must guarantee (C09 across nodes): the liaison's window over the merged node responses equals
    the window of the ordered union, although every node only returns its first `limit' + offset` rows.
    **Not proved** (needs an order-statistics argument over the per-node prefixes); tied by correspondence and checked by the
    model-independent oracle on every run. -/
def DistributedWindowStatement : Prop :=
  ∀ (dflt limit offset : Nat) (desc : Bool) (nodes : List (List Int)),
    distributedWindow dflt limit offset desc nodes
      = window offset (if limit = 0 then dflt else limit) (sortInts (!desc) nodes.flatten)

/-- the arithmetic of the push-down: the pushed limit always covers the liaison's window -/
theorem pushedLimit_covers (dflt limit offset : Nat) :
    offset + (if limit = 0 then dflt else limit) ≤ pushedLimit dflt limit offset := by
  unfold pushedLimit; omega

example : distributedWindow 20 0 5 false [[0, 2, 4, 6, 8, 10, 12], [1, 3, 5, 7, 9, 11]] = [5, 6, 7, 8, 9, 10, 11, 12] ∧
    pushedLimit 20 0 5 = 25 := by decide


end Banyan.C09
