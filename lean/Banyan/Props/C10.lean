/-
C10 — Aggregates, group-by and top-N equal a reference; partials compose.
Property theorems about the model in Banyan/Model/C10.lean; helper lemmas in Banyan/Lemmas/*C10.lean.
-/
import Banyan.Model.C10
import Banyan.Lemmas.AggC10
import Banyan.Lemmas.TopC10
import Banyan.Lemmas.GroupC10
import Banyan.Lemmas.PlanC10
import Banyan.Lemmas.TnpC10

namespace Banyan.C10

/-! ## 1. Map accumulators equal their definitions (`map_spec`) -/

/-- SUM is the wrapped sum. -/
theorem map_spec_sum (l : List I64) : (mapAll .sum l).val = l.sum := by
  rw [mapAll_sum]; exact wsum_eq_sum l

/-- COUNT is the (wrapped) number of values. -/
theorem map_spec_count (l : List I64) : (mapAll .count l).val = BitVec.ofNat 64 l.length := by
  rw [mapAll_count]; exact wcount_eq_length l

/-- MIN of a non-empty list is an element that is `≤` every element; of the empty list the `MaxInt64` sentinel. -/
theorem map_spec_min (l : List I64) :
    (l = [] → (mapAll .min l).val = maxInt64) ∧
    (l ≠ [] → (mapAll .min l).val ∈ l ∧ ∀ x ∈ l, ((mapAll .min l).val).sle x = true) := by
  rw [mapAll_min]
  exact ⟨fun h => by subst h; rfl, fun h => lmin_spec l h⟩

/-- MAX of a non-empty list is an element that is `≥` every element; of the empty list the `MinInt64` sentinel. -/
theorem map_spec_max (l : List I64) :
    (l = [] → (mapAll .max l).val = minInt64) ∧
    (l ≠ [] → (mapAll .max l).val ∈ l ∧ ∀ x ∈ l, x.sle ((mapAll .max l).val) = true) := by
  rw [mapAll_max]
  exact ⟨fun h => by subst h; rfl, fun h => lmax_spec l h⟩

/-- MEAN as implemented: 0 for no input; otherwise the truncated quotient of the wrapped sum by the count —
    **replaced by 1 whenever that quotient is `< 1`** (zero and negative means, finding F13). -/
theorem map_spec_mean (l : List I64) :
    (mapAll .mean l).val =
      if BitVec.ofNat 64 l.length = 0 then 0
      else if (l.sum.sdiv (BitVec.ofNat 64 l.length)).slt 1 then 1
      else l.sum.sdiv (BitVec.ofNat 64 l.length) := by
  rw [mapAll_mean]
  simp only [MapAcc.val, meanVal, wsum_eq_sum, wcount_eq_length]

/-- all five at once. -/
theorem map_spec (l : List I64) :
    (mapAll .sum l).val = l.sum ∧
    (mapAll .count l).val = BitVec.ofNat 64 l.length ∧
    ((l = [] → (mapAll .min l).val = maxInt64) ∧
      (l ≠ [] → (mapAll .min l).val ∈ l ∧ ∀ x ∈ l, ((mapAll .min l).val).sle x = true)) ∧
    ((l = [] → (mapAll .max l).val = minInt64) ∧
      (l ≠ [] → (mapAll .max l).val ∈ l ∧ ∀ x ∈ l, x.sle ((mapAll .max l).val) = true)) ∧
    (mapAll .mean l).val =
      (if BitVec.ofNat 64 l.length = 0 then 0
       else if (l.sum.sdiv (BitVec.ofNat 64 l.length)).slt 1 then 1
       else l.sum.sdiv (BitVec.ofNat 64 l.length)) :=
  ⟨map_spec_sum l, map_spec_count l, map_spec_min l, map_spec_max l, map_spec_mean l⟩

/-- F13 on concrete inputs: the mean of `[0, 0]` and of `[-4, -6]` is reported as 1; the documented
    "adds sums and counts, then divides" gives 0 and -5. -/
theorem mean_clamp_counterexample :
    (mapAll .mean [0, 0]).val = 1 ∧ (0 : I64).sdiv 2 = 0 ∧
    (mapAll .mean [-4, -6]).val = 1 ∧ (-10 : I64).sdiv 2 = -5 := by decide

/-- where the quotient is at least 1, MEAN is the documented quotient. -/
theorem mean_documented (l : List I64) (hc : BitVec.ofNat 64 l.length ≠ 0)
    (hq : (l.sum.sdiv (BitVec.ofNat 64 l.length)).slt 1 = false) :
    (mapAll .mean l).val = l.sum.sdiv (BitVec.ofNat 64 l.length) := by
  rw [map_spec_mean, if_neg hc, hq]; rfl

example : (BitVec.ofNat 64 [3, 4].length ≠ 0) ∧ (([3, 4] : List I64).sum.sdiv (BitVec.ofNat 64 2)).slt 1 = false := by decide

/-! ## 2. Partials compose (`reduce_composes`) -/

/-- **For every partition of a list into sublists — empty ones included — reducing the Map partials of the
    parts gives exactly the aggregate of the whole list**, for all five functions, on wrap-around int64. -/
theorem reduce_composes (fn : Fn) (parts : List (List I64)) :
    (reduceAll fn (parts.map fun p => (mapAll fn p).partial)).val = (mapAll fn parts.flatten).val := by
  rw [reduce_state]; exact val_of_mirror _

/-- what `PartialToFieldValues` sends for a Map partial is decoded back to it by `FieldValuesToPartial`. -/
theorem wire_roundtrip (fn : Fn) (l : List I64) :
    fieldValuesToPartial fn (partialToFieldValues fn (mapAll fn l).partial) = (mapAll fn l).partial := by
  cases fn
  · rw [mapAll_mean]; rfl
  · rw [mapAll_count]; rfl
  · rw [mapAll_max]; rfl
  · rw [mapAll_min]; rfl
  · rw [mapAll_sum]; rfl

/-- composition through the wire form. -/
theorem reduce_composes_wire (fn : Fn) (parts : List (List I64)) :
    (reduceAll fn (parts.map fun p =>
        fieldValuesToPartial fn (partialToFieldValues fn (mapAll fn p).partial))).val
      = (mapAll fn parts.flatten).val := by
  simp only [wire_roundtrip]; exact reduce_composes fn parts

/-- the plans send nothing for a partition without rows: leaving the empty parts out changes nothing. -/
theorem reduce_composes_skip_empty (fn : Fn) (parts : List (List I64)) :
    (reduceAll fn ((parts.filter (· ≠ [])).map fun p => (mapAll fn p).partial)).val
      = (mapAll fn parts.flatten).val := by
  rw [reduce_composes]
  congr 2
  induction parts with
  | nil => rfl
  | cons p ps ih =>
    cases p with
    | nil => simpa using ih
    | cons x xs => simp at ih; simp [List.filter, ih]

/-- F12: a zero partial — what `FieldValuesToPartial` makes of an *empty field list* — is not neutral for
    MIN/MAX: `MIN [[5],[],[7]]` becomes 0 if the empty partition were sent in that form. No plan sends that
    form (an empty group sends no data point, `reduce_composes_skip_empty`), so the composition law above is
    not affected; the decoder is merely not total in the way its comment suggests. -/
theorem zero_partial_counterexample :
    (reduceAll .min [(mapAll .min [5]).partial, fieldValuesToPartial .min [], (mapAll .min [7]).partial]).val = 0 ∧
    (mapAll .min [5, 7]).val = 5 ∧
    (reduceAll .max [(mapAll .max [-5]).partial, fieldValuesToPartial .max [], (mapAll .max [-7]).partial]).val = 0 ∧
    (mapAll .max [-5, -7]).val = -5 := by decide


/-! ## 3. Top-N -/

/-- `TopQueue`: after inserting `es` into a fresh queue of size `n`, `Elements()` is sorted (descending, or
    ascending for the reverted/bottom-N queue), has `min n |es|` members, and together with a rest `dropped`
    it is a permutation of the input in which nothing dropped is better than anything kept — i.e. it is the `n`
    largest (smallest) of the multiset, each data point with its own value. -/
theorem topn_spec {α : Type} (n : Nat) (rev : Bool) (es : List (Int × α)) (q' : TopQ α) (acc : List Bool)
    (h : (TopQ.new n rev).insertAll es = some (q', acc)) :
    q'.elements.Pairwise (fun a b => if rev then a.1 ≤ b.1 else b.1 ≤ a.1) ∧
    q'.elements.length = min n es.length ∧
    ∃ dropped, (q'.elements ++ dropped).Perm es ∧
      ∀ x ∈ q'.elements, ∀ y ∈ dropped, (if rev then x.1 ≤ y.1 else y.1 ≤ x.1) := by
  have ⟨inv, hn, hr, _⟩ := insertAll_inv (TopQ.new n rev) [] es q' acc (topInv_new n rev) h
  simp only [TopQ.new, List.nil_append] at inv hn hr
  obtain ⟨D, hperm, hord, hlen⟩ := inv
  have hs := sortElems_sorted q'.reverted q'.elems
  have hp := sortElems_perm q'.reverted q'.elems
  rw [hr] at hs hord
  refine ⟨?_, ?_, D, ?_, ?_⟩
  · unfold TopQ.elements; rw [hr]
    exact hs.imp (fun hab => (okey_le rev _ _).mp hab)
  · unfold TopQ.elements; rw [hp.length_eq, hlen, hn]
  · unfold TopQ.elements
    exact (List.Perm.append_right D hp).trans hperm
  · intro x hx y hy
    unfold TopQ.elements at hx
    exact (okey_le rev _ _).mp (hord x (hp.mem_iff.mp hx) y hy)

/-- with `n ≥ 1` the queue never panics … -/
theorem topn_total {α : Type} (n : Nat) (rev : Bool) (es : List (Int × α)) (hn : 0 < n) :
    ∃ q' acc, (TopQ.new n rev).insertAll es = some (q', acc) := by
  cases h : (TopQ.new n rev).insertAll es with
  | none => exact absurd h (insertAll_ne_none _ es hn)
  | some p => exact ⟨p.1, p.2, rfl⟩

/-- … whereas `n = 0` makes the first `Insert` pop an empty heap (Go: index out of range). -/
theorem top_zero_panics {α : Type} (rev : Bool) (e : Int × α) (es : List (Int × α)) :
    (TopQ.new 0 rev).insertAll (e :: es) = none := by
  simp [TopQ.insertAll, TopQ.insert, TopQ.new, popRoot]

example : ((TopQ.new 2 false : TopQ Unit).insertAll [(5, ()), (1, ()), (7, ()), (7, ()), (3, ())]).map
    (fun p => (p.1.elements.map (·.1), p.2)) = some ([7, 7], [true, true, true, true, false]) := by decide



/-! ## 4. Group-by -/

/-- **Group-by is "partition by key, then aggregate"** (`groupBy.hash` + `aggGroupIterator`, and
    `BatchAggregation`): one answer per distinct key, every row's key answered, and the fields of the answer for
    a key are the Map result over exactly the rows with that key (in arrival order). -/
theorem groupby_spec (path : Path) (mode : KeyMode) (fn : Fn) (mask : List Bool) (emit : Bool) (rows : List Row)
    (hg : isGroup mask = true) (hh : ¬ (path = .row ∧ groupByEntity mask = true)) :
    let K := fun tags => groupKey mode mask tags
    let ans := nodeAnswer path mode fn mask emit rows
    (ans.map fun a => K a.tags).Nodup ∧
    (∀ r ∈ rows, ∃ a ∈ ans, K a.tags = K r.tags) ∧
    (∀ a ∈ ans, a.fields = mapFields fn emit ((rows.filter fun r => K r.tags = K a.tags).map (·.val))
      ∧ ∃ r ∈ rows, K r.tags = K a.tags ∧ a.shard = r.shard) := by
  intro K ans
  have hans : ans = _ := nodeAnswer_hash path mode fn mask emit rows hg hh
  obtain ⟨hnd, hkeys, _⟩ := groupByKey_spec (fun r : Row => K r.tags) rows
  -- the key of an answer is the key of its group
  have hkey : ∀ kg ∈ groupByKey (fun r : Row => K r.tags) rows,
      K (firstTags kg.2) = kg.1 ∧ ∃ r ∈ rows, K r.tags = kg.1 ∧ firstShard kg.2 = r.shard := by
    intro kg hkg
    obtain ⟨k, g⟩ := kg
    have ⟨hgf, hne⟩ := groupByKey_mem _ rows k g hkg
    obtain ⟨x, hx, hhead⟩ := first_mem g hne
    have hx' : x ∈ rows.filter (fun r => K r.tags = k) := by rw [← hgf]; exact hx
    have ⟨hxr, hxk⟩ := List.mem_filter.mp hx'
    have hxk' : K x.tags = k := by simpa using hxk
    refine ⟨?_, x, hxr, hxk', ?_⟩
    · simp only [firstTags, hhead, Option.map_some, Option.getD_some]; exact hxk'
    · simp only [firstShard, hhead, Option.map_some, Option.getD_some]
  have hmapkeys : ans.map (fun a => K a.tags) = (groupByKey (fun r : Row => K r.tags) rows).map (·.1) := by
    rw [hans, List.map_map]
    apply List.map_congr_left
    intro kg hkg
    exact (hkey kg hkg).1
  refine ⟨by rw [hmapkeys]; exact hnd, ?_, ?_⟩
  · intro r hr
    have : K r.tags ∈ ans.map (fun a => K a.tags) := by
      rw [hmapkeys]; exact (hkeys _).mpr ⟨r, hr, rfl⟩
    obtain ⟨a, ha, e⟩ := List.mem_map.mp this
    exact ⟨a, ha, e⟩
  · intro a ha
    rw [hans] at ha
    obtain ⟨kg, hkg, e⟩ := List.mem_map.mp ha
    obtain ⟨k, g⟩ := kg
    have ⟨hgf, _⟩ := groupByKey_mem _ rows k g hkg
    have ⟨hk1, r, hr, hrk, hsh⟩ := hkey (k, g) hkg
    subst e
    simp only at hk1 hsh ⊢
    rw [hk1]
    exact ⟨by rw [hgf], r, hr, hrk, hsh⟩



/-- Group-by on the entity (`groupSortIterator` over a series-ordered scan): the groups are the maximal runs of
    consecutive rows with one key — their concatenation is the input, each is non-empty and carries one key.
    (Rows of one key are one group exactly when the scan delivers them contiguously.) -/
theorem groupsort_spec {α κ : Type} [DecidableEq κ] (key : α → κ) (l : List α) :
    ((chunkByKey key l).flatMap (·.2) = l) ∧
    (∀ kg ∈ chunkByKey key l, kg.2 ≠ [] ∧ ∀ x ∈ kg.2, key x = kg.1) := chunkByKey_spec key l

/-! ## 5. Replica de-duplication and the liaison -/

/-- the de-duplication key of the liaison: the shard alone without group-by, (shard, group key) with it. -/
def dedupKey (mode : KeyMode) (mask : List Bool) (r : Resp) : Nat × List String :=
  if isGroup mask then (r.shard, groupKey mode mask r.tags) else (r.shard, [])

/-- **Replica answers are counted once.** Whatever is appended after the first answer for a (shard, group) —
    any number of replica answers, with any content — does not change the liaison's result. -/
theorem replica_dedup_once (mode : KeyMode) (fn : Fn) (mask : List Bool) (answers replicas : List (List Resp))
    (h : ∀ x ∈ replicas.flatten, ∃ y ∈ answers.flatten, dedupKey mode mask y = dedupKey mode mask x) :
    liaison mode fn mask (answers ++ replicas) = liaison mode fn mask answers := by
  unfold liaison
  simp only [List.flatten_append]
  cases hg : isGroup mask with
  | true =>
    simp only [if_true]
    rw [dedupBy_replicas]
    intro x hx
    obtain ⟨y, hy, e⟩ := h x hx
    simp only [dedupKey, hg, if_true] at e
    exact ⟨y, hy, e⟩
  | false =>
    simp only [Bool.false_eq_true, if_false]
    rw [dedupBy_replicas]
    intro x hx
    obtain ⟨y, hy, e⟩ := h x hx
    simp only [dedupKey, hg, Bool.false_eq_true, if_false, Prod.mk.injEq, and_true] at e
    exact ⟨y, hy, e⟩

/-- … and when replicas answer consistently (same (shard, group) ⇒ same answer) neither their number nor the
    order in which the answers arrive matters: any two answer streams with the same set of answers reduce,
    for every group selection, to the same value. -/
theorem replica_dedup_any_order {κ : Type} [DecidableEq κ] (fn : Fn) (dk : Resp → κ) (l₁ l₂ : List Resp)
    (c₁ : ∀ x ∈ l₁, ∀ y ∈ l₁, dk x = dk y → x = y)
    (c₂ : ∀ x ∈ l₂, ∀ y ∈ l₂, dk x = dk y → x = y)
    (hm : ∀ x, x ∈ l₁ ↔ x ∈ l₂) (sel : Resp → Bool) :
    reduceFields fn ((dedupBy dk l₁ []).filter sel) = reduceFields fn ((dedupBy dk l₂ []).filter sel) := by
  unfold reduceFields
  have hp := dedupBy_perm_of_consistent dk l₁ l₂ c₁ c₂ hm
  rw [reduceAll_perm fn ((hp.filter sel).map _)]

/-- every answer of a replica is dropped when it repeats what an earlier node said: the liaison of `R` copies
    of the same answers equals the liaison of one copy. -/
theorem replica_copies (mode : KeyMode) (fn : Fn) (mask : List Bool) (answers : List (List Resp)) (copies : Nat) :
    liaison mode fn mask (answers ++ (List.replicate copies answers).flatten) = liaison mode fn mask answers := by
  apply replica_dedup_once
  intro x hx
  refine ⟨x, ?_, rfl⟩
  simp only [List.mem_flatten, List.mem_replicate] at hx ⊢
  obtain ⟨l, ⟨ls, ⟨_, rfl⟩, hl⟩, hx⟩ := hx
  exact ⟨l, hl, hx⟩

/-- The reduce of the kept partials of one group equals the aggregate of the group's rows **provided** the
    kept partials are the Map partials of row lists that together are a rearrangement of those rows — each row
    in exactly one kept partial. -/
theorem reduce_of_cover (fn : Fn) (kept : List Resp) (vals : List I64) (parts : List (List I64))
    (hp : kept.map (fun r => fieldValuesToPartial fn r.fields) = parts.map (fun p => (mapAll fn p).partial))
    (hc : parts.flatten.Perm vals) :
    reduceFields fn kept = (mapAll fn vals).val := by
  unfold reduceFields
  rw [hp, reduce_composes, mapAll_perm fn hc]



/-! ## 6. Map on the nodes + reduce on the liaison vs. everything in one place -/

/-- **Map on the nodes, de-duplicate and reduce on the liaison = aggregate in one place**, for every
    deployment in which each answering node holds the rows of one shard (any number of shards, any number of
    replicas per shard, nodes in any order, every shard with rows answered at least once): the liaison returns
    one row per group key, and its value is the aggregate over all rows of that key — each row counted once. -/
theorem distributed_partial (path : Path) (mode : KeyMode) (fn : Fn) (mask : List Bool)
    (rows : List Row) (ss : List Nat)
    (hg : isGroup mask = true) (hh : ¬ (path = .row ∧ groupByEntity mask = true))
    (hcover : ∀ r ∈ rows, r.shard ∈ ss) :
    let K := fun tags => groupKey mode mask tags
    let answers := ss.map fun s => nodeAnswer path mode fn mask true (rows.filter fun r => r.shard = s)
    ((liaison mode fn mask answers).map fun o => K o.tags).Nodup ∧
    (∀ r ∈ rows, ∃ o ∈ liaison mode fn mask answers, K o.tags = K r.tags) ∧
    (∀ o ∈ liaison mode fn mask answers,
      o.fields = [(mapAll fn ((rows.filter fun r => K r.tags = K o.tags).map (·.val))).val]) := by
  intro K answers
  let R := fun s => rows.filter fun r => r.shard = s
  let A := fun s => nodeAnswer path mode fn mask true (R s)
  have hA : answers = ss.map A := rfl
  let dk := fun r : Resp => (r.shard, K r.tags)
  let kept := dedupBy dk answers.flatten []
  -- what a node answers
  have nodeSpec := fun s => groupby_spec path mode fn mask true (R s) hg hh
  have aShard : ∀ s, ∀ a ∈ A s, a.shard = s := by
    intro s a ha
    obtain ⟨_, r, hr, _, hs⟩ := (nodeSpec s).2.2 a ha
    have := (List.mem_filter.mp hr).2
    rw [hs]; simpa using this
  have memAll : ∀ a, a ∈ answers.flatten ↔ ∃ s ∈ ss, a ∈ A s := by
    intro a
    rw [hA, List.mem_flatten]
    constructor
    · rintro ⟨l, hl, ha⟩
      obtain ⟨s, hs, rfl⟩ := List.mem_map.mp hl
      exact ⟨s, hs, ha⟩
    · rintro ⟨s, hs, ha⟩
      exact ⟨A s, List.mem_map.mpr ⟨s, hs, rfl⟩, ha⟩
  have consistent : ∀ x ∈ answers.flatten, ∀ y ∈ answers.flatten, dk x = dk y → x = y := by
    intro x hx y hy e
    obtain ⟨s1, _, hx1⟩ := (memAll x).mp hx
    obtain ⟨s2, _, hy2⟩ := (memAll y).mp hy
    have e1 : x.shard = y.shard := (Prod.mk.inj e).1
    have e2 : K x.tags = K y.tags := (Prod.mk.inj e).2
    have : s1 = s2 := by rw [← aShard s1 x hx1, ← aShard s2 y hy2, e1]
    subst this
    exact inj_of_nodup_map (fun a : Resp => K a.tags) (A s1) (nodeSpec s1).1 x y hx1 hy2 e2
  have keptMem : ∀ a, a ∈ kept ↔ a ∈ answers.flatten := dedupBy_mem_of_consistent dk _ consistent
  have keptNd : (kept.map dk).Nodup := dedupBy_nodup dk _ []
  obtain ⟨lnd, lcov, lval⟩ := liaison_group mode fn mask answers hg
  refine ⟨lnd, ?_, ?_⟩
  · intro r hr
    have hs := hcover r hr
    have hrR : r ∈ R r.shard := List.mem_filter.mpr ⟨hr, by simp⟩
    obtain ⟨a, ha, hak⟩ := (nodeSpec r.shard).2.1 r hrR
    have hkept : a ∈ kept := (keptMem a).mpr ((memAll a).mpr ⟨r.shard, hs, ha⟩)
    obtain ⟨o, ho, e⟩ := lcov a hkept
    exact ⟨o, ho, e.trans hak⟩
  · intro o ho
    obtain ⟨hf, _⟩ := lval o ho
    rw [hf]
    congr 1
    let k := K o.tags
    let S := kept.filter fun a => K a.tags = k
    let Lk := rows.filter fun r => K r.tags = k
    have hS : ∀ a ∈ S, a ∈ kept ∧ K a.tags = k := by
      intro a ha
      have := List.mem_filter.mp ha
      exact ⟨this.1, by simpa using this.2⟩
    apply reduce_of_cover fn S (Lk.map (·.val)) (S.map fun a => (Lk.filter fun r => r.shard = a.shard).map (·.val))
    · rw [List.map_map]
      apply List.map_congr_left
      intro a ha
      obtain ⟨hak, hk⟩ := hS a ha
      obtain ⟨s, _, has⟩ := (memAll a).mp ((keptMem a).mp hak)
      have hsh := aShard s a has
      have hk2 : groupKey mode mask a.tags = k := hk
      have hfields := ((nodeSpec s).2.2 a has).1
      simp only [hk2, R] at hfields
      show fieldValuesToPartial fn a.fields =
        (mapAll fn (((rows.filter fun r => groupKey mode mask r.tags = k).filter fun r => r.shard = a.shard).map (·.val))).partial
      rw [hfields, filter_shard_key rows (groupKey mode mask) s k, hsh]
      simp only [mapFields, if_true]
      exact wire_roundtrip fn _
    · -- the kept partials of the group split its rows by shard
      have hmapdk : S.map dk = (S.map (·.shard)).map (fun s => (s, k)) := by
        rw [List.map_map]
        apply List.map_congr_left
        intro a ha
        simp only [Function.comp, dk, (hS a ha).2]
      have hSnd : (S.map (·.shard)).Nodup := by
        apply nodup_of_map (fun s => (s, k))
        rw [← hmapdk]
        exact (List.Sublist.map dk List.filter_sublist).nodup keptNd
      have hcov : ∀ r ∈ Lk, r.shard ∈ S.map (·.shard) := by
        intro r hr
        have ⟨hrr, hrk⟩ := List.mem_filter.mp hr
        have hrk' : K r.tags = k := by simpa using hrk
        have hs := hcover r hrr
        have hrR : r ∈ R r.shard := List.mem_filter.mpr ⟨hrr, by simp⟩
        obtain ⟨a, ha, hak⟩ := (nodeSpec r.shard).2.1 r hrR
        have hkept : a ∈ kept := (keptMem a).mpr ((memAll a).mpr ⟨r.shard, hs, ha⟩)
        have haS : a ∈ S := List.mem_filter.mpr ⟨hkept, decide_eq_true (hak.trans hrk')⟩
        exact List.mem_map.mpr ⟨a, haS, aShard _ a ha⟩
      have hp := partition_perm (fun r : Row => r.shard) (S.map (·.shard)) Lk hSnd hcov
      have : (S.map fun a => (Lk.filter fun r => r.shard = a.shard).map (·.val)).flatten =
          (((S.map (·.shard)).map fun s => Lk.filter fun r => r.shard = s).flatten).map (·.val) := by
        rw [List.map_flatten, List.map_map, List.map_map]
        rfl
      rw [this]
      exact hp.map _



/-- … which is, group by group, what a single node holding every row answers. -/
theorem distributed_partial_eq_local (path : Path) (mode : KeyMode) (fn : Fn) (mask : List Bool)
    (rows : List Row) (ss : List Nat)
    (hg : isGroup mask = true) (hh : ¬ (path = .row ∧ groupByEntity mask = true))
    (hcover : ∀ r ∈ rows, r.shard ∈ ss) :
    (∀ o ∈ liaison mode fn mask (ss.map fun s => nodeAnswer path mode fn mask true (rows.filter fun r => r.shard = s)),
      ∃ l ∈ nodeAnswer path mode fn mask false rows,
        groupKey mode mask l.tags = groupKey mode mask o.tags ∧ l.fields = o.fields) ∧
    (∀ l ∈ nodeAnswer path mode fn mask false rows,
      ∃ o ∈ liaison mode fn mask (ss.map fun s => nodeAnswer path mode fn mask true (rows.filter fun r => r.shard = s)),
        groupKey mode mask o.tags = groupKey mode mask l.tags ∧ o.fields = l.fields) := by
  obtain ⟨_, dcov, dval⟩ := distributed_partial path mode fn mask rows ss hg hh hcover
  obtain ⟨_, lcov, lval⟩ := groupby_spec path mode fn mask false rows hg hh
  have lkept := (liaison_group mode fn mask
    (ss.map fun s => nodeAnswer path mode fn mask true (rows.filter fun r => r.shard = s)) hg).2.2
  dsimp only at dcov dval lcov lval lkept
  have lfields : ∀ l ∈ nodeAnswer path mode fn mask false rows, l.fields =
      [(mapAll fn ((rows.filter fun r => groupKey mode mask r.tags = groupKey mode mask l.tags).map (·.val))).val] := by
    intro l hl
    have := (lval l hl).1
    simpa [mapFields] using this
  refine ⟨?_, ?_⟩
  · intro o ho
    obtain ⟨a, ha, hak⟩ := (lkept o ho).2
    have hfo := dval o ho
    have : ∃ r ∈ rows, groupKey mode mask r.tags = groupKey mode mask o.tags := by
      have hmem := (dedupBy_sublist (fun r : Resp => (r.shard, groupKey mode mask r.tags)) _ []).subset ha
      obtain ⟨l', hl', hal⟩ := List.mem_flatten.mp hmem
      obtain ⟨s, _, rfl⟩ := List.mem_map.mp hl'
      have hn := (groupby_spec path mode fn mask true (rows.filter fun r => r.shard = s) hg hh).2.2
      dsimp only at hn
      obtain ⟨_, r, hr, hrk, _⟩ := hn a hal
      exact ⟨r, (List.mem_filter.mp hr).1, hrk.trans hak⟩
    obtain ⟨r, hr, hrk⟩ := this
    obtain ⟨l, hl, hlk⟩ := lcov r hr
    refine ⟨l, hl, hlk.trans hrk, ?_⟩
    rw [lfields l hl, hfo]
    simp only [hlk.trans hrk]
  · intro l hl
    obtain ⟨_, r, hr, hrk, _⟩ := lval l hl
    obtain ⟨o, ho, hok⟩ := dcov r hr
    refine ⟨o, ho, hok.trans hrk, ?_⟩
    rw [dval o ho, lfields l hl]
    simp only [hok.trans hrk]

/-- Without group-by the liaison keeps one answer per shard id, and every node labels its only answer with
    shard id 0. This is right when the answering nodes are replicas of each other (`holds = true`: the node has
    every row; `false`: it has none): the result is the aggregate of all rows, counted once. -/
theorem distributed_scalar_replicas (path : Path) (mode : KeyMode) (fn : Fn) (mask : List Bool) (rows : List Row)
    (holds : List Bool) (hg : isGroup mask = false) (hne : rows ≠ []) (hsome : true ∈ holds) :
    liaison mode fn mask (holds.map fun b => nodeAnswer path mode fn mask true (if b then rows else [])) =
      nodeAnswer path mode fn mask false rows := by
  cases rows with
  | nil => exact absurd rfl hne
  | cons r rs =>
    have hfull : nodeAnswer path mode fn mask true (r :: rs) =
        [⟨0, r.tags, mapFields fn true ((r :: rs).map (·.val))⟩] := by
      unfold nodeAnswer; simp [hg]
    have hempty : nodeAnswer path mode fn mask true [] = [] := by
      unfold nodeAnswer; simp [hg]
    have hlocal : nodeAnswer path mode fn mask false (r :: rs) =
        [⟨0, r.tags, [(mapAll fn ((r :: rs).map (·.val))).val]⟩] := by
      unfold nodeAnswer; simp [hg, mapFields]
    let x : Resp := ⟨0, r.tags, mapFields fn true ((r :: rs).map (·.val))⟩
    have hflat : (holds.map fun b => nodeAnswer path mode fn mask true (if b then r :: rs else [])).flatten =
        List.replicate (holds.count true) x := by
      induction holds with
      | nil => rfl
      | cons b bs ih =>
        have ih' := ih
        cases b with
        | true =>
          simp only [List.map_cons, List.flatten_cons, if_true, hfull, List.count_cons_self]
          by_cases c : true ∈ bs
          · rw [ih c, List.replicate_succ]; rfl
          · have : bs.count true = 0 := List.count_eq_zero.mpr c
            have hall : ∀ b ∈ bs, b = false := by
              intro b hb; cases b with
              | false => rfl
              | true => exact absurd hb c
            have : (bs.map fun b => nodeAnswer path mode fn mask true (if b then r :: rs else [])).flatten = [] := by
              rw [List.flatten_eq_nil_iff]
              intro l hl
              obtain ⟨b, hb, rfl⟩ := List.mem_map.mp hl
              rw [hall b hb]; simpa using hempty
            rw [this]
            simp [List.count_eq_zero.mpr c, x]
        | false =>
          simp only [List.map_cons, List.flatten_cons, Bool.false_eq_true, if_false, hempty, List.nil_append]
          have c : true ∈ bs := by
            cases List.mem_cons.mp hsome with
            | inl e => exact absurd e (by simp)
            | inr e => exact e
          rw [ih c]
          simp
    have hpos : 0 < holds.count true := List.count_pos_iff.mpr hsome
    unfold liaison
    simp only [hg, Bool.false_eq_true, if_false]
    rw [hflat]
    obtain ⟨m, hm⟩ : ∃ m, holds.count true = m + 1 := ⟨holds.count true - 1, by omega⟩
    rw [hm, dedup_replicate, hlocal]
    simp only [x, reduceFields, List.map_cons, List.map_nil, mapFields, if_true, wire_roundtrip]
    have := reduce_composes fn [(r :: rs).map (·.val)]
    simp only [List.map_cons, List.map_nil, List.flatten_cons, List.flatten_nil, List.append_nil] at this
    rw [this]


/-- the result as a keyed collection: (group-by tag values, fields) of every returned point. -/
def keyed (mask : List Bool) (rs : Option (List Resp)) : Option (List (List String × List I64)) :=
  rs.map fun l => l.map fun r => (selectTags mask r.tags, r.fields)

/-- C10 at full strength, for the deployment-independent claim: for every placement of the rows on shards and
    of shards on answering nodes (replicas and empty nodes included) in which every shard that has rows is
    answered by some node, the distributed result is — up to the order of the returned groups — the result of
    aggregating everything in one place. -/
def distributedStatement : Prop :=
  ∀ (path : Path) (sc : Scenario), sc.top = none →
    (∀ r ∈ sc.rows, ∃ n ∈ sc.nodes, r.shard ∈ n) →
    ∃ l d, keyed sc.mask (sc.local path .exact) = some l ∧ keyed sc.mask (sc.distributed path .exact) = some d ∧
      d.Perm l

/-- F40, without group-by: two nodes with one shard each. Both label their partial with shard id 0
    (`aggAllIterator.Current`, `BatchAggregation.newGroup`), the liaison de-duplicates by shard id and keeps
    only the first: SUM of `5` and `7` is reported as `5`. -/
def scScalar : Scenario :=
  ⟨.sum, [false, false, false], none, [[0], [1]], [⟨0, ["a", "b", "c"], 5⟩, ⟨1, ["a", "b", "c"], 7⟩]⟩

theorem distributed_scalar_counterexample :
    keyed scScalar.mask (scScalar.local .row .exact) = some [([], [12])] ∧
    keyed scScalar.mask (scScalar.distributed .row .exact) = some [([], [5])] ∧
    keyed scScalar.mask (scScalar.distributed .vec .exact) = some [([], [5])] := by decide

/-- F40, with group-by: nodes that hold two shards each (`{0,1}` and `{1,2}`) label the partial of a group
    with the shard of its first row; the two partials of group `a` carry different labels, both are kept, and
    the rows of shard 1 are counted twice (`5 + 7 + 11 = 23` is reported as `30`). -/
def scMulti : Scenario :=
  ⟨.sum, [true, false, false], none, [[0, 1], [1, 2]],
    [⟨0, ["a", "b", "c"], 5⟩, ⟨1, ["a", "b", "c"], 7⟩, ⟨2, ["a", "b", "c"], 11⟩]⟩

theorem distributed_multishard_counterexample :
    keyed scMulti.mask (scMulti.local .vec .exact) = some [(["a"], [23])] ∧
    keyed scMulti.mask (scMulti.distributed .vec .exact) = some [(["a"], [30])] ∧
    keyed scMulti.mask (scMulti.distributed .row .exact) = some [(["a"], [30])] := by decide

/-- hence the full-strength statement is false for the code as written (known finding F40); what is proved
    instead is `distributed_partial` (one shard per answering node, with group-by) and
    `distributed_scalar_replicas` (no group-by, answering nodes are full replicas). -/
theorem distributedStatement_false : ¬ distributedStatement := by
  intro h
  obtain ⟨l, d, hl, hd, hp⟩ := h .row scScalar rfl (by decide)
  have h1 := distributed_scalar_counterexample.1
  have h2 := distributed_scalar_counterexample.2.1
  rw [h1] at hl; rw [h2] at hd
  cases hl; cases hd
  have := hp.eq_singleton
  simp at this

/-- the hypotheses of `distributed_partial` are satisfiable with replicas and several shards. -/
example : (∀ r ∈ scMulti.rows, r.shard ∈ [1, 0, 2, 1, 0]) ∧
    keyed scMulti.mask (some (liaison .exact .sum scMulti.mask
      ([1, 0, 2, 1, 0].map fun s => nodeAnswer .vec .exact .sum scMulti.mask true (scMulti.rows.filter fun r => r.shard = s))))
      = some [(["a"], [23])] := by decide

/-! ## 7. The group key of the row path (finding F41) -/

/-- The pinned `formatGroupByKey` hashes the raw bytes of consecutive string tags with nothing in between, so
    `("ab","c")` and `("a","bc")` are one group: the row path reports one row with the merged SUM. -/
def scConcat : Scenario :=
  ⟨.sum, [true, true, false], none, [[0]], [⟨0, ["ab", "c", ""], 5⟩, ⟨0, ["a", "bc", ""], 7⟩]⟩

theorem groupkey_legacy_counterexample :
    groupKey .concat [true, true, false] ["ab", "c", ""] = groupKey .concat [true, true, false] ["a", "bc", ""] ∧
    keyed scConcat.mask (scConcat.local .row .concat) = some [(["ab", "c"], [12])] ∧
    keyed scConcat.mask (scConcat.local .row .exact) = some [(["ab", "c"], [5]), (["a", "bc"], [7])] := by decide

/-- the repaired key (every component delimited) identifies exactly the tuple of group-by tag values. -/
theorem groupkey_exact_injective (mask : List Bool) (t₁ t₂ : List String) :
    groupKey .exact mask t₁ = groupKey .exact mask t₂ ↔ selectTags mask t₁ = selectTags mask t₂ := Iff.rfl

/-! ## 8. The TopN post-processor (`topNPostProcessor.Put`, reducer of `dquery/topn.go processTopNResponse`) -/

/-- the latest-version entries after a sequence of arrivals `(entity, value, version)` of one timestamp, or `none`
    when some arrival is not monotone (see `truthStep`). -/
def truthRun (asc : Bool) : List TnEntry → List (String × Int × Int) → Option (List TnEntry)
  | T, [] => some T
  | T, a :: as =>
    match truthStep asc T a.1 a.2.1 a.2.2 with
    | none => none
    | some T' => truthRun asc T' as

def tnPutSeq (n : Nat) (asc : Bool) (tl : List TnEntry) (arr : List (String × Int × Int)) : List TnEntry :=
  arr.foldl (fun tl a => tnPut n asc tl a.1 a.2.1 a.2.2) tl

theorem tnInv_run (n : Nat) (asc : Bool) (hn : 0 < n) (arr : List (String × Int × Int)) (tl T T' : List TnEntry)
    (inv : TnInv n asc tl T) (h : truthRun asc T arr = some T') : TnInv n asc (tnPutSeq n asc tl arr) T' := by
  induction arr generalizing tl T with
  | nil => simp only [truthRun, Option.some.injEq] at h; subst h; exact inv
  | cons a as ih =>
    simp only [truthRun] at h
    cases hs : truthStep asc T a.1 a.2.1 a.2.2 with
    | none => rw [hs] at h; exact absurd h (by simp)
    | some T1 =>
      rw [hs] at h
      exact ih _ T1 (tnInv_step n asc tl T T1 a.1 a.2.1 a.2.2 hn inv hs) h

/-- **Replica de-duplication and eviction of the TopN reducer cooperate**: after any sequence of *monotone* arrivals
    for one timestamp — identical replicas, overwrites that do not make an entity worse seen in any order with their
    stale copies — the queue (`n ≥ 1`) holds each entity at most once, every kept entry is the latest-version entry
    of its entity, no entity outside the queue is better than one inside, and the queue is full unless it holds all:
    it is the `n` best of the de-duplicated latest-version values. -/
theorem topn_put_spec (n : Nat) (asc : Bool) (hn : 0 < n) (arr : List (String × Int × Int)) (T : List TnEntry)
    (h : truthRun asc [] arr = some T) :
    let q := tnPutSeq n asc [] arr
    (q.map (·.2.1)).Nodup ∧ (∀ e ∈ q, e ∈ T) ∧
    (∀ t ∈ T, t ∉ q → ∀ e ∈ q, (if asc then e.1 ≤ t.1 else t.1 ≤ e.1)) ∧
    (q.length = n ∨ ∀ t ∈ T, t ∈ q) ∧ q.length ≤ n := by
  intro q
  have inv := tnInv_run n asc hn arr [] [] T (tnInv_nil n asc) h
  refine ⟨inv.nodup, inv.sub, ?_, ?_, inv.len⟩
  · intro t ht hnt e he
    exact (okey_le asc _ _).mp (inv.dropped t ht hnt e he)
  · by_cases c : q.length < n
    · exact Or.inr (inv.all c)
    · have hl : q.length ≤ n := inv.len
      exact Or.inl (by omega)

/-- non-vacuity, and the scenario of the seeded change n1: stale replica first (`A=10 v1`), the fresh replica
    raises the lowest entity (`A=50 v2`), then `C=30` arrives: `A` and `C` are kept. -/
example : truthRun false [] [("B", 20, 1), ("A", 10, 1), ("A", 50, 2), ("B", 20, 1), ("C", 30, 1)]
      = some [(20, ("B", 1)), (50, ("A", 2)), (30, ("C", 1))] ∧
    (sortElems false (tnPutSeq 2 false [] [("B", 20, 1), ("A", 10, 1), ("A", 50, 2), ("B", 20, 1), ("C", 30, 1)])).map
      (fun e => (e.2.1, e.1)) = [("A", 50), ("C", 30)] := by decide

/-- Without the `heap.Fix` after the in-place update the heap still ranks `A` by its old value 10: `C=30` is compared
    with the root `A` (now 50) and rejected — `[A=50, B=20]` instead of `[A=50, C=30]`. -/
theorem tnp_nofix_counterexample :
    ([("B", 20, 1), ("A", 10, 1), ("A", 50, 2), ("B", 20, 1), ("C", 30, 1)].foldl
        (fun (tl : List TnEntryR) (a : String × Int × Int) => tnPutNoFix 2 false tl a.1 a.2.1 a.2.2) []).map
      (fun e => (e.2.1.1, e.2.2)) = [("B", 20), ("A", 50)] := by decide

/-- F42: the hypothesis of `topn_put_spec` is needed. A newer version that makes a kept entity worse, after another
    entity was evicted, leaves the queue with `[C=30, A=10]` although the latest values are `A=10, B=20, C=30`. -/
theorem tnp_nonmonotone_counterexample :
    truthRun false [] [("A", 50, 1), ("B", 20, 1), ("C", 30, 1), ("B", 20, 1), ("A", 10, 2)] = none ∧
    (sortElems false (tnPutSeq 2 false [] [("A", 50, 1), ("B", 20, 1), ("C", 30, 1), ("B", 20, 1), ("A", 10, 2)])).map
      (fun e => (e.2.1, e.1)) = [("C", 30), ("A", 10)] := by decide

/-- F43: `Flush` with an aggregation keeps a bounded heap while it is still adding up; the answer depends on the
    order in which the timelines are visited (Go map iteration): SUM, top 2 of `A=5+5, B=6, C=7, D=8`. -/
theorem tnp_flush_order_counterexample :
    tnFlush .sum 2 false [(1, [(5, ("A", 1)), (6, ("B", 1))]), (2, [(7, ("C", 1)), (8, ("D", 1))]), (3, [(5, ("A", 1))])]
      = [(8, "D"), (7, "C")] ∧
    tnFlush .sum 2 false [(1, [(5, ("A", 1)), (6, ("B", 1))]), (3, [(5, ("A", 1))]), (2, [(7, ("C", 1)), (8, ("D", 1))])]
      = [(10, "A"), (8, "D")] := by decide

end Banyan.C10
