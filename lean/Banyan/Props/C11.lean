/-
C11 — Storage codecs round-trip exactly and decoders never crash on bad bytes.
Property theorems only; the work is in Banyan/Lemmas/C11*.lean (+ BitsC11.lean leaf lemmas).

Conventions: `Res α = ok a | err | panic`; a decoder "never crashes" when its outcome is never
`panic`; "no unbounded allocation" is stated as a bound on the length of what it returns.
Definitions without suffix model the code with repairs F1 (float.go) / F3 (dictionary.go);
`…_legacy` definitions model the pinned code and carry the counterexamples.
-/
import Banyan.Model.C11
import Banyan.Lemmas.C11Varint
import Banyan.Lemmas.C11IntList
import Banyan.Lemmas.C11Blocks
import Banyan.Lemmas.C11Dict
import Banyan.Lemmas.C11VarArray
import Banyan.Lemmas.C11Total
import Banyan.Lemmas.C11Tag
import Banyan.Lemmas.C11Float
import Banyan.Lemmas.C11Engine
import Banyan.Lemmas.Entity

namespace Banyan.C11

/-! ## 1. variable-length and fixed-width integers -/

/-- `BytesToVarInt64List ∘ VarInt64ListToBytes = id` for every list of int64 (zig-zag, 1-byte
    fast path, up to 10 bytes), with any continuation of the stream. -/
theorem varint64_rt (vs : List I64) (rest : List Byte) :
    bytesToVarInt64List vs.length (varInt64ListToBytes vs ++ rest) = .ok (vs, rest) :=
  bytesToVarInt64List_rt vs rest

/-- `BytesToVarUint64s ∘ VarUint64sToBytes = id` for every list of uint64. -/
theorem varuint64_rt (us : List Nat) (rest : List Byte) (h : ∀ u ∈ us, u < 2 ^ 64) :
    bytesToVarUint64s us.length (varUint64sToBytes us ++ rest) = .ok (us, rest) :=
  bytesToVarUint64s_rt us rest h

/-- single value: `BytesToVarUint64` (two fast paths + `binary.Uvarint`) inverts `VarUint64ToBytes`
    (three unrolled fast paths + generic loop). -/
theorem varuint64_single_rt (u : Nat) (rest : List Byte) (hu : u < 2 ^ 64) :
    bytesToVarUint64 (varUint64ToBytes u ++ rest) = (u, rest) :=
  bytesToVarUint64_rt u rest hu

/-- fixed-width zig-zag `Int64ToBytes` / `BytesToInt64` of pkg/encoding. -/
theorem int64_fixed_rt (v : I64) : C12.encBytesToInt64 (C12.encInt64ToBytes v) = v :=
  C12.encBytesToInt64_encInt64ToBytes v

/-! ## 2. int64 lists: const / delta-const / delta / delta-of-delta -/

/-- For every non-empty list the encoder succeeds and `BytesToInt64List`, given the bytes, the
    encode type and the first value the encoder returned, restores the list exactly – all modes,
    the exact mode selection of the code, wrap-around differences included. -/
theorem int64List_rt (a : List I64) (hne : a ≠ []) :
    ∃ bs mt fv, int64ListToBytes a = .ok (bs, mt, fv) ∧ bytesToInt64List bs mt fv a.length = .ok a :=
  int64List_rt_exists a hne

/-- the encode type is one of the four list modes (never `Plain`/`Dictionary`, which the tag codec
    uses as discriminators in the same byte). -/
theorem int64List_mode (a : List I64) (bs : List Byte) (mt : Nat) (fv : I64)
    (h : int64ListToBytes a = .ok (bs, mt, fv)) :
    mt = mtConst ∨ mt = mtDeltaConst ∨ mt = mtDelta ∨ mt = mtDeltaOfDelta :=
  int64ListToBytes_mt a bs mt fv h

/-! ## 3. uint64 blocks, compressed blocks, byte blocks -/

/-- `decompressBlock ∘ compressBlock = id` (plain framing below 128 bytes, zstd above), for any
    lawful compression pair. -/
theorem compressBlock_rt (z : Zstd) (hz : z.Lawful) (src rest : List Byte) (hs : src.length < 2 ^ 64) :
    decompressBlock z (compressBlock z src ++ rest) = .ok (src, rest) :=
  decompressBlock_rt z hz src rest hs

/-- adaptive-width uint64 block. -/
theorem uint64Block_rt (z : Zstd) (hz : z.Lawful) (a : List Nat) (rest : List Byte)
    (hlen : 8 * a.length + 1 < 2 ^ 64) (h : ∀ x ∈ a, x < 2 ^ 64) :
    decodeUint64Block z (encodeUint64Block z a ++ rest) a.length = .ok (a, rest) :=
  decodeUint64Block_rt z hz a rest hlen h

/-- `BytesBlockDecoder.Decode ∘ EncodeBytesBlock = id`, `nil` and empty strings kept apart. -/
theorem bytesBlock_rt (z : Zstd) (hz : z.Lawful) (a : List Item)
    (hlen : 8 * a.length + 1 < 2 ^ 64) (h : ∀ it ∈ a, itemLen it < 2 ^ 64)
    (htot : (a.flatMap itemBytes).length < 2 ^ 64) :
    decodeBytesBlock z (encodeBytesBlock z a) a.length = .ok a :=
  decodeBytesBlock_rt z hz a hlen h htot

theorem bytesBlockWithTail_rt (z : Zstd) (hz : z.Lawful) (a : List Item) (rest : List Byte)
    (hlen : 8 * a.length + 1 < 2 ^ 64) (h : ∀ it ∈ a, itemLen it < 2 ^ 64)
    (htot : (a.flatMap itemBytes).length < 2 ^ 64) :
    decodeBytesBlockWithTail z (encodeBytesBlock z a ++ rest) a.length = .ok (a, rest) :=
  decodeBytesBlockWithTail_rt z hz a rest hlen h htot

theorem encodeBytes_rt (b rest : List Byte) (h : b.length < 2 ^ 64) :
    decodeBytes (encodeBytes b ++ rest) = .ok (rest, b) :=
  decodeBytes_rt b rest h

/-! ## 4. bit packing, run-length encoding, dictionary -/

theorem bitpack_rt (src : List Nat) (hlen : src.length < 2 ^ 32) (h : ∀ v ∈ src, v < 2 ^ 32) :
    decodeBitPacking (encodeBitPacking src) = .ok src :=
  decodeBitPacking_rt src hlen h

theorem rle_rt (src : List Nat) : decodeRLE (encodeRLE src) src.length = .ok src :=
  decodeRLE_rt src

/-- whenever every `Add` was accepted, `Decode ∘ Encode` returns exactly the added sequence
    (`nil` ≠ empty, any number of repetitions). -/
theorem dictionary_rt (z : Zstd) (hz : z.Lawful) (its : List Item) (d : Dict)
    (hadd : Dict.addAll Dict.empty its = some d)
    (hlen : its.length < 2 ^ 31) (hitems : ∀ it ∈ its, itemLen it < 2 ^ 64)
    (htot : (its.flatMap itemBytes).length < 2 ^ 64) :
    Dict.decode z (d.encode z) its.length = .ok its := by
  have hinv := Dict.addAll_inv Dict.empty d [] its Dict.empty_inv hadd
  simp only [List.nil_append] at hinv
  exact Dict.decode_encode z hz d its hinv hlen (fun it hit => hitems it (hinv.vsub it hit))
    (Nat.lt_of_le_of_lt (sublist_flatMap_length itemBytes hinv.vsl) htot)

/-- `Add` refuses exactly the 257th distinct value … -/
theorem dictionary_refuses_257th (d : Dict) (v : Item) (hfull : d.values.length = maxUniqueValues)
    (hnew : v ∉ d.values) : d.add v = none := by
  unfold Dict.add
  have : d.values.findIdx? (· == v) = none := by
    rw [List.findIdx?_eq_none_iff]
    intro x hx
    simp only [beq_iff_eq, Bool.not_eq_true, beq_eq_false_iff_ne, ne_eq]
    intro e; exact hnew (e ▸ hx)
  simp [this, hfull]

/-- … and accepts everything else. -/
theorem dictionary_accepts (d : Dict) (v : Item) (h : d.values.length ≠ maxUniqueValues ∨ v ∈ d.values) :
    (d.add v).isSome = true := by
  unfold Dict.add
  split
  · rfl
  · rename_i hf
    rcases h with h | h
    · simp [h]
    · rw [List.findIdx?_eq_none_iff] at hf
      have := hf v h
      simp at this

/-! ## 5. decimal-scaled floats -/

/-- With the repaired encoder (acceptance test `decoded[i] != f`), **for any** float↔decimal conversion
    pair: whatever `Float64ListToDecimalIntList` accepts, `DecimalIntListToFloat64List` restores with the
    same length and, position by position, the same bits – except that a zero may come back with the
    other sign (what it does not accept is stored by the lossless fallback, see `tagValues_rt`).
    No IEEE-754 reasoning is involved. -/
theorem float_rt (fd : FloatDec) (src : List (BitVec 64)) (ds : List I64) (e : BitVec 16)
    (h : float64ListToDecimalIntList fd src = .ok (ds, e)) :
    SameFloats (decimalIntListToFloat64List fd ds e) src :=
  float_accept_same fd src ds e h

/-- consequence: the round trip is exact modulo `-0.0 ↦ +0.0`. -/
theorem float_rt_normZero (fd : FloatDec) (src : List (BitVec 64)) (ds : List I64) (e : BitVec 16)
    (h : float64ListToDecimalIntList fd src = .ok (ds, e)) :
    (decimalIntListToFloat64List fd ds e).map normZero = src.map normZero :=
  (float_accept_same fd src ds e h).normZero_eq

/-- directed form: when the decoder does not produce `-0.0` for the accepted decimals (the Go decoder
    computes `float64(v)*10^e` / repeated division, which yields `+0.0` for `v = 0`), the round trip is
    bit exact except that `-0.0` is read back as `+0.0` (known finding F1z). -/
theorem float_rt_exact_up_to_negZero (fd : FloatDec) (src : List (BitVec 64)) (ds : List I64) (e : BitVec 16)
    (h : float64ListToDecimalIntList fd src = .ok (ds, e))
    (hn : ∀ y ∈ decimalIntListToFloat64List fd ds e, y ≠ negZero) :
    ExactUpToNegZero (decimalIntListToFloat64List fd ds e) src :=
  (float_accept_same fd src ds e h).directed hn

/-- The full-strength statement (bit-exact round trip) – **false** for the repaired encoder as well,
    because the acceptance test compares float64 values, not bit patterns (F1z). -/
def floatBitExactStatement : Prop :=
  ∀ (fd : FloatDec) (src : List (BitVec 64)) (ds : List I64) (e : BitVec 16),
    float64ListToDecimalIntList fd src = .ok (ds, e) → decimalIntListToFloat64List fd ds e = src

/-- the repair only ever turns an accepted list into a refusal; accepted results are unchanged. -/
theorem float_fixed_eq_legacy (fd : FloatDec) (src : List (BitVec 64)) (r : List I64 × BitVec 16)
    (h : float64ListToDecimalIntList fd src = .ok r) :
    float64ListToDecimalIntList_legacy fd src = .ok r := by
  unfold float64ListToDecimalIntList at h
  split at h
  · rename_i ds e hl
    split at h
    · simp only [Res.ok.injEq] at h; rw [hl, h]
    · simp at h
  · simp at h
  · simp at h

/-- the encoder never faults. -/
theorem float_encode_ne_panic (fd : FloatDec) (src : List (BitVec 64)) :
    float64ListToDecimalIntList fd src ≠ .panic := by
  have hl : float64ListToDecimalIntList_legacy fd src ≠ .panic := by
    unfold float64ListToDecimalIntList_legacy
    repeat' split
    all_goals simp
  unfold float64ListToDecimalIntList
  split
  · split <;> simp
  · simp
  · simp_all

/-- conversion parameters that agree with the Go functions on the points used:
    `floatToDecimal(±0) = (0,0)`, and the decoder's value of `(0,0)` is `+0.0`. -/
def fdZero : FloatDec where
  toDec := fun b => if b = 0#64 ∨ b = 0x8000000000000000#64 then some (0#64, 0#16) else none
  fromDec := fun _ _ => 0#64

/-- F1z: `[-0.0]` is accepted (by the pinned and by the repaired encoder) and decodes to `[+0.0]`. -/
theorem float_negZero_counterexample :
    float64ListToDecimalIntList fdZero [0x8000000000000000#64] = .ok ([0#64], 0#16) ∧
    decimalIntListToFloat64List fdZero [0#64] 0#16 = [0#64] := by
  decide

theorem floatBitExactStatement_refuted : ¬ floatBitExactStatement := by
  intro h
  have := h fdZero [0x8000000000000000#64] [0#64] 0#16 (by decide)
  revert this
  decide

/-- `123456789012345.67` ↦ `(12345678901234567, -2)`, which the Go decoder turns into the next float
    (`…de6c` instead of `…de6b`). -/
def fdUlp : FloatDec where
  toDec := fun b => if b = 0x42dc12218377de6b#64 then some (12345678901234567#64, BitVec.ofInt 16 (-2)) else none
  fromDec := fun _ _ => 0x42dc12218377de6c#64

/-- F1: the pinned encoder accepts a list that decodes one ulp off; the repaired one refuses it. -/
theorem float_legacy_counterexample :
    float64ListToDecimalIntList_legacy fdUlp [0x42dc12218377de6b#64] = .ok ([12345678901234567#64], BitVec.ofInt 16 (-2)) ∧
    decimalIntListToFloat64List fdUlp [12345678901234567#64] (BitVec.ofInt 16 (-2)) ≠ [0x42dc12218377de6b#64] ∧
    float64ListToDecimalIntList fdUlp [0x42dc12218377de6b#64] = .err := by
  decide

/-- `mulPow10Fast(v, n)` returns `v·10ⁿ` exactly (no wrap-around) or refuses. -/
theorem mulPow10_exact (v : I64) (n : BitVec 16) (r : I64) (h : mulPow10Fast v n = some r) :
    0 ≤ n.toInt ∧ r.toInt = v.toInt * 10 ^ n.toInt.toNat :=
  mulPow10Fast_exact v n r h

/-- one table step refuses only when the exact product does not fit in int64. -/
theorem mulPow10Step_refuses_only_on_overflow (v : I64) (k : Nat) (h : mulPow10Step v k = none) :
    v.toInt * 10 ^ k < minInt64 ∨ maxInt64 < v.toInt * 10 ^ k :=
  mulPow10Step_none v k h

/-- after the scaling loop every decimal carries the common exponent and its exact value. -/
theorem decimal_scaling_exact (minExp : BitVec 16) (des : List (I64 × BitVec 16)) (ds : List I64)
    (h : scaleAll minExp des = some ds) : ScaledTo minExp des ds :=
  scaleAll_exact minExp des ds h

/-! ## 6. var-arrays and tag values -/

/-- `UnmarshalVarArray ∘ MarshalVarArray = id` for every byte string (delimiters and escapes
    included), at any offset, with any continuation; `next` points behind the delimiter. -/
theorem varArray_rt (pre s rest : List Byte) :
    unmarshalVarArray (pre ++ marshalVarArray s ++ rest) pre.length =
      .ok (s, pre.length + (marshalVarArray s).length) :=
  unmarshalVarArray_rt pre s rest

theorem encodeTagValues_ne_nil (z : Zstd) (fd : FloatDec) (v : Item) (vs : List Item) (vt : VType)
    (buf : List Byte) (et : Nat) (h : encodeTagValues z fd (v :: vs) vt = .ok (buf, et)) : buf ≠ [] := by
  simp only [encodeTagValues] at h
  cases vt with
  | int64 =>
    simp only at h
    unfold encodeInt64TagValues at h
    repeat' split at h
    all_goals first | (simp [plainBlock] at h; try (intro e; simp [← h.1] at e)) | skip
    all_goals (intro e; subst e; simp_all)
  | float64 =>
    simp only at h
    unfold encodeFloat64TagValues at h
    repeat' split at h
    all_goals first | (simp [plainBlock] at h; try (intro e; simp [← h.1] at e)) | skip
    all_goals (intro e; subst e; simp_all)
  | other =>
    simp only [Res.ok.injEq] at h
    unfold encodeDefaultTagValues at h
    split at h <;> (simp only [plainBlock, Prod.mk.injEq] at h; intro e; simp [← h.1] at e)

/-- `DecodeTagValues ∘ EncodeTagValues = id` for int64 and all non-numeric value types, including
    every fallback: nil / "null" values, more than 256 distinct values. -/
theorem tagValues_rt (z : Zstd) (hz : z.Lawful) (fd : FloatDec) (values : List Item) (vt : VType)
    (hvt : vt ≠ .float64) (hne : values ≠ []) (hok : TagOK values) (buf : List Byte) (et : Nat)
    (h : encodeTagValues z fd values vt = .ok (buf, et)) :
    decodeTagValues z fd buf vt values.length = .ok values := by
  cases values with
  | nil => exact absurd rfl hne
  | cons v vs =>
    have hbuf := encodeTagValues_ne_nil z fd v vs vt buf et h
    simp only [encodeTagValues] at h
    cases hb : buf with
    | nil => exact absurd hb hbuf
    | cons b0 brest =>
      simp only [decodeTagValues]
      rw [← hb]
      cases vt with
      | int64 => exact tag_int64_rt z hz (v :: vs) hok buf et h
      | float64 => exact absurd rfl hvt
      | other =>
        simp only [Res.ok.injEq] at h
        have := tag_default_rt z hz (v :: vs) hok
        rw [h] at this
        exact this

/-- float64 tag values (decimal codec, or the plain block when it refuses – repair F1 – or when a
    nil / "null" value is present): every value is read back identically, except that a zero may
    come back with the other sign (F1z). -/
theorem tagValues_float_rt (z : Zstd) (hz : z.Lawful) (fd : FloatDec) (values : List Item)
    (hne : values ≠ []) (hok : TagOK values) (buf : List Byte) (et : Nat)
    (h : encodeTagValues z fd values .float64 = .ok (buf, et)) :
    ∃ ys, decodeTagValues z fd buf .float64 values.length = .ok ys ∧ ZeroSignEq ys values := by
  cases values with
  | nil => exact absurd rfl hne
  | cons v vs =>
    have hbuf := encodeTagValues_ne_nil z fd v vs .float64 buf et h
    simp only [encodeTagValues] at h
    cases hb : buf with
    | nil => exact absurd hb hbuf
    | cons b0 brest =>
      simp only [decodeTagValues]
      rw [← hb]
      exact tag_float64_rt z hz fd (v :: vs) hok buf et h

/-- The engines' own tag value marshalling (`encodeTagValue` + `marshal` on the write path,
    `mustDecodeTagValue` on the query path; measure and stream with their private `marshalVarArray` /
    `unmarshalVarArray` copies, `own = true`, trace via pkg/encoding, `own = false`): every string,
    binary, int, non-empty string array (any bytes incl. `|`, `\`, empty and trailing-escape elements),
    non-empty int array and post-epoch timestamp is read back exactly. -/
theorem engineTag_rt (own : Bool) (tv : TagVal) (vt : TVType) (hvt : tv.type? = some vt) (hwf : tv.WF) :
    engineDecode own vt (engineMarshal tv) = .ok tv :=
  engineTag_rt_aux own tv vt hvt hwf

/-- a null value is stored as nil and read back as null, whatever the tag type. -/
theorem engineTag_null_rt (own : Bool) (vt : TVType) : engineDecode own vt (engineMarshal .null) = .ok .null := rfl

/-! ## 7. decoders are total and bounded -/

/-- no varint decoder faults, on any bytes; exactly the requested number of values comes back. -/
theorem decoder_total_varint (n : Nat) (src : List Byte) :
    bytesToVarInt64List n src ≠ .panic ∧ bytesToVarUint64s n src ≠ .panic ∧
    (∀ vs t, bytesToVarInt64List n src = .ok (vs, t) → vs.length = n) ∧
    (∀ vs t, bytesToVarUint64s n src = .ok (vs, t) → vs.length = n) :=
  ⟨bytesToVarInt64List_ne_panic n src, bytesToVarUint64s_ne_panic n src,
   fun vs t h => bytesToVarInt64List_length n src vs t h, fun vs t h => bytesToVarUint64s_length n src vs t h⟩

/-- `BytesToInt64List` on arbitrary bytes, arbitrary encode type and first value: error or exactly
    `itemsCount` values, never a fault – provided `itemsCount` is in the domain of the mode (the
    code panics deliberately with "BUG: itemsCount must be greater than …" otherwise). -/
theorem decoder_total_int64List (src : List Byte) (mt : Nat) (first : I64) (n : Nat)
    (h3 : mt = mtDelta → 1 ≤ n) (h4 : mt = mtDeltaOfDelta → 2 ≤ n) :
    bytesToInt64List src mt first n ≠ .panic ∧
    ∀ xs, bytesToInt64List src mt first n = .ok xs → xs.length = n :=
  ⟨bytesToInt64List_ne_panic src mt first n h3 h4, fun xs h => bytesToInt64List_length src mt first n xs h⟩

/-- block decoders: arbitrary bytes, arbitrary `itemsCount`, arbitrary behaviour of the
    decompressor; at most `itemsCount` items are produced. -/
theorem decoder_total_blocks (z : Zstd) (src : List Byte) (n : Nat) :
    decompressBlock z src ≠ .panic ∧ decodeUint64Block z src n ≠ .panic ∧
    decodeBytesBlock z src n ≠ .panic ∧ decodeBytesBlockWithTail z src n ≠ .panic ∧
    decodeBytes src ≠ .panic ∧
    (∀ vs t, decodeUint64Block z src n = .ok (vs, t) → vs.length ≤ n) ∧
    (∀ its, decodeBytesBlock z src n = .ok its → its.length ≤ n) ∧
    (∀ its t, decodeBytesBlockWithTail z src n = .ok (its, t) → its.length ≤ n) :=
  ⟨decompressBlock_ne_panic z src, decodeUint64Block_ne_panic z src n, decodeBytesBlock_ne_panic z src n,
   decodeBytesBlockWithTail_ne_panic z src n, decodeBytes_ne_panic src,
   fun vs t h => decodeUint64Block_length z src n vs t h, fun its h => decodeBytesBlock_length z src n its h,
   fun its t h => decodeBytesBlockWithTail_length z src n its t h⟩

/-- repaired dictionary decoder (F3): never faults; returns exactly `itemsCount` items (or none,
    for an empty dictionary); the bit-packed index list is bounded by the input size and the
    run-length expansion by `itemsCount`. -/
theorem decoder_total_dictionary (z : Zstd) (src : List Byte) (n : Nat) :
    Dict.decode z src n ≠ .panic ∧ decodeDictionaryValues z src ≠ .panic ∧
    decodeBitPacking src ≠ .panic ∧
    (∀ its, Dict.decode z src n = .ok its → its.length = n ∨ its = []) ∧
    (∀ vs, decodeBitPacking src = .ok vs → vs.length ≤ 8 * src.length) ∧
    (∀ rl idx, decodeRLE rl n = .ok idx → idx.length = n ∨ idx = []) ∧
    (∀ rl, decodeRLE rl n ≠ .panic) :=
  ⟨Dict.decode_ne_panic z src n, decodeDictionaryValues_ne_panic z src, decodeBitPacking_ne_panic src,
   fun its h => Dict.decode_length z src n its h, fun vs h => decodeBitPacking_length src vs h,
   fun rl idx h => decodeRLE_length rl n idx h, fun rl => decodeRLE_ne_panic rl n⟩

theorem decoder_total_varArray (src : List Byte) (idx : Nat) : unmarshalVarArray src idx ≠ .panic :=
  unmarshalVarArray_ne_panic src idx

/-- The pinned `Dictionary.Decode` (finding F3) faults on a 20-byte input obtained from a valid
    encoding (`a b a a nil ""`, 6 items) by decrementing the RLE length field (odd length). -/
theorem dictionary_legacy_panics_odd_rle (z : Zstd) :
    Dict.decode_legacy z [4, 0, 5, 0, 2, 2, 0, 1, 0, 2, 97, 98, 0, 0, 0, 9, 2, 21, 41, 208] 6 = .panic ∧
    Dict.decode z [4, 0, 5, 0, 2, 2, 0, 1, 0, 2, 97, 98, 0, 0, 0, 9, 2, 21, 41, 208] 6 = .err := by
  constructor <;> rfl

/-- … and on an index that is not in the dictionary (3 values, index 3). -/
theorem dictionary_legacy_panics_index (z : Zstd) :
    Dict.decode_legacy z [3, 0, 4, 0, 2, 2, 2, 0, 3, 97, 98, 99, 0, 0, 0, 2, 2, 208] 1 = .panic ∧
    Dict.decode z [3, 0, 4, 0, 2, 2, 2, 0, 3, 97, 98, 99, 0, 0, 0, 2, 2, 208] 1 = .err := by
  constructor <;> rfl

/-- The pinned bit-packing decoder is not bounded by its input: bit width 0 consumes nothing, so
    five bytes announce – and yield – as many values as the 32-bit length field says (here 1000;
    up to 2^32-1). The repaired decoder rejects the stream. -/
theorem bitPacking_legacy_unbounded :
    (∃ vs, decodeBitPacking_legacy [0, 0, 3, 232, 0] = .ok vs ∧ vs.length = 1000) ∧
    decodeBitPacking [0, 0, 3, 232, 0] = .err := by
  constructor
  · exact ⟨List.replicate 1000 0, by decide +kernel, List.length_replicate⟩
  · rfl

/-- The pinned RLE decoder has no relation between input size and output size: two numbers
    expand to as many items as the second one says; the repaired one checks against `itemsCount`. -/
theorem rle_legacy_unbounded (c : Nat) :
    decodeRLE_legacy [7, c] = .ok (List.replicate c 7) ∧ decodeRLE_legacy [7] = .panic ∧
    (c ≠ 3 → decodeRLE [7, c] 3 = .err) := by
  refine ⟨by simp [decodeRLE_legacy], rfl, ?_⟩
  intro h
  simp [decodeRLE, rleTotal, h]

/-- `validateRLE` must add the run lengths without wrap-around (the model sums in `Nat`, the code in
    `uint64`): with a 32-bit running total the stream `(0, 2^32-1), (0, 5)` would pass for
    `itemsCount = 4` although it expands to 2^32 + 4 items; the model rejects it. -/
def rleTotal32 (src : List Nat) : Option Nat := (rleTotal src).map (· % 2 ^ 32)

theorem rle_sum32_counterexample :
    rleTotal32 [0, 4294967295, 0, 5] = some 4 ∧ rleTotal [0, 4294967295, 0, 5] = some 4294967300 ∧
    decodeRLE [0, 4294967295, 0, 5] 4 = .err := by
  decide

/-! ### non-vacuity: concrete instances of the hypotheses -/

/-- the identity pair is a lawful "compression". -/
def idZ : Zstd := ⟨id, some⟩

theorem idZ_lawful : idZ.Lawful := ⟨fun _ => rfl, fun _ h => h⟩

example : TagOK [some [1, 2, 3, 4, 5, 6, 7, 8], none, some []] :=
  ⟨by
    intro s hs b hb
    simp at hs
    rcases hs with rfl | rfl
    · have : ∀ x ∈ [1, 2, 3, 4, 5, 6, 7, 8], x < 256 := by decide
      exact this b hb
    · simp at hb,
   by decide, by decide, by decide⟩

example : ∃ d, Dict.addAll Dict.empty [some [97], none, some [97], some []] = some d := ⟨_, rfl⟩

example : int64ListToBytes [1#64, 2#64, 4#64, 8#64] = .ok ([2, 2, 4], mtDeltaOfDelta, 1#64) := by decide

example : (encodeTagValues idZ fdZero [some [128, 0, 0, 0, 0, 0, 0, 5], some [128, 0, 0, 0, 0, 0, 0, 7]] .int64).isPanic
    = false := by decide

example : (TagVal.strArr [[67, 58, 92, 116], [100, 105, 114, 92], [], [124]]).WF := by simp [TagVal.WF]

example : engineMarshal (.strArr [[100, 105, 114, 92], [110]]) = some [100, 105, 114, 92, 92, 124, 110, 124] := by decide

example : mulPow10Fast 922337203685477580#64 1#16 = some 9223372036854775800#64 ∧
    mulPow10Fast 922337203685477581#64 1#16 = none := by decide

end Banyan.C11
