/-
C12 — Sort-key encodings preserve order; series identity is unambiguous.
Property theorems only; helper lemmas live in Banyan/Lemmas.
-/
import Banyan.Model.C12
import Banyan.Lemmas.Bytes
import Banyan.Lemmas.Bits
import Banyan.Lemmas.Entity

namespace Banyan.C12

/-! ## 1. signed integers -/

/-- `bytes.Compare(Int64ToBytes a, Int64ToBytes b) < 0 ↔ a < b` (signed), for all int64. -/
theorem int64_ordered (a b : BitVec 64) :
    lexLt (int64ToBytes a) (int64ToBytes b) = a.slt b := by
  unfold int64ToBytes
  rw [lexLt_beBytes 8 _ _ (int64ToU a).isLt (int64ToU b).isLt, ← Bits.int64ToU_ult]
  rfl

/-- `BytesToInt64 (Int64ToBytes a) = a` for all int64 (including `MinInt64`). -/
theorem int64_roundtrip (a : BitVec 64) : bytesToInt64 (int64ToBytes a) = a := by
  unfold bytesToInt64 int64ToBytes
  rw [List.take_of_length_le (by rw [beBytes_length]; exact Nat.le_refl 8),
    ofBE_beBytes_of_lt 8 _ (int64ToU a).isLt]
  simp [Bits.uToInt64_int64ToU]

theorem int32_ordered (a b : BitVec 32) :
    lexLt (int32ToBytes a) (int32ToBytes b) = a.slt b := by
  unfold int32ToBytes
  rw [lexLt_beBytes 4 _ _ (int32ToU a).isLt (int32ToU b).isLt, ← Bits.int32ToU_ult]
  rfl

theorem int32_roundtrip (a : BitVec 32) :
    uToInt32 (BitVec.ofNat 32 (ofBE (int32ToBytes a))) = a := by
  unfold int32ToBytes
  rw [ofBE_beBytes_of_lt 4 _ (int32ToU a).isLt]
  simp [Bits.uToInt32_int32ToU]

theorem int16_roundtrip (a : BitVec 16) : bytesToInt16 (int16ToBytes a) = a := by
  unfold bytesToInt16 int16ToBytes
  rw [List.take_of_length_le (by rw [beBytes_length]; exact Nat.le_refl 2),
    ofBE_beBytes_of_lt 2 _ a.isLt]
  simp

/-- distinct values have distinct encodings (consequence of the round trip). -/
theorem int64ToBytes_injective (a b : BitVec 64) (h : int64ToBytes a = int64ToBytes b) : a = b := by
  rw [← int64_roundtrip a, ← int64_roundtrip b, h]

/-- Composite / distributed sort keys: every site that sorts int64 keys by bytes (trace cross-group
    merge `newComparableTraceResult`, vectorized trace `NewMergeItem`, tag sort keys through
    `MarshalTagValue`) uses `Int64ToBytes`, hence orders like the keys. For timestamp tags the key is the
    instant in nanoseconds, so inside the int64 range byte order = time order. -/
theorem timestampSortKey_ordered (s₁ n₁ s₂ n₂ : Int)
    (h₁ : -(2 ^ 63) ≤ s₁ * 1000000000 + n₁ ∧ s₁ * 1000000000 + n₁ < 2 ^ 63)
    (h₂ : -(2 ^ 63) ≤ s₂ * 1000000000 + n₂ ∧ s₂ * 1000000000 + n₂ < 2 ^ 63) :
    lexLt (timestampSortKey s₁ n₁) (timestampSortKey s₂ n₂) =
      decide (s₁ * 1000000000 + n₁ < s₂ * 1000000000 + n₂) := by
  unfold timestampSortKey
  rw [int64_ordered, BitVec.slt_eq_decide]
  have e₁ : (BitVec.ofInt 64 (s₁ * 1000000000 + n₁)).toInt = s₁ * 1000000000 + n₁ :=
    BitVec.toInt_ofInt_eq_self (by decide) (by simpa using h₁.1) (by simpa using h₁.2)
  have e₂ : (BitVec.ofInt 64 (s₂ * 1000000000 + n₂)).toInt = s₂ * 1000000000 + n₂ :=
    BitVec.toInt_ofInt_eq_self (by decide) (by simpa using h₂.1) (by simpa using h₂.2)
  rw [e₁, e₂]

/-! ## 2. floats (repaired `Float64ToOrderedBytes`: sign-bit test) -/

/-- every bit pattern, NaNs and `-0.0` included, decodes back to itself. -/
theorem float64_roundtrip (b : BitVec 64) :
    orderedUToFloat (BitVec.ofNat 64 (ofBE (floatToOrderedBytes b))) = b := by
  unfold floatToOrderedBytes
  rw [ofBE_beBytes_of_lt 8 _ (floatToOrderedU b).isLt]
  simp [Bits.orderedUToFloat_floatToOrderedU]

/-- byte order of the encodings = IEEE order of the values (with `-0.0` directly below `+0.0`). -/
theorem float64_ordered (a b : BitVec 64) :
    lexLt (floatToOrderedBytes a) (floatToOrderedBytes b) =
      (fLt a b || (a == 0x8000000000000000#64 && b == 0#64)) := by
  unfold floatToOrderedBytes
  rw [lexLt_beBytes 8 _ _ (floatToOrderedU a).isLt (floatToOrderedU b).isLt, ← Bits.floatToOrderedU_ult]
  rfl

/-- numeric `<` implies byte `<`. -/
theorem float64_lt_imp (a b : BitVec 64) (h : fLt a b = true) :
    lexLt (floatToOrderedBytes a) (floatToOrderedBytes b) = true := by
  rw [float64_ordered, h]; rfl

/-- The function as written at the pinned commit (`if f >= 0`) violates both claims at `-0.0`
    (finding F2): it encodes to all-zero bytes, i.e. below `-Inf`, and decodes to a NaN. -/
theorem float64_legacy_counterexample :
    floatToOrderedU_legacy 0x8000000000000000#64 = 0#64 ∧
    orderedUToFloat (floatToOrderedU_legacy 0x8000000000000000#64) ≠ 0x8000000000000000#64 ∧
    (floatToOrderedU_legacy 0x8000000000000000#64).ult (floatToOrderedU_legacy 0xFFF0000000000000#64) = true := by
  decide

/-- … and a positive NaN does not round-trip through it either. -/
theorem float64_legacy_nan_counterexample :
    orderedUToFloat (floatToOrderedU_legacy 0x7FF8000000000001#64) ≠ 0x7FF8000000000001#64 := by
  decide

/-- Outside the two classes the legacy function coincides with the repaired one. -/
theorem float64_legacy_partial (b : BitVec 64) (h0 : b ≠ 0x8000000000000000#64)
    (hn : isNaN b = false) : floatToOrderedU_legacy b = floatToOrderedU b := by
  unfold floatToOrderedU_legacy floatToOrderedU geZero
  have : (b == 0x8000000000000000#64) = false := by simp [h0]
  simp [hn, this]

/-! ## 3. series keys -/

/-- Escaping round-trips for every byte string, with any continuation. -/
theorem entity_value_roundtrip (s rest : List Byte) :
    unmarshalEntityValue (marshalEntityValue s ++ rest) = some (s, rest) :=
  unmarshal_marshalEntityValue s rest

theorem unmarshalTagValue_marshal (t : TagValue) (rest : List Byte) :
    unmarshalTagValue (marshalTagValue t ++ rest) = some (t.normalise, rest) := by
  cases t with
  | null => simp [marshalTagValue, marshalEntityValue, escapeBody, unmarshalTagValue, TagValue.normalise]
  | str s =>
    simp only [marshalTagValue, List.cons_append, List.nil_append, unmarshalTagValue]
    rw [unmarshal_marshalEntityValue]
    cases s <;> simp [TagValue.normalise]
  | int v =>
    simp only [marshalTagValue, List.cons_append, List.nil_append, unmarshalTagValue]
    rw [unmarshal_marshalEntityValue]
    simp [encInt64ToBytes_length, encBytesToInt64_encInt64ToBytes, TagValue.normalise]
  | bin s =>
    simp only [marshalTagValue, List.cons_append, List.nil_append, unmarshalTagValue]
    rw [unmarshal_marshalEntityValue]
    cases s <;> simp [TagValue.normalise]

theorem marshalTagValue_ne_nil (t : TagValue) (rest : List Byte) : marshalTagValue t ++ rest ≠ [] := by
  cases t <;> simp [marshalTagValue]

theorem unmarshalTagValues_marshal (vs : List TagValue) (fuel : Nat) (h : vs.length < fuel) :
    unmarshalTagValues fuel (marshalTagValues vs) = some (vs.map TagValue.normalise) := by
  induction vs generalizing fuel with
  | nil =>
    cases fuel with
    | zero => omega
    | succ f => simp [marshalTagValues, unmarshalTagValues]
  | cons t ts ih =>
    cases fuel with
    | zero => omega
    | succ f =>
      simp only [marshalTagValues, unmarshalTagValues]
      have hne := marshalTagValue_ne_nil t (marshalTagValues ts)
      cases hm : marshalTagValue t ++ marshalTagValues ts with
      | nil => exact absurd hm hne
      | cons x xs =>
        rw [← hm, unmarshalTagValue_marshal]
        have := ih f (by simp at h; omega)
        simp [this]

theorem marshalTagValues_length (vs : List TagValue) : vs.length ≤ (marshalTagValues vs).length := by
  induction vs with
  | nil => simp [marshalTagValues]
  | cons t ts ih =>
    simp only [marshalTagValues, List.length_append, List.length_cons]
    have : 1 ≤ (marshalTagValue t).length := by cases t <;> simp [marshalTagValue]
    omega

/-- `Unmarshal (Marshal s) = s` up to the documented normalisation (empty string / binary
    values read back as null), for every subject and every tuple of entity values. -/
theorem series_roundtrip (s : Series) : Series.unmarshal s.marshal = some s.normalise := by
  unfold Series.unmarshal Series.marshal
  rw [unmarshal_marshalEntityValue]
  simp only [Option.bind_eq_bind, Option.bind_some, Option.pure_def]
  rw [unmarshalTagValues_marshal _ _ (by have := marshalTagValues_length s.values; omega)]
  rfl

/-! ### injectivity: a non-normalising parser inverts `marshal` exactly -/

def parseTagValue (src : List Byte) : Option (TagValue × List Byte) :=
  match src with
  | 0 :: _ :: rest' => some (.null, rest')
  | 1 :: rest => (unmarshalEntityValue rest).map fun (v, r) => (.str v, r)
  | 2 :: rest => (unmarshalEntityValue rest).map fun (v, r) => (.int (encBytesToInt64 v), r)
  | 4 :: rest => (unmarshalEntityValue rest).map fun (v, r) => (.bin v, r)
  | _ => none

def parseTagValues : Nat → List Byte → Option (List TagValue)
  | 0, _ => none
  | fuel + 1, src =>
    match src with
    | [] => some []
    | _ => do
      let (t, r) ← parseTagValue src
      let ts ← parseTagValues fuel r
      pure (t :: ts)

def parseSeries (src : List Byte) : Option Series := do
  let (subj, rest) ← unmarshalEntityValue src
  let vs ← parseTagValues (rest.length + 1) rest
  pure { subject := subj, values := vs }

theorem parseTagValue_marshal (t : TagValue) (rest : List Byte) :
    parseTagValue (marshalTagValue t ++ rest) = some (t, rest) := by
  cases t with
  | null => simp [marshalTagValue, marshalEntityValue, escapeBody, parseTagValue]
  | str s =>
    simp only [marshalTagValue, List.cons_append, List.nil_append, parseTagValue]
    rw [unmarshal_marshalEntityValue]; rfl
  | int v =>
    simp only [marshalTagValue, List.cons_append, List.nil_append, parseTagValue]
    rw [unmarshal_marshalEntityValue]
    simp [encBytesToInt64_encInt64ToBytes]
  | bin s =>
    simp only [marshalTagValue, List.cons_append, List.nil_append, parseTagValue]
    rw [unmarshal_marshalEntityValue]; rfl

theorem parseTagValues_marshal (vs : List TagValue) (fuel : Nat) (h : vs.length < fuel) :
    parseTagValues fuel (marshalTagValues vs) = some vs := by
  induction vs generalizing fuel with
  | nil =>
    cases fuel with
    | zero => omega
    | succ f => simp [marshalTagValues, parseTagValues]
  | cons t ts ih =>
    cases fuel with
    | zero => omega
    | succ f =>
      simp only [marshalTagValues, parseTagValues]
      have hne := marshalTagValue_ne_nil t (marshalTagValues ts)
      cases hm : marshalTagValue t ++ marshalTagValues ts with
      | nil => exact absurd hm hne
      | cons x xs =>
        rw [← hm, parseTagValue_marshal]
        have := ih f (by simp at h; omega)
        simp [this]

theorem parseSeries_marshal (s : Series) : parseSeries s.marshal = some s := by
  unfold parseSeries Series.marshal
  rw [unmarshal_marshalEntityValue]
  simp only [Option.bind_eq_bind, Option.bind_some, Option.pure_def]
  rw [parseTagValues_marshal _ _ (by have := marshalTagValues_length s.values; omega)]
  rfl

/-- Two different (subject, entity values) never share a series key: `Marshal` is injective for
    all values, including ones containing `|` and `\`, empty values and null. -/
theorem series_marshal_injective (s₁ s₂ : Series) (h : s₁.marshal = s₂.marshal) : s₁ = s₂ := by
  have h1 := parseSeries_marshal s₁
  rw [h, parseSeries_marshal s₂] at h1
  exact (Option.some.inj h1).symm

/-- The series id is a function of the marshalled buffer only (hash is a parameter). -/
theorem seriesID_deterministic (hash : List Byte → Nat) (s₁ s₂ : Series) (h : s₁ = s₂) :
    hash s₁.marshal = hash s₂.marshal := by rw [h]

/-! ### non-vacuity: concrete, non-trivial instances -/

example : lexLt (int64ToBytes (BitVec.ofInt 64 (-1))) (int64ToBytes 0#64) = true := by decide
example : ({ subject := [97, 124], values := [.str [98]] } : Series).marshal ≠
          ({ subject := [97], values := [.str [124, 98]] } : Series).marshal := by decide
example : Series.unmarshal ({ subject := [97, 92], values := [.str [], .null, .int 5#64] } : Series).marshal
          = some { subject := [97, 92], values := [.null, .null, .int 5#64] } := by
  rw [series_roundtrip]; rfl

end Banyan.C12
