/-
C13 — A trace is stored, returned and sampled as a whole.
Property theorems only; helper lemmas live in Banyan/Lemmas/C13*.lean.

Reading guide (model = Banyan/Model/C13.lean, tied to the Go code by the c13 drivers):
  1. `trace_query_complete`            query by trace id = every stored span of the trace
  2. `merge_no_sampler_lossless`       no sampler ⇒ spans and secondary-index rows preserved
  3. `resolve_drop_sound` …            what `Resolve = Drop` guarantees, and what it means for data
  4. `sampler_fail_open` …             error / panic / mismatch / timeout ⇒ retained
  5. `merge_selected_all_or_nothing`,
     `merge_all_or_nothing`            the property itself
  6. `late_part_keeps`                 a part appearing while the merge runs
-/
import Banyan.Lemmas.C13Chain
import Banyan.Lemmas.C13Clean
import Banyan.Lemmas.C13Inv

namespace Banyan.C13

/-! ## 1. query by trace id -/

/-- A query by trace id (part pruning by time range and by the trace-id filter, then a block scan)
    returns, for every span of that trace whose timestamp lies in the queried range, exactly as
    many copies as are stored - whatever the layout of parts - provided part bounds cover their
    spans and the filter has no false negatives. -/
theorem trace_query_complete (mc : FilterOracle) (hnf : NoFalseNegatives mc) (parts : List Part)
    (hbs : BoundsSound parts) (qmin qmax : Int) (tid : String) (s : Span) (hs : s.tid = tid)
    (hr : qmin ≤ s.ts ∧ s.ts ≤ qmax) :
    (queryById mc parts qmin qmax tid).count s = (partsSpansOf parts tid).count s := by
  unfold queryById partsSpansOf
  induction parts with
  | nil => rfl
  | cons p ps ih =>
    have hbs' : BoundsSound ps := fun q hq => hbs q (List.mem_cons_of_mem _ hq)
    simp only [List.filter_cons, List.flatMap_cons, List.count_append]
    by_cases hin : s ∈ p.spans
    · have hb := hbs p (List.mem_cons_self ..) s hin
      have hmc : mc p tid = true := hs ▸ hnf p s hin
      have hkeep : (!(decide (qmax < p.min) || decide (qmin > p.max)) && mc p tid) = true := by
        simp only [hmc, Bool.and_true, Bool.not_eq_eq_eq_not, Bool.not_true, Bool.or_eq_false_iff,
          decide_eq_false_iff_not]
        omega
      simp only [hkeep, if_true, List.flatMap_cons, List.count_append]
      rw [ih hbs']
    · have hz : (spansOfTid p.spans tid).count s = 0 :=
        List.count_eq_zero.mpr fun h => hin (List.mem_filter.mp h).1
      split
      · simp only [List.flatMap_cons, List.count_append]; rw [ih hbs']
      · rw [ih hbs', hz]; omega

/-- … and nothing else: every returned span is a stored span of that trace. -/
theorem trace_query_exact (mc : FilterOracle) (parts : List Part) (qmin qmax : Int) (tid : String) (s : Span)
    (h : s ∈ queryById mc parts qmin qmax tid) : s.tid = tid ∧ ∃ p ∈ parts, s ∈ p.spans := by
  unfold queryById at h
  obtain ⟨p, hp, hsp⟩ := List.mem_flatMap.mp h
  obtain ⟨hs1, hs2⟩ := List.mem_filter.mp hsp
  exact ⟨by simpa using hs2, p, (List.mem_filter.mp hp).1, hs1⟩

/-- the exact filter the driver runs the model with has no false negatives (non-vacuity of the
    hypothesis; for the real Bloom filter this is property C08). -/
theorem exactFilter_noFalseNegatives : NoFalseNegatives exactFilter := by
  intro p s hs
  simp only [exactFilter, Part.mightContain, List.any_eq_true]
  exact ⟨s, hs, by simp⟩

/-- over the full time range the query is literally the list of stored spans of the trace. -/
theorem trace_query_full_range (parts : List Part) (hbs : BoundsSound parts) (tid : String)
    (h64 : ∀ p ∈ parts, minI64 ≤ p.max ∧ p.min ≤ maxI64) :
    queryById exactFilter parts minI64 maxI64 tid = partsSpansOf parts tid := by
  unfold queryById partsSpansOf
  induction parts with
  | nil => rfl
  | cons p ps ih =>
    have hbs' : BoundsSound ps := fun q hq => hbs q (List.mem_cons_of_mem _ hq)
    have ih' := ih hbs' (fun q hq => h64 q (List.mem_cons_of_mem _ hq))
    simp only [List.filter_cons, List.flatMap_cons]
    split
    · simp only [List.flatMap_cons]; rw [ih']
    · rename_i hno
      rw [ih']
      have hb := h64 p (List.mem_cons_self ..)
      have hmc : exactFilter p tid = false := by
        cases hm : exactFilter p tid
        · rfl
        · exfalso; apply hno
          simp only [hm, Bool.and_true, Bool.not_eq_eq_eq_not, Bool.not_true, Bool.or_eq_false_iff,
            decide_eq_false_iff_not]
          omega
      have : spansOfTid p.spans tid = [] := by
        unfold spansOfTid
        rw [List.filter_eq_nil_iff]
        intro s hs hst
        simp only [exactFilter, Part.mightContain] at hmc
        have : p.spans.any (·.tid == tid) = true := List.any_eq_true.mpr ⟨s, hs, hst⟩
        rw [this] at hmc; cases hmc
      rw [this]; rfl

/-! ## 1b. reading one part by trace id -/

/-- **`searchPBM` returns the first primary block that can contain the trace.** For a sorted index
    of first trace ids and a wanted id not below the first one: reading starts at a block `r` whose
    first id is `≤ tid`; every earlier block ends strictly before `tid` (its successor's first id is
    `< tid`), so nothing of the trace is skipped - in particular when `tid` equals the first id of a
    block `j > 0` reading starts at `j - 1`, where the trace may have begun; and block `r` itself can
    contain the trace (`tid ≤` the next block's first id). -/
theorem getD_eq_getElem' (l : List Nat) (i : Nat) (h : i < l.length) : l.getD i 0 = l[i] := by
  simp [List.getD, List.getElem?_eq_getElem h]

theorem searchPBM_spec (ids : List Nat) (tid : Nat) (hs : ids.Pairwise (· ≤ ·))
    (hne : ids ≠ []) (hle : ids.getD 0 0 ≤ tid) :
    ∃ r, searchPBM ids tid = some r ∧ r < ids.length ∧ ids.getD r 0 ≤ tid ∧
      (∀ k, k < r → ids.getD (k + 1) 0 < tid) ∧ (r + 1 < ids.length → tid ≤ ids.getD (r + 1) 0) := by
  cases ids with
  | nil => exact absurd rfl hne
  | cons first rest =>
    simp only [List.getD_cons_zero] at hle
    unfold searchPBM
    simp only
    have hlt : ¬ tid < first := by omega
    rw [if_neg hlt]
    by_cases heq : tid = first
    · rw [if_pos heq]
      refine ⟨0, rfl, by simp, by simp [heq], fun k hk => by omega, fun h1 => ?_⟩
      have := (List.pairwise_cons.mp hs).1
      cases rest with
      | nil => simp at h1
      | cons x xs => simp only [List.getD_cons_succ, List.getD_cons_zero]; have := this x (by simp); omega
    · rw [if_neg heq]
      have hpos : 0 < sortSearch (first :: rest) (fun x => decide (tid ≤ x)) := by
        unfold sortSearch
        rw [List.findIdx_cons]
        have : decide (tid ≤ first) = false := by simp; omega
        simp [this]
      generalize hn : sortSearch (first :: rest) (fun x => decide (tid ≤ x)) = n at hpos
      have hnle : n ≤ (first :: rest).length := by rw [← hn]; exact List.findIdx_le_length
      have hbefore : ∀ j, j < n → (first :: rest).getD j 0 < tid := by
        intro j hj
        have hjl : j < (first :: rest).length := by omega
        have := List.not_of_lt_findIdx (p := fun x => decide (tid ≤ x)) (xs := first :: rest) (i := j) (by unfold sortSearch at hn; omega)
        rw [getD_eq_getElem' _ _ hjl]
        simpa using this
      have hn0 : n ≠ 0 := by omega
      rw [if_neg hn0]
      refine ⟨n - 1, rfl, by omega, Nat.le_of_lt (hbefore (n - 1) (by omega)), fun k hk => hbefore (k + 1) (by omega), ?_⟩
      intro h1
      have hnl : n < (first :: rest).length := by omega
      have := List.findIdx_getElem (p := fun x => decide (tid ≤ x)) (xs := first :: rest) (w := by unfold sortSearch at hn; omega)
      have hidx : n - 1 + 1 = n := by omega
      rw [hidx, getD_eq_getElem' _ _ hnl]
      unfold sortSearch at hn
      simp only [hn] at this
      simpa using this

/-- with duplicates across consecutive primary blocks: id 5 opens block 1 and block 2, the trace may
    have begun in block 0. -/
example : searchPBM [1, 5, 5, 9] 5 = some 0 ∧ searchPBM [1, 5, 5, 9] 6 = some 2 ∧ searchPBM [1, 5, 5, 9] 12 = some 3 := by
  decide

/-! ## 2. merge without a sampler -/

/-- **No sampler ⇒ lossless.** Whatever the part layout and the merge selection, a merge with no
    sampler registered keeps, for every trace id, exactly the stored spans and exactly the
    secondary-index rows (as multisets), plus those of a part written meanwhile. -/
theorem merge_no_sampler_lossless (mc : FilterOracle) (t : Table) (hwf : t.WF) (s : Sel) (req : MergeReq)
    (hmode : req.mode = 'N') :
    ∃ L, LateOK req.late L ∧ ∀ tid,
      ((mergeOp mc t s req).table.spansOf tid).Perm (t.spansOf tid ++ L.filter (·.tid == tid)) ∧
      ((mergeOp mc t s req).table.entriesOf tid).Perm
        (t.entriesOf tid ++ (L.map entryOf).filter (·.tid == tid)) := by
  have key : ∃ (sel : List Part) (L : List Span), LateOK req.late L ∧
      Accounted (shape t.parts) t.sidx (List.map (·.id) sel) (mergeOp mc t s req).table L [] := by
    unfold mergeOp
    have hz : (req.mode == 'Z') = false := by rw [hmode]; decide
    simp only [hz, Bool.false_eq_true, if_false]
    split
    · exact ⟨[], [], Or.inl rfl, Accounted.noop t⟩
    · obtain ⟨hb, hsel⟩ := sel_facts t hwf
        (fun p => (selectParts t s).any fun q => q.ident == p.ident)
      unfold hotMerge
      have hn : (req.mode == 'N') = true := by rw [hmode]; decide
      simp only [hn, if_true]
      obtain ⟨L, hl, hacc⟩ := unfilteredMerge_accounted t _ req _ hb hsel hwf.epoch
      exact ⟨_, L, hl, hacc⟩
  obtain ⟨sel, L, hl, hacc⟩ := key
  refine ⟨L, hl, fun tid => ?_⟩
  rw [spansOf_eq, spansOf_eq, entriesOf_eq, entriesOf_eq]
  exact ⟨hacc.spans_kept tid (by simp), hacc.sidx_kept tid (by simp)⟩

/-! ## 3. the fragment guard -/

/-- **Resolve = Drop ⇒ …** Drop is answered only when the sampler said DROP, the guard is open,
    the configuration and temporal contract are valid, the catalogue is pinned and complete, the
    trace is complete with known bounds, the grace-widened bounds lie inside the covered segment
    range, every outside part has valid bounds, and every outside part overlapping the widened
    bounds answered Absent (not MaybePresent, not Unknown, not an error, not a nil filter).
    Cancellation, exhausted probe or drop budgets and everything else end in Keep/Defer. -/
theorem resolve_drop_sound (cfg : GConfig) (cat : GCatalog) (st : GState) (tr : GTrace) (act : SamplerAction)
    (cancelAt : Option Nat) (h : (resolve cfg cat st tr act cancelAt).1.action = .drop) :
    ∃ tmin tmax, DropEvidence cfg cat st tr act tmin tmax ∧
      (resolve cfg cat st tr act cancelAt).1.confirmed = some { id := tr.id, min := tmin, max := tmax, known := true } :=
  let ⟨tmin, tmax, ev, hc, _⟩ := resolve_drop_evidence cfg cat st tr act cancelAt _ _ rfl h
  ⟨tmin, tmax, ev, hc⟩

/-- a sampler KEEP is always kept; an invalid sampler action is never dropped. -/
theorem resolve_keeps_otherwise (cfg : GConfig) (cat : GCatalog) (st : GState) (tr : GTrace) (act : SamplerAction)
    (cancelAt : Option Nat) (h : act ≠ .drop) : (resolve cfg cat st tr act cancelAt).1.action ≠ .drop ∧
      (act = .keep → (resolve cfg cat st tr act cancelAt).1.action = .keep) := by
  cases act <;> simp [resolve] at h ⊢

/-- a cancelled context never yields Drop (first poll). -/
theorem resolve_cancelled_defers (cfg : GConfig) (cat : GCatalog) (st : GState) (tr : GTrace) :
    (resolve cfg cat st tr .drop (some 0)).1.action ≠ .drop := by
  unfold resolve
  simp only
  repeat' split
  all_goals (first | (intro h; cases h; done) | skip)
  all_goals (rename_i hc _ _ _ _ _ _ _ _ _ _ ; simp [Ctx.poll] at *)

/-- **Drop ⇒ no fragment outside the merged parts.** `world` lists every outside part of the
    pinned catalogue together with the spans it really holds. If filters have no false negatives
    (an Absent answer means the trace is not in the part), part bounds cover their spans, and
    fragments of one trace obey the event-time gap contract (every span of the trace lies within
    grace of the selected fragments' bounds), then `Resolve = Drop` implies that no outside part
    holds a span of the trace. -/
theorem resolve_drop_no_outside_fragment (cfg : GConfig) (cat : GCatalog) (st : GState) (tr : GTrace)
    (cancelAt : Option Nat) (world : List (GPart × List Span))
    (hcat : cat.parts = world.map (·.1))
    (hdrop : (resolve cfg cat st tr .drop cancelAt).1.action = .drop)
    (hfilter : ∀ w ∈ world, ∀ s ∈ w.2, s.tid = tr.id → ¬ w.1.absentFor tr.id)
    (hbounds : ∀ w ∈ world, ∀ s ∈ w.2, w.1.min ≤ s.ts ∧ s.ts ≤ w.1.max)
    (hgap : ∀ tmin tmax, traceBounds tr.blocks = some (tmin, tmax) → ∀ w ∈ world, ∀ s ∈ w.2, s.tid = tr.id →
      tmin - cfg.grace ≤ s.ts ∧ s.ts ≤ tmax + cfg.grace ∧ minI64 ≤ s.ts ∧ s.ts ≤ maxI64) :
    ∀ w ∈ world, ∀ s ∈ w.2, s.tid ≠ tr.id := by
  obtain ⟨tmin, tmax, ev, _⟩ := resolve_drop_sound cfg cat st tr .drop cancelAt hdrop
  intro w hw s hs hst
  obtain ⟨h1, h2, h3, h4⟩ := hgap tmin tmax ev.bounds w hw s hs hst
  obtain ⟨hlo, hhi⟩ := widened_contains h1 h2 ⟨h3, h4⟩
  obtain ⟨hb1, hb2⟩ := hbounds w hw s hs
  have hov : overlaps w.1 (satSub tmin cfg.grace) (satAdd tmax cfg.grace) = true := by
    simp only [overlaps, Bool.and_eq_true]
    exact ⟨decide_eq_true (Int.le_trans hlo hb2), decide_eq_true (Int.le_trans hb1 hhi)⟩
  exact hfilter w hw s hs hst (ev.absent w.1 (by rw [hcat]; exact List.mem_map.mpr ⟨w, hw, rfl⟩) hov)

/-- **Publication.** `RevalidateDrops` publishes only under the publication fence, with unchanged
    ownership and selected inputs, a complete pinned catalogue and a snapshot that did not regress;
    and then either the snapshot is the pinned one, or every part that appeared since answers Absent
    for every confirmed drop whose widened bounds it overlaps. -/
theorem revalidate_publish_sound (cfg : GConfig) (cat : GCatalog) (st : GState) (req : RevalReq)
    (cancelAt : Option Nat) (h : (revalidate cfg cat st req cancelAt).1.publish = true) :
    PublishEvidence cfg cat st req :=
  (revalidate_publish_evidence cfg cat st req cancelAt _ _ rfl h).1

/-! ## 3b. segment coverage: fragments in neighbouring segments -/

/-- **`traceFragmentCoverage` is exact.** For a segment range with int64 endpoints the coverage is
    known iff `start < end` and the segment can hold some instant (a degenerate one-instant
    range is conservatively treated as unknown: no sampling), and then `[covMin, covMax]` is exactly the set of
    instants it can hold (for the production form `[start, end)`: `covMax = end − 1`). -/
theorem coverage_exact (r : SegRange) (hz : r.startZero = false ∧ r.endZero = false)
    (h64 : minI64 ≤ r.start ∧ r.end_ ≤ maxI64) :
    ((coverageOf r).2.2 = true ↔ (r.start < r.end_ ∧ ∃ ts, r.holds ts)) ∧
    ((coverageOf r).2.2 = true → ∀ ts, ((coverageOf r).1 ≤ ts ∧ ts ≤ (coverageOf r).2.1) ↔ r.holds ts) := by
  by_cases hlt : r.start < r.end_
  · rw [coverageOf_eq r hz h64 hlt]
    unfold SegRange.holds
    cases r.inclStart <;> cases r.inclEnd <;>
      simp only [if_true, if_false, Bool.false_eq_true, decide_eq_true_eq]
    · refine ⟨⟨fun h => ⟨hlt, r.start + 1, by constructor <;> omega⟩, fun ⟨_, ts, h1, h2⟩ => by omega⟩, fun _ ts => by constructor <;> (rintro ⟨a, b⟩; constructor <;> omega)⟩
    · refine ⟨⟨fun h => ⟨hlt, r.start + 1, by constructor <;> omega⟩, fun ⟨_, ts, h1, h2⟩ => by omega⟩, fun _ ts => by constructor <;> (rintro ⟨a, b⟩; constructor <;> omega)⟩
    · refine ⟨⟨fun h => ⟨hlt, r.start, by constructor <;> omega⟩, fun ⟨_, ts, h1, h2⟩ => by omega⟩, fun _ ts => by constructor <;> (rintro ⟨a, b⟩; constructor <;> omega)⟩
    · refine ⟨⟨fun h => ⟨hlt, r.start, by constructor <;> omega⟩, fun ⟨_, ts, h1, h2⟩ => by omega⟩, fun _ ts => by constructor <;> (rintro ⟨a, b⟩; constructor <;> omega)⟩
  · have hk : (coverageOf r).2.2 = false := by
      unfold coverageOf; simp [hlt]
    rw [hk]
    exact ⟨⟨fun h => Bool.noConfusion h, fun ⟨h, _⟩ => absurd h hlt⟩, fun h => Bool.noConfusion h⟩

/-- **The session feeds `Resolve` the exact segment.** For the guard session of a table (coverage
    derived from its segment time range), a Drop is confirmed only if the grace-widened bounds of the
    trace contain only instants the segment itself can hold - so no fragment of the trace may live in a
    neighbouring segment within grace. -/
theorem session_drop_inside_segment (mc : FilterOracle) (t : Table) (sel : List Part) (cfg : GConfig) (cat : GCatalog)
    (hgs : guardSession mc t sel = some (cfg, cat)) (h64 : minI64 ≤ t.segMin ∧ t.segMax ≤ maxI64)
    (st : GState) (tr : GTrace) (ca : Option Nat)
    (hdrop : (resolve cfg cat st tr .drop ca).1.action = .drop) :
    ∃ tmin tmax, traceBounds tr.blocks = some (tmin, tmax) ∧
      ∀ ts, satSub tmin t.grace ≤ ts → ts ≤ satAdd tmax t.grace → t.segRange.holds ts := by
  obtain ⟨tmin, tmax, ev, _⟩ := resolve_drop_sound cfg cat st tr .drop ca hdrop
  unfold guardSession at hgs
  simp only at hgs
  split at hgs
  · cases hgs
  · rename_i hc
    simp only [Option.some.injEq, Prod.mk.injEq] at hgs
    obtain ⟨rfl, rfl⟩ := hgs
    simp only [Bool.or_eq_true, not_or, Bool.not_eq_true, Bool.not_eq_false'] at hc
    have hknown := hc.1.1.2
    obtain ⟨_, hex⟩ := coverage_exact t.segRange ⟨rfl, rfl⟩ h64
    have hcov := ev.coverage
    simp only at hcov
    have hin := hex hknown
    exact ⟨tmin, tmax, ev.bounds, fun ts h1 h2 => (hin ts).mp ⟨Int.le_trans hcov.2.1 h1, Int.le_trans h2 hcov.2.2⟩⟩


/-- production segments are `[start, end)`: the last instant is `end − 1`, so a trace ending exactly
    `grace` before `end` reaches past it and is deferred. -/
example : coverageOf { start := 1000, end_ := 2000, inclStart := true, inclEnd := false } = (1000, 1999, true) := by
  decide

/-! ## 3c. maturity: the bounds of a trace staged as several physical blocks -/

/-- **The stager's per-trace bounds are exact.** Staging the physical blocks of one trace, in any
    order of their timestamps (all with known, well-formed bounds), yields a group whose `minTS` is
    the minimum of the blocks' minima and whose `maxTS` is the maximum of their maxima; hence the
    maturity test (`group.maxTS ≤ frontier`) holds iff the newest span of the whole trace is not
    younger than the frontier - an older later block can never hide a newer earlier one. -/
theorem stage_bounds_exact (tid : Nat) (b : SBlock) (rest : List SBlock)
    (hv : ∀ x ∈ b :: rest, x.known = true ∧ x.min ≤ x.max) (frontier : Int) :
    let g := (b :: rest).foldl SGroup.add { tid := tid }
    g.minTS = minOfInts ((b :: rest).map (·.min)) ∧ g.maxTS = maxOfInts ((b :: rest).map (·.max)) ∧
    g.valid = true ∧ (g.eligible frontier = true ↔ ∀ x ∈ b :: rest, x.max ≤ frontier) := by
  intro g
  obtain ⟨hk, hle⟩ := hv b (List.mem_cons_self ..)
  have hfirst : ({ tid := tid } : SGroup).add b = { tid := tid, minTS := b.min, maxTS := b.max, count := 1, valid := true } := by
    unfold SGroup.add
    have h1 : (!b.known || decide (b.min > b.max)) = false := by simp [hk]; omega
    simp [h1]
  obtain ⟨a1, a2, a3⟩ := sgroup_fold_spec rest (({ tid := tid } : SGroup).add b) (by rw [hfirst]; simp)
    (fun x hx => hv x (List.mem_cons_of_mem _ hx))
  have hg : g = rest.foldl SGroup.add (({ tid := tid } : SGroup).add b) := rfl
  rw [hfirst] at a1 a2 a3
  refine ⟨by rw [hg, hfirst, a1]; rfl, by rw [hg, hfirst, a2]; rfl, by rw [hg, hfirst, a3], ?_⟩
  have hmax : g.maxTS = maxOfInts ((b :: rest).map (·.max)) := by rw [hg, hfirst, a2]; rfl
  unfold SGroup.eligible
  rw [decide_eq_true_iff, hmax]
  have hne : (b :: rest).map (·.max) ≠ [] := by simp
  obtain ⟨hmem, hub⟩ := maxOfInts_spec hne
  constructor
  · intro h x hx
    exact Int.le_trans (hub x.max (List.mem_map.mpr ⟨x, hx, rfl⟩)) h
  · intro h
    obtain ⟨x, hx, hxe⟩ := List.mem_map.mp hmem
    rw [← hxe]; exact h x hx

/-- the stager keeps one group per run of equal trace ids: staging the blocks of a single trace
    from an empty stager is that fold. -/
theorem stage_single_trace (tid : Nat) (bs : List SBlock) (b : SBlock) (htid : ∀ x ∈ b :: bs, x.tid = tid) :
    ((b :: bs).foldl StagerState.stage {}).groups = [(b :: bs).foldl SGroup.add { tid := tid }] := by
  have hb : b.tid = tid := htid b (List.mem_cons_self ..)
  have key : ∀ (l : List SBlock) (s : StagerState) (g : SGroup), s.groups = [g] → g.tid = tid → (∀ x ∈ l, x.tid = tid) →
      (l.foldl StagerState.stage s).groups = [l.foldl SGroup.add g] := by
    intro l
    induction l with
    | nil => intro s g hs _ _; exact hs
    | cons x xs ih =>
      intro s g hs hg hx
      simp only [List.foldl_cons]
      have hxt : x.tid = g.tid := by rw [hg]; exact hx x (List.mem_cons_self ..)
      apply ih _ (g.add x)
      · unfold StagerState.stage; rw [hs]; simp [hxt]
      · rw [SGroup.add_tid]; exact hg
      · exact fun y hy => hx y (List.mem_cons_of_mem _ hy)
  simp only [List.foldl_cons]
  apply key bs _ (({ tid := tid } : SGroup).add b)
  · unfold StagerState.stage; simp [hb]
  · rw [SGroup.add_tid]
  · exact fun y hy => htid y (List.mem_cons_of_mem _ hy)


/-- newest span in the first staged block, an older block after it: the trace stays immature. -/
example : (([⟨1, 1990, 1990, true⟩, ⟨1, 1100, 1100, true⟩] : List SBlock).foldl SGroup.add { tid := 1 }).maxTS = 1990 := by
  decide

/-! ## 4. sampler failures fail open -/

/-- **Fail-open.** If every link of the chain failed (returned an error, panicked, blocked,
    returned a verdict of the wrong length, or is nil), every trace of the batch is kept. -/
theorem sampler_fail_open (n : Nat) (links : List (Option LinkOutcome)) (h : ∀ l ∈ links, LinkBypassed n l) :
    (evaluateChain n links).1 = List.replicate n true := by
  unfold evaluateChain
  split
  · rename_i l
    have hl := h l (List.mem_singleton.mpr rfl)
    cases l with
    | none => rfl
    | some o =>
      obtain ⟨r, hr⟩ := evalLink_bypassed hl
      simp only [hr]
  · exact chainLoop_all_bypassed n links 0 _ [] h

/-- … and in general a trace is dropped by the chain only if some link returned normally, with a
    verdict of the right length, that says DROP for that very trace. -/
theorem chain_drop_needs_valid_verdict (n : Nat) (links : List (Option LinkOutcome)) (j : Nat)
    (h : (evaluateChain n links).1[j]? = some false) :
    ∃ k, some (LinkOutcome.mask k) ∈ links ∧ k.length = n ∧ k[j]? = some false := by
  unfold evaluateChain at h
  split at h
  · rename_i l
    cases l with
    | none => exact absurd h (replicate_true_getElem? n j)
    | some o =>
      simp only at h
      split at h
      · rename_i k hk
        cases o with
        | mask k0 =>
          simp only [evalLink] at hk
          split at hk
          · rename_i hlen; cases hk
            exact ⟨_, List.mem_singleton.mpr rfl, hlen, h⟩
          · cases hk
        | err => cases hk
        | panic => cases hk
        | block => cases hk
      · exact absurd h (replicate_true_getElem? n j)
  · rcases chainLoop_false_witness n links 0 _ [] j h with h' | h'
    · exact absurd h' (replicate_true_getElem? n j)
    · exact h'

/-- the host side (`mergeChain.Execute`): a timeout, an open circuit breaker or an empty chain
    retain the whole batch. -/
theorem execute_fail_open (n cb : Nat) (links : List LinkOutcome) (st : ChainState)
    (h : links = [] ∨ st.circuitOpen = true ∨ .block ∈ links) :
    (executeChain n cb links st).1 = List.replicate n true := by
  unfold executeChain
  rcases h with rfl | h | h
  · simp
  · split
    · rfl
    · simp
  · have hc : links.contains LinkOutcome.block = true := List.contains_iff_mem.mpr h
    split
    · rfl
    · split
      · rfl
      · simp only
        split <;> rfl

/-! ## 4b. the drop set and the secondary index -/

/-- the keep predicate handed to `sidx.Merge`: a v1-encoded element is kept iff its trace id is
    not in the drop set; undecodable elements fail open. -/
theorem sidx_keep_spec (s : DropSet) (id : List Byte) (fmt : Byte) :
    (s.ids ≠ [] → (s.keepEncoded (idFormatV1 :: id)).1 = !s.ids.contains id) ∧
    (fmt ≠ idFormatV1 → (s.keepEncoded (fmt :: id)).1 = true) ∧
    (s.keepEncoded []).1 = true ∧ (s.ids = [] → (s.keepEncoded (fmt :: id)).1 = true) :=
  ⟨keepEncoded_v1 s id, keepEncoded_other_format s fmt id, rfl, keepEncoded_empty_set s _⟩

/-- the merged secondary-index part holds exactly the rows of the merged parts whose trace id is
    not dropped (`keep := id ∉ dropSet`), with multiplicity. -/
theorem sidx_merge_spec (sidx : List (Nat × List SEntry)) (ids : List Nat) (dropped : List String) (e : SEntry) :
    (mergedSidx sidx ids dropped).count e =
      if dropped.contains e.tid then 0 else ((sidx.filter fun x => ids.contains x.1).flatMap (·.2)).count e := by
  unfold mergedSidx
  by_cases hd : dropped.contains e.tid = true
  · simp only [hd, if_true]
    refine List.count_eq_zero.mpr fun h => ?_
    have := (List.mem_filter.mp h).2
    rw [hd] at this
    cases this
  · simp only [hd, Bool.false_eq_true, if_false]
    exact List.count_filter (by simpa using hd)

/-- the ceiling never un-drops and never partially drops: once it refuses it refuses for the rest
    of the merge, and the first proposed drop is always admitted. -/
theorem ceiling_one_way (t : Tracker) (h : t.canAccept.1 = false) :
    t.canAccept.2.full = true ∧ (t.canAccept.2).canAccept.1 = false := by
  have hf := canAccept_refusal_sticks t h
  exact ⟨hf, by rw [canAccept_full _ hf]⟩

/-! ## 5. all or nothing -/

/-- **Per trace id, the merged selection is kept entirely or removed entirely** (unconditional:
    any well-formed table, any selection, sampler table, batching, ceiling, late part):
    for every trace id either
    * kept: the stored spans and secondary-index rows are those of before plus those of a part
      written meanwhile (as multisets), or
    * dropped: everything the *selected* parts held for it is gone - spans and secondary-index
      rows alike - and everything outside the selection is untouched; this happens only for a
      trace in the drop set of a filtered attempt that was published (`DropRan`: the guard session
      existed, the pre-publication revalidation said Publish, the introducer saw the revalidated
      epoch), for which the sampler returned a well-formed DROP verdict and `Resolve` said Drop. -/
theorem merge_selected_all_or_nothing (mc : FilterOracle) (t : Table) (hwf : t.WF) (s : Sel) (req : MergeReq) :
    ∃ sel L D, (∃ q, sel = t.parts.filter q) ∧ LateOK req.late L ∧ (D = [] ∨ DropRan mc t req sel L D) ∧
      ∀ tid,
        (tid ∉ D ∧
          ((mergeOp mc t s req).table.spansOf tid).Perm (t.spansOf tid ++ L.filter (·.tid == tid)) ∧
          ((mergeOp mc t s req).table.entriesOf tid).Perm
            (t.entriesOf tid ++ (L.map entryOf).filter (·.tid == tid)))
        ∨
        (tid ∈ D ∧
          (mergeOp mc t s req).table.spansOf tid =
            (rows (restOf (sel.map (·.id)) (shape t.parts))).filter (·.tid == tid) ++ L.filter (·.tid == tid) ∧
          (mergeOp mc t s req).table.entriesOf tid =
            (rows (restOf (sel.map (·.id)) t.sidx)).filter (·.tid == tid) ++ (L.map entryOf).filter (·.tid == tid)) := by
  obtain ⟨sel, L, D, hq, hl, hacc, hd⟩ := mergeOp_accounted mc t hwf s req
  refine ⟨sel, L, D, hq, hl, hd, fun tid => ?_⟩
  by_cases hin : tid ∈ D
  · right
    rw [spansOf_eq, entriesOf_eq]
    exact ⟨hin, hacc.spans_dropped tid hin, hacc.sidx_dropped tid hin⟩
  · left
    rw [spansOf_eq, spansOf_eq, entriesOf_eq, entriesOf_eq]
    exact ⟨hin, hacc.spans_kept tid hin, hacc.sidx_kept tid hin⟩

/-- why a trace id can be in a published drop set: its Decide call returned normally (no error,
    no panic, no length mismatch) with DROP for it, and `Resolve` answered Drop for the trace
    assembled from the selected parts against the pinned catalogue. -/
theorem dropped_trace_was_decided_and_resolved (mc : FilterOracle) (t : Table) (req : MergeReq) (sel : List Part)
    (L : List Span) (D : List String) (h : DropRan mc t req sel L D) (tid : String) (htid : tid ∈ D) :
    req.tab tid = 'D' ∧
    ∃ cfg cat, guardSession mc t sel = some (cfg, cat) ∧
      (∃ ids, tid ∈ ids ∧ batchWorst req.tab ids = 'K') ∧
      ∃ gst, (resolve cfg cat gst (gtraceOf sel tid) .drop none).1.action = .drop := by
  obtain ⟨cfg, cat, fi, fr, hgs, hdp, _⟩ := h
  have w := (firstAttempt_spec t sel req cfg cat fi fr).2 tid (by rw [← hdp.dropped]; exact htid)
  obtain ⟨ids, _, hmem, hk, htab⟩ := w.decided
  obtain ⟨g0, d, g1, hres, hact⟩ := w.resolved
  exact ⟨htab, cfg, cat, hgs, ⟨ids, hmem, hk⟩, g0, by rw [hres]; exact hact⟩

/-- **All or nothing (the property).** Assume the trace-id filters have no false negatives, part
    bounds cover their spans, timestamps are int64, and fragments of one trace are never farther
    apart than the merge grace in event time (the deployment contract of the guard). Then after
    any merge operation every trace id is either complete - all spans and all secondary-index rows
    of before plus those written meanwhile - or gone without residue: no span of it anywhere in the
    table. The secondary index loses rows only for traces that are gone from the selected parts. -/
theorem merge_all_or_nothing (mc : FilterOracle) (t : Table) (hwf : t.WF) (s : Sel) (req : MergeReq)
    (hnf : NoFalseNegatives mc) (hbs : BoundsSound t.parts)
    (hgap : GapBounded t.grace (rows (shape t.parts) ++ lateSpans req.late))
    (h64 : Int64Spans (rows (shape t.parts) ++ lateSpans req.late)) :
    ∃ L, LateOK req.late L ∧ ∀ tid,
      (((mergeOp mc t s req).table.spansOf tid).Perm (t.spansOf tid ++ L.filter (·.tid == tid)) ∧
       ((mergeOp mc t s req).table.entriesOf tid).Perm
         (t.entriesOf tid ++ (L.map entryOf).filter (·.tid == tid)))
      ∨ ((mergeOp mc t s req).table.spansOf tid = [] ∧ req.tab tid = 'D') := by
  obtain ⟨sel, L, D, ⟨q, rfl⟩, hl, hd, hall⟩ := merge_selected_all_or_nothing mc t hwf s req
  refine ⟨L, hl, fun tid => ?_⟩
  rcases hall tid with ⟨_, h1, h2⟩ | ⟨hin, h1, _⟩
  · exact Or.inl ⟨h1, h2⟩
  · right
    rcases hd with rfl | hran
    · cases hin
    · obtain ⟨c1, c2⟩ := dropRan_clean mc t hwf req q L D hran hnf hbs hgap h64 tid hin
      exact ⟨by rw [h1, c1, c2]; rfl, (dropped_trace_was_decided_and_resolved mc t req _ L D hran tid hin).1⟩

/-- **A trace whose sampler outcome is not a clean DROP is kept** (error, panic, length mismatch,
    keep): its spans and secondary-index rows survive every merge operation. -/
theorem merge_sampler_failure_keeps (mc : FilterOracle) (t : Table) (hwf : t.WF) (s : Sel) (req : MergeReq)
    (tid : String) (h : req.tab tid ≠ 'D') :
    ∃ L, LateOK req.late L ∧
      ((mergeOp mc t s req).table.spansOf tid).Perm (t.spansOf tid ++ L.filter (·.tid == tid)) ∧
      ((mergeOp mc t s req).table.entriesOf tid).Perm
        (t.entriesOf tid ++ (L.map entryOf).filter (·.tid == tid)) := by
  obtain ⟨sel, L, D, _, hl, hd, hall⟩ := merge_selected_all_or_nothing mc t hwf s req
  refine ⟨L, hl, ?_⟩
  rcases hall tid with ⟨_, h1, h2⟩ | ⟨hin, _, _⟩
  · exact ⟨h1, h2⟩
  · rcases hd with rfl | hran
    · cases hin
    · exact absurd (dropped_trace_was_decided_and_resolved mc t req sel L D hran tid hin).1 h

/-- a batch whose Decide call failed (error / panic / length mismatch for any trace in it) drops
    nothing: a dropped trace sat in a batch whose call returned a clean verdict. -/
theorem merge_failed_batch_keeps (mc : FilterOracle) (t : Table) (req : MergeReq) (sel : List Part)
    (L : List Span) (D : List String) (h : DropRan mc t req sel L D) (tid : String) (htid : tid ∈ D) :
    ∃ ids, tid ∈ ids ∧ batchWorst req.tab ids = 'K' := by
  obtain ⟨_, _, _, _, hb, _⟩ := dropped_trace_was_decided_and_resolved mc t req sel L D h tid htid
  exact hb

/-! ## 6. a part appearing while the merge runs -/

/-- **Late part, guard level.** If the snapshot changed since the guard was pinned and a part that
    appeared meanwhile overlaps the widened bounds of a confirmed drop without answering Absent
    for it (MaybePresent, Unknown, error, nil filter), `RevalidateDrops` refuses publication. -/
theorem late_part_keeps (cfg : GConfig) (cat : GCatalog) (st : GState) (req : RevalReq) (cancelAt : Option Nat)
    (hchanged : req.epoch ≠ cat.baseEpoch) (d : ConfirmedDrop) (hd : d ∈ st.drops) (p : GPart) (hp : p ∈ req.delta)
    (hov : overlaps p (satSub d.min cfg.grace) (satAdd d.max cfg.grace) = true) (hpos : ¬ p.absentFor d.id) :
    (revalidate cfg cat st req cancelAt).1.publish = false := by
  cases hpub : (revalidate cfg cat st req cancelAt).1.publish
  · rfl
  · exfalso
    have ev := revalidate_publish_sound cfg cat st req cancelAt hpub
    rcases ev.deltaClear with h | ⟨_, _, h⟩
    · exact hchanged h
    · exact hpos (h d hd p hp hov)

/-- **Late part, table level.** Under the same assumptions as `merge_all_or_nothing`: a trace of
    which the part written while the merge ran (inside Decide or at the publication fence) holds
    a span is never dropped - the drop is turned into keep or the filtered output is discarded
    (lossless retry); either way all its spans and secondary-index rows are there afterwards. -/
theorem late_part_keeps_trace (mc : FilterOracle) (t : Table) (hwf : t.WF) (s : Sel) (req : MergeReq)
    (hnf : NoFalseNegatives mc) (hbs : BoundsSound t.parts)
    (hgap : GapBounded t.grace (rows (shape t.parts) ++ lateSpans req.late))
    (h64 : Int64Spans (rows (shape t.parts) ++ lateSpans req.late))
    (tid : String) :
    ∃ L, LateOK req.late L ∧ (L.filter (·.tid == tid) ≠ [] →
      ((mergeOp mc t s req).table.spansOf tid).Perm (t.spansOf tid ++ L.filter (·.tid == tid)) ∧
      ((mergeOp mc t s req).table.entriesOf tid).Perm
        (t.entriesOf tid ++ (L.map entryOf).filter (·.tid == tid))) := by
  obtain ⟨sel, L, D, ⟨q, rfl⟩, hl, hd, hall⟩ := merge_selected_all_or_nothing mc t hwf s req
  refine ⟨L, hl, fun hlate => ?_⟩
  rcases hall tid with ⟨_, h1, h2⟩ | ⟨hin, _, _⟩
  · exact ⟨h1, h2⟩
  · rcases hd with rfl | hran
    · cases hin
    · exact absurd (dropRan_clean mc t hwf req q L D hran hnf hbs hgap h64 tid hin).2 hlate

/-! ## 7. the hypotheses are not vacuous: the invariant is real, and concrete instances -/

/-- `Table.Inv` (= `WF` + `BoundsSound`) holds initially and is preserved by write, flush and every
    merge operation: the structural hypotheses of the theorems above hold for every reachable table. -/
theorem invariant_reachable (mc : FilterOracle) (t : Table) (h : t.Inv) :
    (∀ sp, (t.write sp).Inv) ∧ t.flush.Inv ∧ (∀ s req, (mergeOp mc t s req).table.Inv) :=
  ⟨write_inv t h, flush_inv t h, mergeOp_inv mc t h⟩

/-- three traces in two flushed parts, segment [1000,2000], grace 10. -/
def exTable : Table :=
  ((({ segMin := 1000, segMax := 2000, grace := 10 } : Table).write
      [⟨"a", "s1", 1100⟩, ⟨"b", "s2", 1105⟩]).write [⟨"a", "s3", 1108⟩, ⟨"c", "s4", 1500⟩]).flush

/-- the same, but trace `a` has a fragment 400 time units away - outside the gap contract. -/
def exTableFar : Table :=
  (((({ segMin := 1000, segMax := 2000, grace := 10 } : Table).write
      [⟨"a", "s1", 1100⟩, ⟨"b", "s2", 1105⟩]).write [⟨"c", "s4", 1500⟩]).write [⟨"a", "s3", 1500⟩]).flush

def exReq : MergeReq :=
  { mode := 'H', now := 3000, eachBatch := false, dropSetBudget := 0,
    tab := fun t => if t == "a" then 'D' else 'K', late := none, finalizeGrace := 0 }

example : exTable.Inv := flush_inv _ (write_inv _ (write_inv _ (init_inv 1000 2000 10) _) _)

example : GapBounded exTable.grace (rows (shape exTable.parts) ++ lateSpans exReq.late) ∧
    Int64Spans (rows (shape exTable.parts) ++ lateSpans exReq.late) := by
  unfold GapBounded Int64Spans
  decide

/-- merging both parts with a sampler that drops `a`: the whole trace goes (spans and index rows),
    the others stay whole. -/
theorem example_whole_trace_dropped :
    (mergeOp exactFilter exTable (.idx [0, 1]) exReq).table.spansOf "a" = [] ∧
    (mergeOp exactFilter exTable (.idx [0, 1]) exReq).table.entriesOf "a" = [] ∧
    ((mergeOp exactFilter exTable (.idx [0, 1]) exReq).table.spansOf "b").length = 1 ∧
    ((mergeOp exactFilter exTable (.idx [0, 1]) exReq).table.entriesOf "c").length = 1 := by decide

/-- merging only the first part: the fragment of `a` in the other part is seen by the guard
    (time overlap + filter positive) and the trace is kept whole. -/
theorem example_outside_fragment_keeps :
    ((mergeOp exactFilter exTable (.idx [0]) exReq).table.spansOf "a").length = 2 ∧
    ((mergeOp exactFilter exTable (.idx [0]) exReq).table.entriesOf "a").length = 2 := by decide

/-- **The gap contract is necessary.** With a fragment of `a` farther away than the grace, merging
    parts 1 and 2 drops the selected fragment while the far one stays: one of two spans survives -
    neither all nor nothing. This is the documented deployment contract of the guard
    (docs/design/trace-fragment-sampling-guard.md, "Time Boundary"); the implementation behaves the
    same way (finding F13a, reproduced by the c13 driver). -/
theorem gap_contract_is_necessary :
    exTableFar.Inv ∧
    (exTableFar.spansOf "a").length = 2 ∧
    (mergeOp exactFilter exTableFar (.idx [0, 1]) exReq).table.spansOf "a" = [⟨"a", "s3", 1500⟩] :=
  ⟨flush_inv _ (write_inv _ (write_inv _ (write_inv _ (init_inv 1000 2000 10) _) _) _), by decide, by decide⟩

/-- the property at full strength: all-or-nothing over the whole table for every reachable table
    *without* assuming the event-time gap contract. -/
def merge_all_or_nothing_Statement : Prop :=
  ∀ (t : Table) (s : Sel) (req : MergeReq), t.Inv →
    ∃ L, LateOK req.late L ∧ ∀ tid,
      ((mergeOp exactFilter t s req).table.spansOf tid).Perm (t.spansOf tid ++ L.filter (·.tid == tid))
      ∨ (mergeOp exactFilter t s req).table.spansOf tid = []

/-- … and it does not hold for the model (nor for the implementation it mirrors: finding F13a);
    `merge_all_or_nothing` is the part that holds, under the guard's documented contract. -/
theorem merge_all_or_nothing_Statement_fails : ¬ merge_all_or_nothing_Statement := by
  intro h
  obtain ⟨hinv, hlen, hres⟩ := gap_contract_is_necessary
  obtain ⟨L, hl, hall⟩ := h exTableFar (.idx [0, 1]) exReq hinv
  have hL : L = [] := by
    rcases hl with h1 | ⟨l, h1, _⟩
    · exact h1
    · cases h1
  subst hL
  rcases hall "a" with hp | hn
  · have := hp.length_eq
    rw [hres] at this
    simp only [List.filter_nil, List.append_nil, List.length_cons, List.length_nil] at this
    omega
  · rw [hres] at hn; cases hn

/-- a concrete `Resolve = Drop`: one overlapping outside part answering Absent, one far part that
    would answer MaybePresent but is not a candidate. -/
theorem example_resolve_drop :
    (resolve { grace := 10, maxProbes := 5, maxDrops := 0 }
      { pinned := true, baseEpoch := 3, covMin := 0, covMax := 5000, gap := 10, complete := true, covKnown := true,
        temporal := 1,
        parts := [{ min := 1100, max := 1110, known := true, filter := some fun _ => .ok .absent },
                  { min := 1300, max := 1310, known := true, filter := some fun _ => .ok .maybe }] }
      { pinned := true } { id := "t", complete := true, blocks := [{ min := 1090, max := 1111, known := true }] }
      .drop none).1.action = .drop := by decide

/-- … and with the overlapping part answering MaybePresent the decision is Defer. -/
theorem example_resolve_defer :
    (resolve { grace := 10, maxProbes := 5, maxDrops := 0 }
      { pinned := true, baseEpoch := 3, covMin := 0, covMax := 5000, gap := 10, complete := true, covKnown := true,
        temporal := 1,
        parts := [{ min := 1100, max := 1110, known := true, filter := some fun _ => .ok .maybe }] }
      { pinned := true } { id := "t", complete := true, blocks := [{ min := 1090, max := 1111, known := true }] }
      .drop none).1.action = .defer := by decide

end Banyan.C13
