/-
C14 — A segment is never closed or deleted while in use, and never leaks.

Theorems about the ATOMIC-STEP model `Banyan.C14` (Model/C14.lean) of the dormant-reference protocol
of `banyand/internal/storage/segment.go`: one segment, any number of threads, any scheduler, any
number of steps; every thread is a most general client (may call any procedure whenever it is idle,
under the caller contract "DecRef only what you own").  All theorems are by induction over schedules
(`Reach`), through the invariant `Inv` (Lemmas/C14Inv.lean).

WHICH SYSTEM A THEOREM IS ABOUT.  `Reach legacy s`:
* `legacy = true`  – THE CODE AS WRITTEN (HEAD of /repo): callers of `selectSegments(…, false)` /
  `segments(ctx,false)` may `DecRef` a segment they did not pin (`Proc.decRefStray`; known finding
  F14a).  Theorems stated for an arbitrary `{legacy : Bool}` hold for the code as written.
* `legacy = false` (`Reachable`) – THE PROPOSED REPAIR of F14a (fixes/C14_F14a_unpinned_decref.diff):
  every caller DecRefs only what it owns; equivalently every run of the code as written in which no
  stray DecRef occurs.  Theorems stated for `Reachable` need this; they are exactly what F14a
  breaks (`refcount_eq_holders`, `no_use_after_close`, `decRef_always_releases`, the owner parts of
  `no_resurrection`, `no_leak`), and section 7 gives the `decide`d counterexample schedule.
`segmentsLoop` (unwinding) is `segments(ctx,true)` as written since fix c1c1a97 (finding F14b);
`segmentsLoop_legacy` is the loop before that fix.

What the model covers, what it does not, and how it is tied to the Go code: checks/C14.design.md.
-/
import Banyan.Lemmas.C14Inv
import Banyan.Lemmas.C14Ops

namespace Banyan.C14

/-! ## 0. vocabulary -/

/-- number of references owned by all threads together (ghost) -/
def holders (s : State) : Int := lsum holdsI s.ts

/-- finite continuation of a run under the caller contract -/
inductive Path (legacy : Bool) : State → State → Prop
  | refl (s : State) : Path legacy s s
  | step {s s' s'' : State} (l : Label) : Path legacy s s' → (legacy = true ∨ l.fair = true) →
      s'.step l = some s'' → Path legacy s s''

theorem Reach.path {legacy : Bool} {s s' : State} (h : Reach legacy s) (p : Path legacy s s') : Reach legacy s' := by
  induction p with
  | refl => exact h
  | step l _ hf hs ih => exact Reach.step l ih hf hs

/-- a concrete schedule from the initial state gives a reachable state -/
theorem reach_of_run (legacy : Bool) : ∀ (ls : List Label) (s s' : State), Reach legacy s →
    (∀ l ∈ ls, legacy = true ∨ l.fair = true) → run s ls = some s' → Reach legacy s'
  | [], s, s', h, _, hr => by simp [run] at hr; subst hr; exact h
  | l :: ls, s, s', h, hf, hr => by
    simp only [run] at hr
    split at hr
    · simp at hr
    · rename_i s1 hs
      exact reach_of_run legacy ls s1 s' (Reach.step l h (hf l (by simp)) hs)
        (fun l' hl' => hf l' (by simp [hl'])) hr

/-- the end state of a concrete schedule (for examples and counterexamples) -/
def endOf (ls : List Label) : State := (run State.init ls).getD State.init

theorem reach_endOf (legacy : Bool) (ls : List Label) (hf : ∀ l ∈ ls, legacy = true ∨ l.fair = true)
    (h : (run State.init ls).isSome = true) : Reach legacy (endOf ls) := by
  unfold endOf
  cases hr : run State.init ls with
  | none => rw [hr] at h; simp at h
  | some s => exact reach_of_run legacy ls _ _ Reach.init hf hr

/-! ## 1. `inv_reachable` -/

/-- **The invariant holds in every reachable state** (any number of threads, any interleaving of
the atomic steps).  `Inv` says:
* `rcLe/rcNonneg` – `0 ≤ refCount ≤` number of references owned by the threads;
* `rcSum/noStray` – (repair only) `refCount` = that number exactly; nobody is in a stray DecRef;
* `openOfRc`   – before shutdown, `refCount > 0 →` index and shards are open;
* `dirOfOpen`  – open `→` the directory exists;  `mbdOfNoDir` – no directory `→ mustBeDeleted`;
* `lockIff/lockLt` – the mutex is held exactly by the one thread inside a critical section;
* `rdSum/rdExcl`   – `RLock` readers are counted exactly and exclude the writer;
* `tl`         – what each thread knows at its program counter (e.g. "I saw refCount = 0 under the
                 mutex, and it still is 0");
* `pending`    – a flagged, unreferenced segment whose directory still exists has a thread that is
                 committed to removing it. -/
theorem inv_reachable {legacy : Bool} {s : State} (h : Reach legacy s) : Inv legacy s := inv_of_reach h

/-- code as written: `0 ≤ refCount ≤` owned references (a stray DecRef can only lower it). -/
theorem refcount_bounds {legacy : Bool} {s : State} (h : Reach legacy s) : 0 ≤ s.sh.rc ∧ s.sh.rc ≤ holders s :=
  ⟨(inv_reachable h).rcNonneg, (inv_reachable h).rcLe⟩

/-- `refCount` equals the number of owned references, and is never negative. -/
theorem refcount_eq_holders {s : State} (h : Reachable s) : s.sh.rc = holders s ∧ 0 ≤ s.sh.rc := by
  have I := inv_reachable h
  exact ⟨I.rcSum rfl, I.rcNonneg⟩

/-- Shape of the shared state: referenced ⇒ open ∧ directory; directory gone ⇒ flagged, closed,
unreferenced (before shutdown). -/
theorem shape_reachable {legacy : Bool} {s : State} (h : Reach legacy s) :
    (s.sh.down = false → s.sh.rc > 0 → s.sh.isOpen = true ∧ s.sh.dir = true) ∧
    (s.sh.dir = false → s.sh.mbd = true ∧ s.sh.isOpen = false ∧ (s.sh.down = false → s.sh.rc = 0)) := by
  have I := inv_reachable h
  have hrc := I.rcNonneg
  refine ⟨fun hd hr => ⟨I.openOfRc hd hr, I.dirOfOpen (I.openOfRc hd hr)⟩, fun hnd => ⟨I.mbdOfNoDir hnd, ?_, ?_⟩⟩
  · cases ho : s.sh.isOpen with
    | false => rfl
    | true => have := I.dirOfOpen ho; rw [hnd] at this; cases this
  · intro hd
    by_cases hpos : 0 < s.sh.rc
    · have := I.dirOfOpen (I.openOfRc hd hpos); rw [hnd] at this; cases this
    · omega

/-- mutual exclusion of the critical sections of `segment.mu` -/
theorem mutex {legacy : Bool} {s : State} (h : Reach legacy s) {t u : Nat} {th thu : Th} (ht : s.ts[t]? = some th)
    (hu : s.ts[u]? = some thu) (lt : locked th.pc = true) (lu : locked thu.pc = true) : t = u := by
  have I := inv_reachable h
  have a := (I.lockIff t th ht).mp lt
  have b := (I.lockIff u thu hu).mp lu
  rw [a] at b; cases b; rfl

/-- **Closing / deleting steps are guarded**: a step that closes the resources or removes the
directory is taken by the thread that holds the mutex, and – unless it is the database shutdown –
at `refCount = 0`. -/
theorem close_steps_guarded {legacy : Bool} {s : State} (h : Reach legacy s) {t : Nat} {th th' : Th} {p : Proc} {ok : Bool}
    {sh' : Shared} (hg : s.ts[t]? = some th) (hs : tstep t s.sh th p ok = some (sh', th'))
    (hc : (s.sh.isOpen = true ∧ sh'.isOpen = false) ∨ (s.sh.dir = true ∧ sh'.dir = false)) :
    s.sh.mu = some t ∧ (s.sh.rc = 0 ∨ th.pc = .clClose ∨ (th.pc = .clRm ∧ s.sh.mbd = true)) := by
  have P := (inv_reachable h).pre hg
  obtain ⟨pc, holds, base, res, flag⟩ := th
  obtain ⟨_, lock, _, _, _, _, _, tl⟩ := P
  cases pc <;> simp only [tstep] at hs
  case idle =>
    cases p <;> simp only [] at hs <;> (try split at hs) <;> simp at hs <;> (try obtain ⟨rfl, rfl⟩ := hs) <;>
      simp_all
  all_goals (try split at hs)
  all_goals (try split at hs)
  all_goals simp at hs
  all_goals obtain ⟨rfl, rfl⟩ := hs
  all_goals simp_all [locked, TL, TLpc]

/-! ## 2. `no_use_after_close` -/

/-- **A thread that owns a reference – i.e. is between a successful `incRef` (or pin) and the
matching `DecRef` – always observes an open index and an existing directory**, whatever the other
threads do (idle reclaim, retention delete, forced delete, snapshot, metrics …), up to database
shutdown. -/
theorem no_use_after_close {s : State} (h : Reachable s) (hd : s.sh.down = false) {t : Nat} {th : Th}
    (hg : s.ts[t]? = some th) (hh : th.holds > 0) : s.sh.isOpen = true ∧ s.sh.dir = true := by
  have I := inv_reachable h
  have h1 := (lsum_ge holdsI holdsI_nonneg s.ts t th hg).1
  have : s.sh.rc > 0 := by rw [I.rcSum rfl]; simp only [holdsI] at h1; omega
  exact (shape_reachable h).1 hd this

/-- the same for the places where the code dereferences resources without owning a counted
reference: `snapshotOpen` (pinned under the mutex), `snapshotClosed` (under the mutex: closed but the
directory is there), and the `RLock` readers (`collectOpenMetrics`, `resetIndex`, `SeriesIndexStats`). -/
theorem resource_access_safe {s : State} (h : Reachable s) {t : Nat} {th : Th} (hg : s.ts[t]? = some th) :
    (th.pc = .snWork → s.sh.down = false → s.sh.isOpen = true ∧ s.sh.dir = true) ∧
    (th.pc = .snLink → s.sh.isOpen = false ∧ s.sh.dir = true) ∧
    (th.pc = .rdUse → s.sh.isOpen = true) := by
  have I := inv_reachable h
  have T := I.tl t th hg
  refine ⟨?_, ?_, ?_⟩
  · intro hpc hd
    refine no_use_after_close h hd hg ?_
    simp [TL, TLpc, hpc] at T; omega
  · intro hpc; simp [TL, TLpc, hpc] at T; exact ⟨T.1.2, T.1.1⟩
  · intro hpc; simp [TL, TLpc, hpc] at T; exact T.1

/-- code as written: the accesses made under the mutex / read lock are safe even with stray DecRefs
around – `snapshotClosed` sees a closed segment with its directory, an `RLock` reader that saw the
index open keeps it open until it unlocks. -/
theorem locked_access_safe {legacy : Bool} {s : State} (h : Reach legacy s) {t : Nat} {th : Th}
    (hg : s.ts[t]? = some th) :
    (th.pc = .snLink → s.sh.isOpen = false ∧ s.sh.dir = true) ∧ (th.pc = .rdUse → s.sh.isOpen = true) := by
  have T := (inv_reachable h).tl t th hg
  refine ⟨?_, ?_⟩
  · intro hpc; simp [TL, TLpc, hpc] at T; exact ⟨T.1.2, T.1.1⟩
  · intro hpc; simp [TL, TLpc, hpc] at T; exact T.1

/-! ## 3. `delete_at_last_release`, `no_resurrection` -/

/-- nothing ever creates the directory again (any step, fair or not) -/
theorem dir_never_returns {s s' : State} {l : Label} (hs : s.step l = some s') (hd : s.sh.dir = false) :
    s'.sh.dir = false := by
  cases l with
  | spawn => simp [State.step] at hs; subst hs; exact hd
  | step t p ok =>
    simp only [State.step] at hs
    split at hs
    · simp at hs
    · rename_i th _
      split at hs
      · simp at hs
      · rename_i sh' th' hstep
        simp at hs; subst hs
        show sh'.dir = false
        obtain ⟨pc, holds, base, res, flag⟩ := th
        cases pc <;> simp only [tstep] at hstep
        case idle =>
          cases p <;> simp only [] at hstep <;> (try split at hstep) <;> simp at hstep <;>
            (try obtain ⟨rfl, rfl⟩ := hstep) <;> simp_all
        all_goals (try split at hstep)
        all_goals (try split at hstep)
        all_goals simp at hstep
        all_goals obtain ⟨rfl, rfl⟩ := hstep
        all_goals simp_all

/-- **`delete_at_last_release` (safety half)**: while anybody owns a reference the directory of a
flagged segment stays; once the segment is flagged, unreferenced and still on disk, some thread is
*committed* to `performDelete` (it is between the store of the flag / the CAS to zero and the
`MustRMAll`), so the delete obligation is never lost.  The directory disappears exactly once
(`dir_never_returns`).  The progress half at op granularity is `last_release_deletes`. -/
theorem delete_at_last_release {legacy : Bool} {s : State} (h : Reach legacy s) :
    (s.sh.down = false → s.sh.rc > 0 → s.sh.dir = true) ∧
    (s.sh.mbd = true → s.sh.dir = true → s.sh.rc = 0 →
      ∃ (t : Nat) (th : Th), s.ts[t]? = some th ∧ pend th.pc = true) :=
  ⟨fun hd hr => ((shape_reachable h).1 hd hr).2, fun a b c => (inv_reachable h).pending ⟨a, b, c⟩⟩

/-- Full-strength progress form of "disappears exactly when its last holder releases it" at
atomic-step granularity: from every reachable state in which a flagged segment is unreferenced and
still on disk, the run can be continued to a state where the directory is gone or somebody holds a
reference again.  NOT proved (the model has no fairness notion; it needs driving the current mutex
holder out of its critical section).  Proved instead: the safety half `delete_at_last_release`
(= `delete_at_last_release_partial`), `last_release_commits`, and completion without interference
`last_release_deletes`. -/
def deleteEventuallyStatement : Prop :=
  ∀ s : State, Reachable s → s.sh.mbd = true → s.sh.dir = true → s.sh.rc = 0 →
    ∃ s', Path false s s' ∧ (s'.sh.dir = false ∨ s'.sh.rc > 0)

theorem delete_at_last_release_partial {legacy : Bool} {s : State} (h : Reach legacy s) :
    (s.sh.down = false → s.sh.rc > 0 → s.sh.dir = true) ∧
    (s.sh.mbd = true → s.sh.dir = true → s.sh.rc = 0 →
      ∃ (t : Nat) (th : Th), s.ts[t]? = some th ∧ pend th.pc = true) := delete_at_last_release h

/-- the step that drops the last reference of a flagged segment leaves that thread committed to
the delete (`drMbd`), and from there each of its steps is forced: it reaches `MustRMAll` unless a
new reference appeared, in which case that reference's last `DecRef` inherits the obligation. -/
theorem last_release_commits {t : Nat} {sh sh' : Shared} {th th' : Th} {ok : Bool} {own : Bool}
    (hpc : th.pc = .drCas 1 own) (hs : tstep t sh th .incRef ok = some (sh', th')) (hrc : sh.rc = 1) :
    sh'.rc = 0 ∧ th'.pc = .drMbd := by
  obtain ⟨pc, holds, base, res, flag⟩ := th
  simp at hpc; subst hpc
  simp [tstep, hrc] at hs
  obtain ⟨rfl, rfl⟩ := hs
  simp

/-- **`delete_at_last_release` (progress half, op granularity)**: run to completion without
interference, the `DecRef` of the last owner of a flagged segment closes it and removes its
directory; the `DecRef` of an unflagged one only makes it dormant. -/
theorem last_release_deletes (t : Tid) (ok isOpen dir down : Bool) (la : Int) (holds base : Nat) (res : Res)
    (flag : Bool) :
    callTh t .decRef ok ⟨1, isOpen, true, dir, la, none, 0, down⟩ ⟨.idle, holds + 1, base, res, flag⟩ =
      some (⟨0, false, true, false, la, none, 0, down⟩, ⟨.idle, holds, base, .none, flag⟩) ∧
    callTh t .decRef ok ⟨1, isOpen, false, dir, la, none, 0, down⟩ ⟨.idle, holds + 1, base, res, flag⟩ =
      some (⟨0, isOpen, false, dir, la, none, 0, down⟩, ⟨.idle, holds, base, .none, flag⟩) :=
  ⟨decRef_last_deletes .., decRef_last_dormant ..⟩

/-- **`no_resurrection`**: once the directory is gone it never comes back, the segment is never
open again, nobody ever owns a reference to it again, and no `incRef` returns success
(all before database shutdown; `down` itself is only set by `close`). -/
theorem no_resurrection_as_written {legacy : Bool} {s s' : State} (h : Reach legacy s) (hd : s.sh.dir = false)
    (p : Path legacy s s') :
    s'.sh.dir = false ∧ s'.sh.isOpen = false ∧ s'.sh.mbd = true ∧ (s'.sh.down = false → s'.sh.rc = 0) := by
  have hd' : s'.sh.dir = false := by
    induction p with
    | refl => exact hd
    | step l _ _ hs ih => exact dir_never_returns hs ih
  have S := (shape_reachable (h.path p)).2 hd'
  exact ⟨hd', S.2.1, S.1, S.2.2⟩

theorem no_resurrection {s s' : State} (h : Reachable s) (hd : s.sh.dir = false) (p : Path false s s') :
    s'.sh.dir = false ∧ s'.sh.isOpen = false ∧ s'.sh.mbd = true ∧
    (s'.sh.down = false → s'.sh.rc = 0 ∧
      ∀ (t : Nat) (th : Th), s'.ts[t]? = some th → th.holds = 0 ∧ (th.pc = .idle → th.res ≠ .ok)) := by
  have hd' : s'.sh.dir = false := by
    induction p with
    | refl => exact hd
    | step l _ _ hs ih => exact dir_never_returns hs ih
  have h' := h.path p
  have S := (shape_reachable h').2 hd'
  refine ⟨hd', S.2.1, S.1, fun hdn => ⟨S.2.2 hdn, ?_⟩⟩
  intro t th hg
  have I := inv_reachable h'
  have h1 := (lsum_ge holdsI holdsI_nonneg s'.ts t th hg).1
  have hz : th.holds = 0 := by
    have := S.2.2 hdn; rw [I.rcSum rfl] at this; simp only [holdsI] at h1; omega
  refine ⟨hz, ?_⟩
  intro hpc hres
  have T := I.tl t th hg
  simp [TL, TLpc, hpc] at T
  have := T.1 hres
  omega

/-- `acquire` on a segment whose directory is gone takes the `ErrSegmentClosed` exit: each of the
three decisive steps is forced. -/
theorem acquire_after_delete_fails {legacy : Bool} {s : State} (h : Reach legacy s) (hd : s.sh.dir = false)
    (hdn : s.sh.down = false) (t : Nat) (th : Th) (ok : Bool) :
    (th.pc = .irLoad → ∃ th', tstep t s.sh th .incRef ok = some (s.sh, th') ∧ th'.pc = .aqLock) ∧
    (th.pc = .aqRc → ∃ th', tstep t s.sh th .incRef ok = some (s.sh, th') ∧ th'.pc = .aqMbd) ∧
    (th.pc = .aqMbd → ∃ th', tstep t s.sh th .incRef ok = some (s.sh, th') ∧ th'.pc = .aqUnlock .closedErr) := by
  have S := (shape_reachable h).2 hd
  have hrc := S.2.2 hdn
  obtain ⟨pc, holds, base, res, flag⟩ := th
  refine ⟨?_, ?_, ?_⟩ <;> intro hpc <;> simp at hpc <;> subst hpc <;> simp [tstep, hrc, S.1]

/-- op granularity: `incRef` after the delete returns the closed error and changes nothing. -/
theorem incRef_after_delete (t : Tid) (ok isOpen dir down : Bool) (la : Int) (holds base : Nat) (res : Res)
    (flag : Bool) :
    callTh t .incRef ok ⟨0, isOpen, true, dir, la, none, 0, down⟩ ⟨.idle, holds, base, res, flag⟩ =
      some (⟨0, isOpen, true, dir, la, none, 0, down⟩, ⟨.idle, holds, holds, .closedErr, flag⟩) :=
  incRef_deleted ..

/-! ## 4. `no_leak` -/

/-- **A failed `incRef` (closed error or `initialize` error) leaves the caller with exactly the
references it had; a successful one adds exactly one.**  Together with `refcount_eq_holders` this
is "a failed incRef changes no count". -/
theorem incRef_fail_no_count {legacy : Bool} {s : State} (h : Reach legacy s) {t : Nat} {th : Th} (hg : s.ts[t]? = some th)
    (hpc : th.pc = .idle) :
    (th.res = .closedErr ∨ th.res = .initErr → th.holds = th.base) ∧ (th.res = .ok → th.holds = th.base + 1) := by
  have T := (inv_reachable h).tl t th hg
  simp [TL, TLpc, hpc] at T
  exact ⟨T.2, T.1⟩

/-- **A `DecRef` by an owner always releases**: it never takes the "already dormant, nothing to
release" exit, so every owned reference that is DecRef'ed is given back. -/
theorem decRef_always_releases {s : State} (h : Reachable s) {t : Nat} {th : Th} (hg : s.ts[t]? = some th) :
    (∀ own, th.pc = .drLoad own → own = true ∧ s.sh.rc > 0) ∧
    (∀ cur own, th.pc = .drCas cur own → own = true ∧ s.sh.rc > 0) := by
  have I := inv_reachable h
  have T := I.tl t th hg
  have N := I.noStray rfl t th hg
  have h1 := (lsum_ge holdsI holdsI_nonneg s.ts t th hg).1
  have hr := I.rcSum rfl
  simp only [holdsI] at h1
  constructor
  · intro own hpc
    cases own with
    | false => simp [strayPC, hpc] at N
    | true => simp [TL, TLpc, hpc] at T; exact ⟨rfl, by omega⟩
  · intro cur own hpc
    cases own with
    | false => simp [strayPC, hpc] at N
    | true => simp [TL, TLpc, hpc] at T; exact ⟨rfl, by omega⟩

/-- **All references released ⇒ `refCount = 0`** – nothing is left behind that could block
idle-close or retention. -/
theorem all_released_rc_zero {legacy : Bool} {s : State} (h : Reach legacy s) (hz : ∀ th ∈ s.ts, th.holds = 0) :
    s.sh.rc = 0 := by
  have I := inv_reachable h
  have : ∀ ts : List Th, (∀ th ∈ ts, th.holds = 0) → lsum holdsI ts = 0 := by
    intro ts
    induction ts with
    | nil => intro _; rfl
    | cons x r ih =>
      intro hz
      simp [lsum, holdsI, hz x (by simp)]
      exact ih fun th hm => hz th (by simp [hm])
  have h1 := I.rcLe; rw [this s.ts hz] at h1
  have h2 := I.rcNonneg
  omega

/-- … and then idle-close and retention do succeed (op granularity, no interference). -/
theorem unreferenced_reclaimable (t : Tid) (ok isOpen mbd dir down : Bool) (la thr : Int) (hla : la < thr)
    (holds base : Nat) (res : Res) (flag : Bool) :
    callTh t (.closeIfIdle thr) ok ⟨0, true, false, dir, la, none, 0, down⟩ ⟨.idle, holds, base, res, flag⟩ =
      some (⟨0, false, false, dir, la, none, 0, down⟩, ⟨.idle, holds, base, .none, true⟩) ∧
    callTh t .delete ok ⟨0, isOpen, mbd, dir, la, none, 0, down⟩ ⟨.idle, holds, base, res, flag⟩ =
      some (⟨0, false, true, false, la, none, 0, down⟩, ⟨.idle, holds, base, .none, flag⟩) :=
  ⟨closeIfIdle_closes t ok dir la down holds base res flag thr hla, delete_unreferenced ..⟩

/-- **`selectSegments` releases every pin on a mid-loop failure** and keeps exactly one pin per
returned segment on success – for every world that honours the per-segment contracts
(`incRef_fail_no_count`, `decRef_always_releases`). `c0` = references the caller owned before. -/
theorem selectLoop_no_leak {σ : Type} (W : PinWorld σ) (c0 : Nat → Int) (h0 : ∀ j, 0 ≤ c0 j) :
    ∀ (ids : List Nat) (w : σ) (tt : List Nat), (∀ j, W.cnt w j = c0 j + tt.count j) →
      (∀ tt', (selectLoop W.incRef W.decRef W.touch w ids tt).2 = some tt' →
        tt' = tt ++ ids ∧ ∀ j, W.cnt (selectLoop W.incRef W.decRef W.touch w ids tt).1 j = c0 j + tt'.count j) ∧
      ((selectLoop W.incRef W.decRef W.touch w ids tt).2 = none →
        ∀ j, W.cnt (selectLoop W.incRef W.decRef W.touch w ids tt).1 j = c0 j)
  | [], w, tt, h => by
    simp only [selectLoop]
    refine ⟨?_, by simp⟩
    intro tt' e; simp at e; subst e; simp; exact h
  | i :: rest, w, tt, h => by
    simp only [selectLoop]
    by_cases hok : (W.incRef w i).2 = true
    · simp only [hok, if_true]
      have ih := selectLoop_no_leak W c0 h0 rest (W.touch (W.incRef w i).1 i) (tt ++ [i]) (by
        intro j
        rw [W.touch_cnt, W.inc_ok w i hok j, h j, count_append_single_int]; omega)
      simpa [List.append_assoc] using ih
    · have hf : (W.incRef w i).2 = false := by simpa using hok
      simp only [hf, Bool.false_eq_true, if_false]
      refine ⟨by simp, fun _ => ?_⟩
      exact unwind_all W c0 h0 tt _ (fun j => by rw [W.inc_fail w i hf j]; exact h j)

/-- **The TTL filter of `database.SelectSegments` gives back the pin of every segment it drops** and
keeps exactly the pin of every segment it returns: if the caller owns one pin per element of
`kept ++ segs` (what `selectSegments` handed over), afterwards it owns one per element of the
returned list, which is `kept` followed by the non-expired elements of `segs`. -/
theorem filterLoop_no_leak {σ : Type} (W : PinWorld σ) (expired : Nat → Bool) (c0 : Nat → Int) (h0 : ∀ j, 0 ≤ c0 j) :
    ∀ (segs : List Nat) (w : σ) (kept : List Nat),
      (∀ j, W.cnt w j = c0 j + kept.count j + segs.count j) →
      (filterLoop W.decRef expired w segs kept).2 = kept ++ segs.filter (fun i => !expired i) ∧
      ∀ j, W.cnt (filterLoop W.decRef expired w segs kept).1 j =
        c0 j + ((filterLoop W.decRef expired w segs kept).2.count j : Int)
  | [], w, kept, h => by
    simp only [filterLoop]
    refine ⟨by simp, fun j => ?_⟩
    have := h j; simp at this; exact this
  | i :: rest, w, kept, h => by
    simp only [filterLoop]
    by_cases he : expired i = true
    · simp only [he, if_true]
      have hpos : 0 < W.cnt w i := by
        have := h i; rw [count_cons_int] at this; simp at this
        have := h0 i
        have h1 : (0 : Int) ≤ (List.count i kept : Int) := Int.natCast_nonneg _
        have h2 : (0 : Int) ≤ (List.count i rest : Int) := Int.natCast_nonneg _
        omega
      have ih := filterLoop_no_leak W expired c0 h0 rest (W.decRef w i) kept (by
        intro j
        rw [W.dec w i hpos j, h j, count_cons_int]; omega)
      simpa [he] using ih
    · have hf : expired i = false := by simpa using he
      simp only [hf, Bool.false_eq_true, if_false]
      have ih := filterLoop_no_leak W expired c0 h0 rest w (kept ++ [i]) (by
        intro j
        rw [h j, count_cons_int, count_append_single_int]; omega)
      simpa [hf, List.append_assoc] using ih

/-- the same for the repaired `segments(ctx, true)` of the rotation tick -/
theorem segmentsLoop_no_leak {σ : Type} (W : PinWorld σ) (c0 : Nat → Int) (h0 : ∀ j, 0 ≤ c0 j) :
    ∀ (ids : List Nat) (w : σ) (tt : List Nat), (∀ j, W.cnt w j = c0 j + tt.count j) →
      (∀ tt', (segmentsLoop W.incRef W.decRef w ids tt).2 = some tt' →
        tt' = tt ++ ids ∧ ∀ j, W.cnt (segmentsLoop W.incRef W.decRef w ids tt).1 j = c0 j + tt'.count j) ∧
      ((segmentsLoop W.incRef W.decRef w ids tt).2 = none →
        ∀ j, W.cnt (segmentsLoop W.incRef W.decRef w ids tt).1 j = c0 j)
  | [], w, tt, h => by
    simp only [segmentsLoop]
    refine ⟨?_, by simp⟩
    intro tt' e; simp at e; subst e; simp; exact h
  | i :: rest, w, tt, h => by
    simp only [segmentsLoop]
    by_cases hok : (W.incRef w i).2 = true
    · simp only [hok, if_true]
      have ih := segmentsLoop_no_leak W c0 h0 rest (W.incRef w i).1 (tt ++ [i]) (by
        intro j
        rw [W.inc_ok w i hok j, h j, count_append_single_int]; omega)
      simpa [List.append_assoc] using ih
    · have hf : (W.incRef w i).2 = false := by simpa using hok
      simp only [hf, Bool.false_eq_true, if_false]
      refine ⟨by simp, fun _ => ?_⟩
      exact unwind_all W c0 h0 tt _ (fun j => by rw [W.inc_fail w i hf j]; exact h j)

/-- **`no_leak`**, the per-segment part in one statement: in every reachable state a thread whose
`incRef` just failed owns exactly what it owned before; an owner's `DecRef` really releases; and when
every thread has released everything, `refCount = 0` (so `unreferenced_reclaimable` applies:
idle-close and retention are not blocked).  The multi-segment part is `selectLoop_no_leak` /
`segmentsLoop_no_leak`. -/
theorem no_leak {s : State} (h : Reachable s) :
    (∀ (t : Nat) (th : Th), s.ts[t]? = some th → th.pc = .idle →
      (th.res = .closedErr ∨ th.res = .initErr) → th.holds = th.base) ∧
    (∀ (t : Nat) (th : Th) (own : Bool), s.ts[t]? = some th → th.pc = .drLoad own → own = true ∧ s.sh.rc > 0) ∧
    ((∀ th ∈ s.ts, th.holds = 0) → s.sh.rc = 0) :=
  ⟨fun _ _ hg hpc => (incRef_fail_no_count h hg hpc).1,
   fun _ _ own hg hpc => (decRef_always_releases h hg).1 own hpc,
   all_released_rc_zero h⟩

/-! ## 5. `idle_reopen_transparent` -/

/-- **closeIfIdle followed by incRef gives back an open segment with the same directory, flag and
a single reference** (what is *in* the directory is C04/C01); during the closed phase only
`isOpen` differs. -/
theorem idle_reopen_transparent (t u : Tid) (dir down : Bool) (la thr : Int) (hla : la < thr)
    (holds base : Nat) (res : Res) (flag : Bool) (th2 : Th) (h2 : th2.pc = .idle) :
    ∃ shc thc, callTh t (.closeIfIdle thr) true ⟨0, true, false, dir, la, none, 0, down⟩ ⟨.idle, holds, base, res, flag⟩
        = some (shc, thc) ∧
      shc = ⟨0, false, false, dir, la, none, 0, down⟩ ∧
      ∃ th2', callTh u .incRef true shc th2 = some (⟨1, true, false, dir, la, none, 0, down⟩, th2') ∧
        th2'.holds = th2.holds + 1 ∧ th2'.res = .ok := by
  refine ⟨_, _, closeIfIdle_closes t true dir la down holds base res flag thr hla, rfl, ?_⟩
  obtain ⟨pc, holds2, base2, res2, flag2⟩ := th2
  simp at h2; subst h2
  exact ⟨_, incRef_reopen .., rfl, rfl⟩

/-- atomic-step side of it: the steps of `closeIfIdle` never touch `refCount`, the delete flag or
the directory. -/
theorem closeIfIdle_steps_keep {t : Nat} {sh sh' : Shared} {th th' : Th} {ok : Bool}
    (hpc : th.pc = .ciClose ∨ ∃ thr, th.pc = .ciLock thr ∨ th.pc = .ciIdx thr ∨ th.pc = .ciRc thr ∨
      th.pc = .ciMbd thr ∨ th.pc = .ciLa thr)
    (hs : tstep t sh th .incRef ok = some (sh', th')) :
    sh'.rc = sh.rc ∧ sh'.mbd = sh.mbd ∧ sh'.dir = sh.dir ∧ sh'.la = sh.la := by
  obtain ⟨pc, holds, base, res, flag⟩ := th
  rcases hpc with h | ⟨thr, h | h | h | h | h⟩ <;> simp at h <;> subst h <;> simp only [tstep] at hs <;>
    (try split at hs) <;> simp at hs <;> obtain ⟨rfl, rfl⟩ := hs <;> simp

/-! ## 6. several segments -/

/-- a controller with any number of segments: every step is a step of one segment's system -/
inductive MReach : (Nat → State) → Prop
  | init : MReach (fun _ => State.init)
  | step {m : Nat → State} (i : Nat) (l : Label) {s' : State} : MReach m → l.fair = true →
      (m i).step l = some s' → MReach (fun j => if j = i then s' else m j)

/-- the invariant (hence every theorem above) holds for each segment of a multi-segment run -/
theorem inv_reachable_multi {m : Nat → State} (h : MReach m) : ∀ i, Reachable (m i) ∧ Inv false (m i) := by
  have : ∀ i, Reachable (m i) := by
    induction h with
    | init => intro _; exact Reach.init
    | step i l _ hf hs ih =>
      intro j
      by_cases e : j = i
      · subst e; simp; exact Reach.step l (ih _) (Or.inr hf) hs
      · simp [e]; exact ih j
  exact fun i => ⟨this i, inv_reachable (this i)⟩

/-! ## 7. the callers as written: counterexample schedules (legacy system) -/

/-- thread `t` takes its next atomic step -/
abbrev go (t : Tid) : Label := .step t .incRef true

/-- `selectSegments(…, false)` / `segments(false)` callers as written: T0 peeks a dormant segment
(not pinned), T1 (a query) acquires it, T0 issues the DecRef it "owes", T2 (idle reclaimer) closes
the segment – while T1 still owns its reference. -/
def legacySteal : List Label :=
  [.spawn, .spawn, .spawn,
   .step 0 .peek true, go 0,                                            -- T0: refCount = 0 → not pinned
   .step 1 .incRef true, go 1, go 1, go 1, go 1, go 1, go 1, go 1,      -- T1: incRef → acquire, 0 → 1
   .step 0 .decRefStray true, go 0, go 0, go 0,                         -- T0: DecRef of the unpinned segment
   .step 2 (.closeIfIdle 1) true, go 2, go 2, go 2, go 2, go 2, go 2, go 2]  -- T2: closeIfIdle closes it

/-- **Counterexample (finding F14a)**: with the stray DecRef admitted, a thread owns a reference
(`holds = 1`, it is between incRef and DecRef) while the segment is closed and `refCount = 0`. -/
theorem legacy_use_after_close :
    (run State.init legacySteal).map (fun s => (s.sh.isOpen, s.sh.rc, s.sh.down, s.ts.map (·.holds))) =
      some (false, 0, false, [0, 1, 0]) := by decide

theorem legacySteal_reach : Reach true (endOf legacySteal) ∧ (endOf legacySteal).sh.down = false ∧
    (endOf legacySteal).sh.isOpen = false ∧ ((endOf legacySteal).ts[1]?.map (·.holds)) = some 1 :=
  ⟨reach_endOf true legacySteal (fun _ _ => Or.inl rfl) (by decide), by decide, by decide, by decide⟩

/-- the same end state satisfies everything that is proved for the code as written (`Inv true`):
what F14a breaks is exactly `refCount = holders` (here `0` vs `1`) and with it `no_use_after_close`. -/
theorem legacySteal_inv : Inv true (endOf legacySteal) ∧ (endOf legacySteal).sh.rc = 0 ∧ holders (endOf legacySteal) = 1 :=
  ⟨inv_reachable legacySteal_reach.1, by decide, by decide⟩

/-- a two-segment world for the loop counterexample: pins owned per segment; `incRef` fails on
segment 1 -/
def demoWorld : PinWorld (Nat → Int) where
  incRef w i := if i = 1 then (w, false) else (fun j => if j = i then w j + 1 else w j, true)
  decRef w i := fun j => if j = i then w j - 1 else w j
  touch w _ := w
  cnt w j := w j
  inc_ok w i h j := by
    by_cases e : i = 1
    · simp [e] at h
    · simp [e]; split <;> simp
  inc_fail w i h j := by
    by_cases e : i = 1
    · simp [e]
    · simp [e] at h
  dec w i _ j := by simp; split <;> simp
  touch_cnt _ _ _ := rfl

/-- **Counterexample (finding F14b)**: `segments(ctx, true)` as written returns on the first
failing `incRef` and keeps the pin it took on segment 0; the repaired loop gives it back. -/
theorem legacy_segments_leak :
    (segmentsLoop_legacy demoWorld.incRef (fun _ => 0) [0, 1, 2] []).1 0 = 1 ∧
    (segmentsLoop_legacy demoWorld.incRef (fun _ => 0) [0, 1, 2] []).2 = none ∧
    (segmentsLoop demoWorld.incRef demoWorld.decRef (fun _ => 0) [0, 1, 2] []).1 0 = 0 := by decide

/-! ## 8. non-vacuity: concrete reachable states satisfying the hypotheses above -/

/-- T0 acquires; T1 deletes (flag only, T0 owns a reference); T0 releases (last release → delete) -/
def demoDelete : List Label :=
  [.spawn, .spawn,
   .step 0 .incRef true, go 0, go 0, go 0, go 0, go 0, go 0, go 0,
   .step 1 .delete true, go 1, go 1,
   .step 0 .decRef true, go 0, go 0, go 0, go 0, go 0, go 0, go 0, go 0]

def demoDeleted : State := endOf demoDelete

theorem demoDeleted_reachable : Reachable demoDeleted :=
  reach_endOf false demoDelete (fun l hl => Or.inr (by revert l; decide)) (by decide)

/-- the hypotheses of `no_resurrection` / `acquire_after_delete_fails` are satisfiable -/
example : demoDeleted.sh.dir = false ∧ demoDeleted.sh.down = false ∧ demoDeleted.sh.mbd = true := by decide

/-- a reachable state with an owner (hypotheses of `no_use_after_close`), flagged while owned
(first half of `delete_at_last_release`) -/
def demoHeld : State := endOf (demoDelete.take 13)

example : Reachable demoHeld ∧ demoHeld.sh.down = false ∧ demoHeld.sh.mbd = true ∧ demoHeld.sh.rc = 1 ∧
    (demoHeld.ts[0]?.map (·.holds)) = some 1 ∧ demoHeld.sh.dir = true :=
  ⟨reach_endOf false _ (fun l hl => Or.inr (by revert l; decide)) (by decide),
    by decide, by decide, by decide, by decide, by decide⟩

/-- a reachable state in which a thread is committed to the delete (second half) -/
example : ((run State.init (demoDelete.take 16)).map fun s =>
    (s.sh.mbd, s.sh.dir, s.sh.rc, s.ts.map (fun th => pend th.pc))) = some (true, true, 0, [true, false]) := by decide

/-- `filterLoop_no_leak`: segments 0 and 1 expired, all three pinned → only the pin on 2 remains -/
example : filterLoop demoWorld.decRef (fun i => i < 2) (fun _ => 1) [2, 1, 0] [] = ((fun j => if j = 0 then 0 else if j = 1 then 0 else 1), [2]) := by
  refine Prod.ext ?_ rfl
  funext j
  simp [filterLoop, demoWorld]
  by_cases h0 : j = 0 <;> by_cases h1 : j = 1 <;> simp_all

/-- `selectLoop_no_leak` on a world where the second `incRef` fails -/
example : (selectLoop demoWorld.incRef demoWorld.decRef demoWorld.touch (fun _ => 0) [0, 1, 2] []).2 = none ∧
    (selectLoop demoWorld.incRef demoWorld.decRef demoWorld.touch (fun _ => 0) [0, 1, 2] []).1 0 = 0 := by decide

end Banyan.C14
