/-
C15 — theorems about the model in `Banyan/Model/C15.lean`.

  * `frame_roundtrip`: for every well-formed `RecordBatch` shape, `Decode (Encode b)` is `normalize b` (the active rows
    in selection order, null slots cleared) — for any codec whose wire maps invert each other; instantiated for the
    measure and the stream binding.  Zero-column batches with more rows than header bytes are excluded, and
    `frame_roundtrip_zero_cols_counterexample` shows that the exclusion is necessary (finding F15z).
  * `frame_decoder_total` / `frame_decoder_alloc_bound`: on arbitrary bytes the decoder never takes an out-of-range
    slice (no Go panic) and the element counts of all its allocations sum to at most `6 * len(b)`.
  * `dispatch_*`: the dispatcher's decision is total, falls through exactly when the flag is off, accepts exactly the
    shapes of the documented support predicate.
-/
import Banyan.Lemmas.C15Roundtrip
import Banyan.Lemmas.C15Decode
import Banyan.Lemmas.C15Dispatch

namespace Banyan.C15

/-! ## the frame -/

/-- `Encode` succeeds on every well-formed batch -/
theorem frame_encode_ok {cd ok} (hcd : CodecOk cd) (b : Batch) (hw : WF cd ok b) : ∃ bytes, encode cd b = .ok bytes := by
  obtain ⟨body, hb, _⟩ := decodeCols_rt hcd (activeRows b) b.defs b.cols hw.pairs []
  exact ⟨header cd (activeRows b).length b.defs.length ++ body, by simp [encode, hb]⟩

/-- **Frame round trip.** `Decode (Encode b) = normalize b` for every well-formed `RecordBatch` shape: any column
types and roles the codec maps, any validity bitmaps, any selection vector (including repeated and out-of-range row
indices), columns shorter or longer than `Len`. -/
theorem frame_roundtrip {cd ok} (hcd : CodecOk cd) (b : Batch) (hw : WF cd ok b) (bytes : List Byte)
    (he : encode cd b = .ok bytes) : decode cd ok bytes = .ok (normalize b) := by
  obtain ⟨body, hb, hl2, hln, hdec⟩ := decodeCols_rt hcd (activeRows b) b.defs b.cols hw.pairs []
  simp only [encode, hb] at he
  cases he
  unfold decode decodeFull
  have hb1 : (activeRows b).length ≤ (header cd (activeRows b).length b.defs.length ++ body).length := by
    rcases hw.nonempty with h | h
    · have := hln h; simp only [List.length_append]; omega
    · have h1 := putUvarint_length_pos (activeRows b).length
      have h2 := putUvarint_length_pos b.defs.length
      simp [header, hcd.magic_len]; omega
  rw [validateHeader_rt hcd _ _ body hw.nrows hw.ncols hb1 (by omega)]
  simp only
  rw [List.append_nil] at hdec
  generalize hg : decodeCols cd ok (activeRows b).length b.defs.length body = g at hdec
  obtain ⟨g1, g2⟩ := g
  simp only at hdec
  subst hdec
  simp only [ne_eq, not_true_eq_false, if_false, normalize]
  have hlen := pairs_length hw.pairs
  congr 1
  simp only [List.map_map]
  congr 1
  · rw [show ((fun x => x.1) ∘ fun (p : ColDef × Column) => (p.1, (⟨p.2.typ, (activeRows b).map (normCell p.2)⟩ : Column))) = (fun p => p.1) from rfl]
    exact List.map_fst_zip (by omega)
  · rw [show ((fun x => x.2) ∘ fun (p : ColDef × Column) => (p.1, (⟨p.2.typ, (activeRows b).map (normCell p.2)⟩ : Column)))
        = ((fun c : Column => (⟨c.typ, (activeRows b).map (normCell c)⟩ : Column)) ∘ fun p => p.2) from rfl]
    rw [← List.map_map, List.map_snd_zip (by omega)]

theorem measureCodec_ok : CodecOk measureCodec := by
  refine ⟨rfl, ?_, ?_, ?_⟩
  · intro r w h; cases r <;> simp [measureCodec] at h <;> subst h <;> rfl
  · intro t w h; cases t <;> simp [measureCodec] at h <;> subst h <;> rfl
  · intro t w h; cases t <;> simp [measureCodec] at h <;> simp [ColType.kind]

theorem streamCodec_ok : CodecOk streamCodec := by
  refine ⟨rfl, ?_, ?_, ?_⟩
  · intro r w h; cases r <;> simp [streamCodec] at h <;> subst h <;> rfl
  · intro t w h; cases t <;> simp [streamCodec] at h <;> subst h <;> rfl
  · intro t w h; cases t <;> simp [streamCodec] at h <;> simp [ColType.kind]

theorem frame_roundtrip_measure {ok} (b : Batch) (hw : WF measureCodec ok b) :
    ∃ bytes, encode measureCodec b = .ok bytes ∧ decode measureCodec ok bytes = .ok (normalize b) := by
  obtain ⟨bytes, he⟩ := frame_encode_ok measureCodec_ok b hw
  exact ⟨bytes, he, frame_roundtrip measureCodec_ok b hw bytes he⟩

theorem frame_roundtrip_stream {ok} (b : Batch) (hw : WF streamCodec ok b) :
    ∃ bytes, encode streamCodec b = .ok bytes ∧ decode streamCodec ok bytes = .ok (normalize b) := by
  obtain ⟨bytes, he⟩ := frame_encode_ok streamCodec_ok b hw
  exact ⟨bytes, he, frame_roundtrip streamCodec_ok b hw bytes he⟩

/-! ### non-vacuity: a concrete batch with a selection vector, nulls, a short column and a nil message pointer -/

def sampleBatch : Batch :=
  { defs := [⟨.timestamp, .int64, [], []⟩, ⟨.tag, .string, [115, 118, 99], [100]⟩, ⟨.field, .fieldValue, [118], []⟩],
    cols := [⟨.int64, [⟨false, .fixed 5⟩, ⟨true, .fixed 7⟩, ⟨false, .fixed (W64 - 1)⟩]⟩,
             ⟨.string, [⟨false, .var [97]⟩, ⟨true, .var [98]⟩]⟩,
             ⟨.fieldValue, [⟨false, .ptr none⟩, ⟨false, .ptr (some [26, 2, 8, 3])⟩, ⟨true, .ptr (some [8, 0])⟩]⟩],
    sel := some [2, 0, 1, 1, 9], len := 3 }

theorem sampleBatch_wf : WF measureCodec (fun _ => true) sampleBatch := by
  refine ⟨?_, by decide, by decide, Or.inl (by decide)⟩
  refine .cons ⟨rfl, rfl, rfl, by decide, by decide, ?_⟩ (.cons ⟨rfl, rfl, rfl, by decide, by decide, ?_⟩
    (.cons ⟨rfl, rfl, rfl, by decide, by decide, ?_⟩ .nil))
  all_goals
    intro x hx
    simp at hx
    rcases hx with rfl | rfl | rfl <;> simp [CellOk] <;> decide

example : ∃ bytes, encode measureCodec sampleBatch = .ok bytes ∧
    decode measureCodec (fun _ => true) bytes = .ok (normalize sampleBatch) :=
  frame_roundtrip_measure sampleBatch sampleBatch_wf

/-- **F15z.** The decoder's `NumRows <= len(frame)` guard assumes that every row costs a byte; a batch without columns
does not, so `Decode` refuses what `Encode` produced: the exclusion in `WF.nonempty` is necessary. -/
theorem frame_roundtrip_zero_cols_counterexample :
    encode measureCodec ⟨[], [], none, 8⟩ = .ok [0, 86, 70, 82, 3, 8, 0] ∧
    decode measureCodec (fun _ => true) [0, 86, 70, 82, 3, 8, 0] = .err .trunc := by
  refine ⟨?_, by decide⟩
  simp [encode, encodeCols, header, activeRows, measureCodec, putUvarint_small]

/-! ## the decoder on arbitrary bytes -/

/-- **The decoder is total**: no input makes `Decode` take an out-of-range slice (Go: no panic). -/
theorem frame_decoder_total (cd : Codec) (ok : List Byte → Bool) (b : List Byte) : decode cd ok b ≠ .panic := by
  unfold decode decodeFull
  have hv := validateHeader_spec cd b
  cases e : validateHeader cd b with
  | panic => exact absurd e hv.1
  | err e => simp
  | ok p =>
    obtain ⟨h, rest⟩ := p
    dsimp only
    have hc := decodeCols_spec cd ok h.nrows h.ncols rest
    generalize decodeCols cd ok h.nrows h.ncols rest = g at hc
    obtain ⟨r, a⟩ := g
    dsimp only at hc ⊢
    cases r with
    | panic => exact absurd rfl hc.1
    | err e => simp
    | ok q =>
      obtain ⟨l, tail⟩ := q
      dsimp only
      split <;> simp

/-- **Bounded allocation**: the element counts of every slice/column the decoder allocates (`defs`, `cols`, and the
validity vector and data slice of each column it starts) sum to at most six times the frame length, whatever
`NumRows` / `NumCols` the header claims. -/
theorem frame_decoder_alloc_bound (cd : Codec) (ok : List Byte → Bool) (b : List Byte) :
    (decodeFull cd ok b).2 ≤ 6 * b.length := by
  unfold decodeFull
  have hv := validateHeader_spec cd b
  cases e : validateHeader cd b with
  | panic => simp
  | err e => simp
  | ok p =>
    obtain ⟨h, rest⟩ := p
    have hb := hv.2 h rest e
    dsimp only
    have hc := decodeCols_spec cd ok h.nrows h.ncols rest
    generalize decodeCols cd ok h.nrows h.ncols rest = g at hc
    obtain ⟨r, a⟩ := g
    dsimp only at hc ⊢
    omega

/-! ## dispatch -/

/-- the decision is a total function of (flag, context, schema, request shape): one of three outcomes -/
theorem dispatch_total (e : Env) (s : DSchema) (r : Shape) :
    dispatch e s r = .fallthrough ∨ dispatch e s r = .accept ∨ ∃ x, dispatch e s r = .reject x := by
  cases h : dispatch e s r with
  | fallthrough => exact Or.inl rfl
  | accept => exact Or.inr (Or.inl rfl)
  | reject x => exact Or.inr (Or.inr ⟨x, rfl⟩)

/-- "The ONLY legitimate fall-through to the row path is flag-off." -/
theorem dispatch_fallthrough_iff (e : Env) (s : DSchema) (r : Shape) :
    dispatch e s r = .fallthrough ↔ e.enabled = false := by
  unfold dispatch
  cases he : e.enabled
  · simp
  · simp only [Bool.not_true, Bool.false_eq_true, if_false]
    cases e.ctxOk <;> simp
    split <;> simp

theorem dispatch_accept_iff (e : Env) (s : DSchema) (r : Shape) :
    dispatch e s r = .accept ↔
      e.enabled = true ∧ e.ctxOk = true ∧ e.critOk = true ∧ e.storageOk = true ∧
      projCheck s r = none ∧ orderCheck s r = none ∧ gbCheck s r = none ∧ aggCheck s r = none ∧ aggFnCheck r = none ∧
      topCheck r = none := by
  unfold dispatch
  cases e.enabled <;> cases e.ctxOk <;> cases e.critOk <;> cases e.storageOk <;>
    cases projCheck s r <;> cases orderCheck s r <;> cases gbCheck s r <;> cases aggCheck s r <;>
    cases aggFnCheck r <;> cases topCheck r <;> simp [firstSome]

/-- every shape the dispatcher accepts satisfies the support predicate its analyzer documents -/
theorem dispatch_accept_supported (e : Env) (s : DSchema) (r : Shape) (h : dispatch e s r = .accept) : supported s r := by
  obtain ⟨_, _, _, _, h1, h2, h3, h4, h5, h6⟩ := (dispatch_accept_iff e s r).mp h
  have p := (projCheck_none_iff s r).mp h1
  exact ⟨p.1, p.2, (orderCheck_none_iff s r).mp h2, (gbCheck_none_iff s r).mp h3,
    (aggChecks_none_iff s r).mp ⟨h4, h5⟩, (topCheck_none_iff r).mp h6⟩

/-- and, flag on with a complete runtime context, criteria the index layer accepts and a storage that answers,
every supported shape is accepted: the dispatcher rejects nothing the predicate admits -/
theorem dispatch_supported_accept (e : Env) (s : DSchema) (r : Shape)
    (he : e.enabled = true) (hc : e.ctxOk = true) (hq : e.critOk = true) (hs : e.storageOk = true)
    (h : supported s r) : dispatch e s r = .accept := by
  obtain ⟨h1, h2, h3, h4, h5, h6⟩ := h
  have ha := (aggChecks_none_iff s r).mpr h5
  exact (dispatch_accept_iff e s r).mpr ⟨he, hc, hq, hs, (projCheck_none_iff s r).mpr ⟨h1, h2⟩,
    (orderCheck_none_iff s r).mpr h3, (gbCheck_none_iff s r).mpr h4, ha.1, ha.2, (topCheck_none_iff r).mpr h6⟩

/-- non-vacuity: a group+aggregate+top request over a two-family schema is supported, hence accepted -/
example : dispatch ⟨true, true, true, true⟩
    ⟨[("default", ["svc", "k"]), ("extra", ["z"])], ["v", "f"], [("rk", false), ("rz", true)]⟩
    ⟨some [("default", ["svc"])], some ["v"], some "rk", some [("default", ["svc", "k"])], some (.sum, "f"), some "f"⟩ = .accept := by
  decide

example : dispatch ⟨true, true, true, true⟩
    ⟨[("default", ["svc", "k"]), ("extra", ["z"])], ["v", "f"], [("rk", false), ("rz", true)]⟩
    ⟨some [("default", ["svc"])], some ["v"], some "rz", none, none, none⟩ = .reject .order := by
  decide

end Banyan.C15
