/-
C16 — Shard and node placement is deterministic and replica-disjoint.
Property theorems only (about the model in Banyan/Model/C16.lean); helper lemmas live in
Banyan/Lemmas/{OrderC16,SelectorC16}.lean.

Vocabulary (defined next to the model):
  `Topo`            the topology a coordinator has been told about: shard count and replica count per group, live nodes
  `topoOf es`       the topology after the event sequence `es` (pure set/function semantics, no lists, no sorting)
  `Topo.Same`       same shards (with replica counts) and same live nodes
  `run es`          the selector state after `es` – the model of round_robin.go with the repaired `AddNode`
  `run_legacy es`   the same with `AddNode` as written at the pinned commit (finding F4)
  `Canon T st`      both tables of `st` are strictly sorted and contain exactly the topology `T`
  `Event.WF`        a registry listing handed to `OnInit` never names a (valid) group twice
-/
import Banyan.Model.C16
import Banyan.Lemmas.OrderC16
import Banyan.Lemmas.SelectorC16
import Banyan.Lemmas.SpecLocatorC16

namespace Banyan.C16

/-! ## 1. the shard of a write -/

theorem shardID_eq (hash n : Nat) : shardID hash n = if n < 1 then none else some (hash % n) := rfl

/-- `ShardID`: for a shard count `n ≥ 1` the result exists and lies in `[0, n)`, whatever the hash. -/
theorem shard_in_range (hash n : Nat) (hn : 1 ≤ n) : ∃ s, shardID hash n = some s ∧ s < n := by
  refine ⟨hash % n, ?_, Nat.mod_lt _ hn⟩
  rw [shardID_eq, if_neg (by omega)]

example : ∃ s, shardID 0xe0d97d9a03131d7d 7 = some s ∧ s < 7 := shard_in_range _ 7 (by decide)

/-- `ShardID` answers the "invalid shardNum" error exactly for a zero shard count. -/
theorem shard_error_iff (hash n : Nat) : shardID hash n = none ↔ n = 0 := by
  rw [shardID_eq]
  constructor
  · intro h
    split at h
    · omega
    · cases h
  · intro h; subst h; rfl

/-- `TraceShardID` is in range for `n ≥ 1` (and answers 0 for `n = 0`). -/
theorem traceShard_in_range (hash n : Nat) (hn : 1 ≤ n) : traceShardID hash n < n := by
  simp only [traceShardID]
  rw [if_neg (by omega)]
  exact Nat.mod_lt _ hn

/-- `Locate`/`ApplyLocators` (entity or sharding-key routed) never leave the range, for any hash function. -/
theorem applyLocators_in_range (hash : List Byte → Nat) (subject : List Byte) (vals : List C12.TagValue)
    (sk : Option Nat) (n s : Nat) (h : applyLocators hash subject vals sk n = some s) : s < n := by
  have aux : ∀ vs, locate hash subject vs n = some s → s < n := by
    intro vs h
    simp only [locate] at h
    rw [shardID_eq] at h
    split at h
    · cases h
    · injection h with h; subst h; exact Nat.mod_lt _ (by omega)
  simp only [applyLocators] at h
  split at h
  · cases h
  next s' hs' =>
    cases sk with
    | none => simp only at h; injection h with h; subst h; exact aux _ hs'
    | some k => exact aux _ h

example : applyLocators xxhash64 [109, 49] [.str [97, 98], .int 5] (some 1) 5 = some 0 := by decide

/-! ### writes that carry their own tag layout -/

/-- A write that carries its own tag layout and the spec-less write of the same series (tags the spec does not carry
    are null) are routed identically: same entity values, same shard – for stream and measure, with or without a
    sharding key, for every hash function and shard count. -/
theorem specLocator_eq_schemaLocator (hash : List Byte → Nat) (schema spec : List FamSpec) (entity : List Name)
    (shardingKey : Option (List Name)) (v : Name → Name → C12.TagValue) (subject : List Byte) (shardNum : Nat)
    (hent : ∀ t ∈ entity, (findTagByName schema t).isSome = true)
    (hsk : ∀ sk, shardingKey = some sk → ∀ t ∈ sk, (findTagByName schema t).isSome = true)
    (hnd : (spec.map (·.name)).Nodup) :
    specNavigate hash schema spec entity shardingKey subject (specWrite spec v) shardNum =
      schemaNavigate hash schema entity shardingKey subject (refWrite schema spec v) shardNum := by
  simp only [specNavigate, schemaNavigate, specFind_carried schema spec entity v hent hnd,
    schemaFind_carried schema spec entity v hent]
  cases shardingKey with
  | none => rfl
  | some sk =>
    simp only [specFind_carried schema spec sk v (hsk sk rfl) hnd, schemaFind_carried schema spec sk v (hsk sk rfl)]

example : specNavigate xxhash64 [⟨[102], [[115], [105], [116]]⟩] [⟨[102], [[116], [115]]⟩] [[115], [105]] none [108] 
    (specWrite [⟨[102], [[116], [115]]⟩] fun _ t => .str t) 16 =
    schemaNavigate xxhash64 [⟨[102], [[115], [105], [116]]⟩] [[115], [105]] none [108] [[.str [115], .null, .str [116]]] 16 := by decide

/-! ## 2. the selector state is the canonical function of the final topology -/

/-- After ANY event sequence (adds, updates, deletes, re-initialisations, node adds/removes, repetitions, removes
    of absent nodes …) the selector state is the canonical state of the final topology: both tables strictly
    sorted, the lookup table holding exactly the shards of the known groups, the node table exactly the live nodes. -/
theorem selector_canonical (es : List Event) (hwf : ∀ e ∈ es, e.WF) : Canon (topoOf es) (run es) :=
  canon_foldl canon_empty es hwf

/-- There is only one canonical state per topology … -/
theorem canonical_unique {T₁ T₂ : Topo} {s₁ s₂ : Sel} (h₁ : Canon T₁ s₁) (h₂ : Canon T₂ s₂) (hT : T₁.Same T₂) :
    s₁ = s₂ := canon_unique h₁ h₂ hT

/-- `gs`/`ns` list the topology `T` (in any order). -/
def Lists (gs : List GroupSpec) (ns : List Name) (T : Topo) : Prop :=
  ((gs.filter fun g => g.valid).map (·.name)).Nodup ∧
  (∀ k, T.hasKey k ↔ ∃ sp ∈ gs, sp.valid = true ∧ k.group = sp.name ∧ k.shard < sp.shardNum ∧ k.replicas = sp.replicas) ∧
  ns.Nodup ∧ (∀ n, n ∈ ns ↔ T.node n = true)

/-- … and it is the function `canonOf` of ANY listing of the final topology: the state reached through a history of
    events equals the state computed directly from the set of groups and the set of nodes, in whatever order those
    are enumerated. -/
theorem selector_canonical_fn (es : List Event) (hwf : ∀ e ∈ es, e.WF) (gs : List GroupSpec) (ns : List Name)
    (hl : Lists gs ns (topoOf es)) : run es = canonOf gs ns := by
  obtain ⟨h1, h2, h3, h4⟩ := hl
  have hc : Canon (topoOf es) (canonOf gs ns) := by
    refine ⟨sortBy_strict keyLt keyLt_trans (initKeys_comparable h1), ?_, ?_, ?_⟩
    · intro k
      simp only [canonOf]
      rw [mem_sortBy, mem_initKeys, h2]
    · apply sortBy_strict lexLt lexLt_trans
      rw [List.nodup_iff_pairwise_ne] at h3
      exact h3.imp (fun {a b} hab => lexLt_total hab)
    · intro n
      simp only [canonOf]
      rw [mem_sortBy, h4]
  exact canon_unique (selector_canonical es hwf) hc ⟨fun _ => Iff.rfl, fun _ => rfl⟩

/-- Two coordinators that learned the same final topology through different histories hold the same state … -/
theorem order_independent (es₁ es₂ : List Event) (h₁ : ∀ e ∈ es₁, e.WF) (h₂ : ∀ e ∈ es₂, e.WF)
    (hT : (topoOf es₁).Same (topoOf es₂)) : run es₁ = run es₂ :=
  canon_unique (selector_canonical es₁ h₁) (selector_canonical es₂ h₂) hT

/-- … hence answer every `Pick` identically. -/
theorem pick_order_independent (es₁ es₂ : List Event) (h₁ : ∀ e ∈ es₁, e.WF) (h₂ : ∀ e ∈ es₂, e.WF)
    (hT : (topoOf es₁).Same (topoOf es₂)) (g : Name) (s r : Nat) :
    pick (run es₁) g s r = pick (run es₂) g s r := by
  rw [order_independent es₁ es₂ h₁ h₂ hT]

/-! ## 3. every shard of every known group is assigned -/

/-- On the canonical state of `T`: a shard `s < shards g` is assigned to a live node, for every replica index,
    as soon as one node is live. -/
theorem pick_total_canon {T : Topo} {st : Sel} (hc : Canon T st) (g : Name) (s r : Nat)
    (hs : s < T.shards g) (hn : st.nodes ≠ []) :
    ∃ n, pick st g s r = .node n ∧ T.node n = true := by
  have hk : ({ group := g, shard := s, replicas := T.replicas g } : Key) ∈ st.lookup :=
    (hc.lookup_mem _).mpr ⟨hs, rfl⟩
  obtain ⟨i, hi, hik⟩ := List.mem_iff_getElem.mp hk
  have hg : st.lookup[i].group = g := by rw [hik]
  have hsh : st.lookup[i].shard = s := by rw [hik]
  refine ⟨_, pick_of_mem hc.lookup_sorted hn hi hg hsh r, ?_⟩
  apply (hc.nodes_mem _).mp
  apply getD_mem
  exact Nat.mod_lt _ (List.length_pos_iff.mpr hn)

theorem pick_total (es : List Event) (hwf : ∀ e ∈ es, e.WF) (g : Name) (s r : Nat)
    (hs : s < (topoOf es).shards g) (hn : ∃ n, (topoOf es).node n = true) :
    ∃ n, pick (run es) g s r = .node n ∧ (topoOf es).node n = true := by
  have hc := selector_canonical es hwf
  obtain ⟨n, hn⟩ := hn
  have : n ∈ (run es).nodes := (hc.nodes_mem n).mpr hn
  exact pick_total_canon hc g s r hs (fun e => by rw [e] at this; cases this)

/-- Conversely nothing else is assigned: a shard outside the topology is "unknown", and without live nodes every
    pick is "no nodes available". -/
theorem pick_unknown (es : List Event) (hwf : ∀ e ∈ es, e.WF) (g : Name) (s r : Nat)
    (hs : ¬ s < (topoOf es).shards g) :
    pick (run es) g s r = .unknown ∨ pick (run es) g s r = .noNodes := by
  have hc := selector_canonical es hwf
  cases hp : pick (run es) g s r with
  | unknown => exact Or.inl rfl
  | noNodes => exact Or.inr rfl
  | node n =>
    exfalso
    obtain ⟨hi, hg, hsh, _, _⟩ := pick_node_imp hp
    have := (hc.lookup_mem _).mp (List.getElem_mem hi)
    rw [Topo.hasKey, hg, hsh] at this
    exact hs this.1

/-! ## 4. the copies of one shard are on distinct nodes -/

/-- Any state whose node table is duplicate-free places replica `r₁ ≠ r₂` of one shard on different nodes, as
    long as both replica indices are below the node count (`(i + r) mod n` is injective in `r` on `[0, n)`). -/
theorem replicas_disjoint_of_nodup (st : Sel) (hnd : st.nodes.Nodup) (g : Name) (s r₁ r₂ : Nat) (a b : Name)
    (hr : r₁ ≠ r₂) (h₁ : r₁ < st.nodes.length) (h₂ : r₂ < st.nodes.length)
    (ha : pick st g s r₁ = .node a) (hb : pick st g s r₂ = .node b) : a ≠ b := by
  obtain ⟨_, _, _, hne, ea⟩ := pick_node_imp ha
  obtain ⟨_, _, _, _, eb⟩ := pick_node_imp hb
  intro e
  have hpos : 0 < st.nodes.length := List.length_pos_iff.mpr hne
  have := getD_inj_of_nodup hnd (Nat.mod_lt _ hpos) (Nat.mod_lt _ hpos) (ea.symm.trans (e.trans eb))
  exact hr (add_mod_inj h₁ h₂ this)

/-- After any event sequence the node table is duplicate-free and is exactly the set of live nodes, so its length
    is the number of live nodes … -/
theorem nodes_exact (es : List Event) (hwf : ∀ e ∈ es, e.WF) :
    (run es).nodes.Nodup ∧ ∀ n, n ∈ (run es).nodes ↔ (topoOf es).node n = true :=
  ⟨nodes_nodup (selector_canonical es hwf).nodes_sorted, (selector_canonical es hwf).nodes_mem⟩

/-- … and the copies of a shard land on pairwise distinct nodes whenever enough nodes are live. -/
theorem replicas_disjoint (es : List Event) (hwf : ∀ e ∈ es, e.WF) (g : Name) (s r₁ r₂ : Nat) (a b : Name)
    (hr : r₁ ≠ r₂) (h₁ : r₁ < (run es).nodes.length) (h₂ : r₂ < (run es).nodes.length)
    (ha : pick (run es) g s r₁ = .node a) (hb : pick (run es) g s r₂ = .node b) : a ≠ b :=
  replicas_disjoint_of_nodup _ (nodes_exact es hwf).1 g s r₁ r₂ a b hr h₁ h₂ ha hb

/-- `LocateAll` on the canonical state: asking for `copies ≤ |live nodes|` copies of a shard of the topology yields
    exactly `copies` pairwise distinct live nodes. -/
theorem locateAll_distinct {T : Topo} {st : Sel} (hc : Canon T st) (g : Name) (s copies : Nat)
    (hs : s < T.shards g) (hcop : copies ≤ st.nodes.length) (hn : st.nodes ≠ []) :
    ∃ l, locateAll st g s copies = .ok l ∧ l.length = copies ∧ l.Nodup ∧ ∀ n ∈ l, T.node n = true := by
  have hk : ({ group := g, shard := s, replicas := T.replicas g } : Key) ∈ st.lookup :=
    (hc.lookup_mem _).mpr ⟨hs, rfl⟩
  obtain ⟨i, hi, hik⟩ := List.mem_iff_getElem.mp hk
  have hg : st.lookup[i].group = g := by rw [hik]
  have hsh : st.lookup[i].shard = s := by rw [hik]
  have hpos : 0 < st.nodes.length := List.length_pos_iff.mpr hn
  have hnd := nodes_nodup hc.nodes_sorted
  let f : Nat → Name := fun r => st.nodes.getD ((i + r) % st.nodes.length) []
  have hpick : ∀ r, pick st g s r = .node (f r) := fun r => pick_of_mem hc.lookup_sorted hn hi hg hsh r
  have hrs : (List.range copies).map (pick st g s) = (List.range copies).map (fun r => PickResult.node (f r)) :=
    List.map_congr_left (fun r _ => hpick r)
  have hfind : ((List.range copies).map (fun r => PickResult.node (f r))).find? (fun p => p.node?.isNone) = none := by
    rw [List.find?_eq_none]
    intro x hx
    obtain ⟨r, _, rfl⟩ := List.mem_map.mp hx
    simp [PickResult.node?]
  have hfm : ((List.range copies).map (fun r => PickResult.node (f r))).filterMap PickResult.node? =
      (List.range copies).map f := by
    rw [List.filterMap_map]
    induction (List.range copies) with
    | nil => rfl
    | cons a as ih => simp [PickResult.node?, ih]
  have hnames : ((List.range copies).map f).Nodup := by
    rw [List.nodup_iff_pairwise_ne, List.pairwise_map]
    have hr : (List.range copies).Pairwise (fun a b => a < b ∧ b < copies) := by
      have h1 : (List.range copies).Pairwise (fun a b => a < b) := List.pairwise_lt_range
      rw [List.pairwise_iff_getElem] at h1 ⊢
      intro a b ha hb hab
      refine ⟨h1 a b ha hb hab, ?_⟩
      have := List.getElem_mem hb
      exact List.mem_range.mp this
    refine hr.imp ?_
    intro a b ⟨hab, hb⟩ e
    have := getD_inj_of_nodup hnd (Nat.mod_lt _ hpos) (Nat.mod_lt _ hpos) e
    have := add_mod_inj (by omega) (by omega) this
    omega
  refine ⟨sortBy lexLt ((List.range copies).map f), ?_, ?_, ?_, ?_⟩
  · simp only [locateAll]
    rw [hrs, hfind, hfm, dedup_of_nodup hnames]
  · rw [length_sortBy, List.length_map, List.length_range]
  · apply nodes_nodup
    apply sortBy_strict lexLt lexLt_trans
    rw [List.nodup_iff_pairwise_ne] at hnames
    exact hnames.imp (fun {a b} hab => lexLt_total hab)
  · intro n hnm
    rw [mem_sortBy] at hnm
    obtain ⟨r, _, rfl⟩ := List.mem_map.mp hnm
    exact (hc.nodes_mem _).mp (getD_mem (Nat.mod_lt _ hpos))

theorem locateAll_total (es : List Event) (hwf : ∀ e ∈ es, e.WF) (g : Name) (s copies : Nat)
    (hs : s < (topoOf es).shards g) (hpos : 0 < copies) (hcop : copies ≤ (run es).nodes.length) :
    ∃ l, locateAll (run es) g s copies = .ok l ∧ l.length = copies ∧ l.Nodup ∧ ∀ n ∈ l, (topoOf es).node n = true :=
  locateAll_distinct (selector_canonical es hwf) g s copies hs hcop
    (fun e => by rw [e] at hcop; simp at hcop; omega)

/-! ### non-vacuity: a concrete history with churn, a repeated add, a remove of an absent node, an update that
    changes the shard count, a delete and a re-initialisation -/

def n1 : Name := [110, 49]
def n2 : Name := [110, 50]
def n3 : Name := [110, 51]
def gA : Name := [97]
def gB : Name := [98]

def sampleEs : List Event :=
  [.addNode n2 true, .addOrUpdate gB true 3 1, .addNode n1 true, .addNode n2 true, .removeNode n3,
   .addOrUpdate gA true 2 2, .addOrUpdate gB true 1 1, .addNode n3 true, .delete gA true, .removeNode n2,
   .init [⟨gA, true, 2, 1⟩, ⟨gB, false, 9, 9⟩], .addOrUpdate gB true 2 1, .addNode n2 false]

theorem sampleEs_wf : ∀ e ∈ sampleEs, e.WF := by
  intro e he
  simp only [sampleEs, List.mem_cons, List.not_mem_nil, or_false] at he
  rcases he with rfl | rfl | rfl | rfl | rfl | rfl | rfl | rfl | rfl | rfl | rfl | rfl | rfl <;>
    first | trivial | (simp only [Event.WF]; decide)

example : run sampleEs =
    { lookup := [⟨gA, 0, 1⟩, ⟨gA, 1, 1⟩, ⟨gB, 0, 1⟩, ⟨gB, 1, 1⟩], nodes := [n1, n3] } := by decide
example : pick (run sampleEs) gB 1 0 = .node n3 ∧ pick (run sampleEs) gB 1 1 = .node n1 := by decide
example : (topoOf sampleEs).shards gB = 2 ∧ (topoOf sampleEs).node n3 = true := by decide
example : (locateAll (run sampleEs) gB 1 2).toOption = some [n1, n3] := by decide

/-! ## 5. finding F4 — `AddNode` as written at the pinned commit -/

/-- same topology ({g: 2 shards, 1 replica}, {n1, n2}); the second coordinator saw `AddNode(n1)` twice -/
def legacyA : List Event := [.addOrUpdate gA true 2 1, .addNode n1 true, .addNode n2 true]
def legacyB : List Event := [.addNode n2 true, .addNode n1 true, .addNode n1 true, .addOrUpdate gA true 2 1]

theorem legacy_same_topology : (topoOf legacyA).Same (topoOf legacyB) := by
  constructor
  · intro k
    simp only [Topo.hasKey, topoOf, legacyA, legacyB, List.foldl_cons, List.foldl_nil, Topo.step, Topo.empty, upd]
  · intro n
    simp only [topoOf, legacyA, legacyB, List.foldl_cons, List.foldl_nil, Topo.step, Topo.empty, upd]
    by_cases h1 : n = n1 <;> by_cases h2 : n = n2 <;> simp [h1, h2]

/-- With the unrepaired `AddNode` the two coordinators disagree, both copies of shard 0 sit on `n1` although two
    nodes are live, and after ONE `RemoveNode(n1)` the second coordinator still routes to `n1`. -/
theorem addNode_legacy_counterexample :
    pick (run_legacy legacyA) gA 0 1 = .node n2 ∧
    pick (run_legacy legacyB) gA 0 1 = .node n1 ∧
    pick (run_legacy legacyB) gA 0 0 = .node n1 ∧
    pick (run_legacy (legacyB ++ [.removeNode n1])) gA 0 0 = .node n1 ∧
    (topoOf (legacyB ++ [.removeNode n1])).node n1 = false := by decide

/-- `order_independent` is false for the unrepaired function. -/
theorem order_independent_legacy_fails :
    ¬ ∀ es₁ es₂ : List Event, (∀ e ∈ es₁, e.WF) → (∀ e ∈ es₂, e.WF) → (topoOf es₁).Same (topoOf es₂) →
      run_legacy es₁ = run_legacy es₂ := by
  intro h
  have wfA : ∀ e ∈ legacyA, e.WF := by
    intro e he
    simp only [legacyA, List.mem_cons, List.not_mem_nil, or_false] at he
    rcases he with rfl | rfl | rfl <;> trivial
  have wfB : ∀ e ∈ legacyB, e.WF := by
    intro e he
    simp only [legacyB, List.mem_cons, List.not_mem_nil, or_false] at he
    rcases he with rfl | rfl | rfl | rfl <;> trivial
  have := h legacyA legacyB wfA wfB legacy_same_topology
  revert this
  decide

/-- The full statement for the unrepaired function (false, see above). -/
def orderIndependentLegacyStatement : Prop :=
  ∀ es₁ es₂ : List Event, (∀ e ∈ es₁, e.WF) → (∀ e ∈ es₂, e.WF) → (topoOf es₁).Same (topoOf es₂) →
    run_legacy es₁ = run_legacy es₂

/-- no `AddNode` of a node that is live at that moment -/
def DupFree : Topo → List Event → Prop
  | _, [] => True
  | T, e :: es => (∀ n, e = .addNode n true → T.node n = false) ∧ DupFree (T.step e) es

theorem legacy_foldl {T : Topo} {st : Sel} (h : Canon T st) (es : List Event) (hwf : ∀ e ∈ es, e.WF)
    (hd : DupFree T es) : es.foldl step_legacy st = es.foldl step st := by
  induction es generalizing T st with
  | nil => rfl
  | cons e es ih =>
    simp only [List.foldl_cons]
    have he : step_legacy st e = step st e := by
      cases e with
      | addNode n m =>
        cases m with
        | false => rfl
        | true =>
          have hn : T.node n = false := hd.1 n rfl
          have hnm : n ∉ st.nodes := by
            intro hm
            have := (h.nodes_mem n).mp hm
            rw [hn] at this; cases this
          simp [step_legacy, step, addNode_legacy, addNode, hnm]
      | addOrUpdate g v n r => rfl
      | delete g k => rfl
      | init gs => rfl
      | removeNode n => rfl
    rw [he]
    exact ih (canon_step h e (hwf e List.mem_cons_self)) (fun e' he' => hwf e' (List.mem_cons_of_mem _ he')) hd.2

/-- What does hold for the unrepaired function: on histories that never re-announce a live node it coincides with
    the repaired one, hence is canonical / order independent / replica-disjoint there. -/
theorem addNode_legacy_partial (es : List Event) (hwf : ∀ e ∈ es, e.WF) (hd : DupFree Topo.empty es) :
    run_legacy es = run es ∧ Canon (topoOf es) (run_legacy es) := by
  have := legacy_foldl canon_empty es hwf hd
  refine ⟨this, ?_⟩
  unfold run_legacy
  rw [this]
  exact selector_canonical es hwf

example : DupFree Topo.empty legacyA := by
  unfold legacyA
  refine And.intro ?_ (And.intro ?_ (And.intro ?_ trivial))
  · intro n h; cases h
  · intro n _; rfl
  · intro n h
    injection h with h
    subst h
    decide

end Banyan.C16
