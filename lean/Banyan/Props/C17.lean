/-
C17 — A cluster answers like a standalone node; part transfer is exact.

Theorems about the models of Banyan/Model/C17.lean (sender chunking, receiver session machine after
fixes/F17A.diff, liaison queue) and the composition statement. Helper lemmas: Banyan/Lemmas/C17*.lean.
-/
import Banyan.Lemmas.C17Live

namespace Banyan.C17

/-! ## 1. The sender's chunking reassembles every file (`chunks_concat`) -/

def keyOf (e : Ev) : Nat × String × String := (e.1, e.2.1, e.2.2.1)

/-- The bytes the chunk stream carries for the file `(part id, part type, file name)`, in stream order. -/
def bytesFor (k : Nat × String × String) (P : List Ev) : List Byte :=
  (P.filter fun e => keyOf e == k).flatMap (·.2.2.2)

theorem bytesFor_append (k : Nat × String × String) (a b : List Ev) :
    bytesFor k (a ++ b) = bytesFor k a ++ bytesFor k b := by
  simp [bytesFor, List.filter_append, List.flatMap_append]

theorem flatMap_congr' {α β : Type} {l : List α} {f g : α → List β} (h : ∀ x ∈ l, f x = g x) :
    l.flatMap f = l.flatMap g := by
  induction l with
  | nil => rfl
  | cons x xs ih =>
    simp only [List.flatMap_cons]
    rw [h x (by simp), ih (fun y hy => h y (by simp [hy]))]

theorem bytesFor_cons (k : Nat × String × String) (x : Ev) (xs : List Ev) :
    bytesFor k (x :: xs) = (if (keyOf x == k) = true then x.2.2.2 else []) ++ bytesFor k xs := by
  unfold bytesFor
  rw [List.filter_cons]
  by_cases h : (keyOf x == k) = true
  · rw [if_pos h, if_pos h, List.flatMap_cons]
  · rw [if_neg h, if_neg h, List.nil_append]

theorem bytesFor_pieces (k : Nat × String × String) (w : Ev) (ps : List (List Byte)) :
    bytesFor k (ps.map (mkEv w)) = if (keyOf w == k) = true then ps.flatten else [] := by
  induction ps with
  | nil => simp [bytesFor]
  | cons p ps ih =>
    have hk : keyOf (mkEv w p) = keyOf w := rfl
    rw [List.map_cons, bytesFor_cons, ih, hk]
    by_cases h : (keyOf w == k) = true
    · simp only [h, if_true, List.flatten_cons]; rfl
    · simp [h]

theorem refines_bytesFor {W P : List Ev} (h : Refines W P) (k : Nat × String × String) :
    bytesFor k P = bytesFor k W := by
  induction h with
  | nil => rfl
  | skip w hw _ ih =>
    rw [ih, bytesFor_cons, hw]
    by_cases hk : (keyOf w == k) = true <;> simp [hk]
  | cons w ps _ _ hfl _ ih =>
    rw [bytesFor_append, bytesFor_pieces, ih, hfl, bytesFor_cons]

theorem bytesFor_nodup (W : List Ev) (hnd : (W.map keyOf).Nodup) (e : Ev) (he : e ∈ W) :
    bytesFor (keyOf e) W = e.2.2.2 := by
  induction W with
  | nil => cases he
  | cons w W ih =>
    simp only [List.map_cons, List.nodup_cons] at hnd
    obtain ⟨hnotin, hnd'⟩ := hnd
    rw [bytesFor_cons]
    rcases List.mem_cons.mp he with rfl | hmem
    · have hrest : bytesFor (keyOf e) W = [] := by
        unfold bytesFor
        have : W.filter (fun x => keyOf x == keyOf e) = [] := by
          apply List.filter_eq_nil_iff.mpr
          intro x hx hxe
          apply hnotin
          have : keyOf x = keyOf e := by simpa using hxe
          rw [← this]
          exact List.mem_map_of_mem hx
        rw [this]; rfl
      rw [hrest]
      simp
    · have hne : ¬ (keyOf w == keyOf e) = true := by
        intro h
        apply hnotin
        have : keyOf w = keyOf e := by simpa using h
        rw [this]
        exact List.mem_map_of_mem hmem
      rw [if_neg hne, List.nil_append]
      exact ih hnd' hmem

theorem mem_fileStatesFrom (parts : List SPart) (i : Nat) (p : SPart) (hp : p ∈ parts) (f : SFile) (hf : f ∈ p.files) :
    (p.id, p.ptype, f.name, f.content) ∈ (fileStatesFrom i parts).map fev := by
  induction parts generalizing i with
  | nil => cases hp
  | cons q qs ih =>
    simp only [fileStatesFrom, List.map_append, List.mem_append]
    rcases List.mem_cons.mp hp with rfl | hq
    · left
      simp only [List.map_map, List.mem_map]
      exact ⟨f, hf, rfl⟩
    · right; exact ih (i + 1) hq

/-- The files of a part list as the sender sees them: `(part id, part type, name, content)`. -/
def senderFiles (parts : List SPart) : List Ev := (fileStates parts).map fev

/-- **chunks_concat.** For any file layout, any chunk size ≥ 1 and any legal reader behaviour, the pieces that
    the sender's chunks carry for a file, concatenated in stream order, are exactly the file's content
    (files are identified by part id, part type and name, which must be pairwise distinct). -/
theorem chunks_concat (cap : Nat) (hcap : 1 ≤ cap) (r : Reader) (parts : List SPart)
    (hnd : ((senderFiles parts).map keyOf).Nodup) (p : SPart) (hp : p ∈ parts) (f : SFile) (hf : f ∈ p.files) :
    bytesFor (p.id, p.ptype, f.name) ((senderChunks cap r parts).flatMap chunkEvents) = f.content := by
  have sf := senderFacts cap r hcap parts
  rw [refines_bytesFor sf.refines]
  have hmem := mem_fileStatesFrom parts 0 p hp f hf
  exact bytesFor_nodup (senderFiles parts) hnd (p.id, p.ptype, f.name, f.content) hmem

example : ((senderFiles [⟨1, "core", [⟨"a", [1, 2, 3]⟩, ⟨"b", [4]⟩]⟩, ⟨2, "core", [⟨"a", [5, 6]⟩]⟩]).map keyOf).Nodup := by
  decide

theorem refines_stream {W P : List Ev} (h : Refines W P) : P.flatMap (·.2.2.2) = W.flatMap (·.2.2.2) := by
  induction h with
  | nil => rfl
  | skip w hw _ ih => simp [List.flatMap_cons, hw, ih]
  | cons w ps _ _ hfl _ ih =>
    rw [List.flatMap_append, ih, List.flatMap_cons, ← hfl]
    congr 1
    simp [List.flatMap_map, mkEv, List.flatMap_id']

theorem senderFiles_stream (parts : List SPart) (i : Nat) :
    ((fileStatesFrom i parts).map fev).flatMap (·.2.2.2) = parts.flatMap fun p => p.files.flatMap (·.content) := by
  induction parts generalizing i with
  | nil => rfl
  | cons p ps ih =>
    simp only [fileStatesFrom, List.map_append, List.flatMap_append, ih (i + 1), List.flatMap_cons]
    congr 1
    simp [List.flatMap_map, fev]

/-- The chunk data, concatenated, is the concatenation of all files in order: nothing lost, nothing added. -/
theorem chunks_stream (cap : Nat) (hcap : 1 ≤ cap) (r : Reader) (parts : List SPart) :
    (senderChunks cap r parts).flatMap (·.data) = parts.flatMap fun p => p.files.flatMap (·.content) := by
  have sf := senderFacts cap r hcap parts
  have h1 : (senderChunks cap r parts).flatMap (·.data) =
      ((senderChunks cap r parts).flatMap chunkEvents).flatMap (·.2.2.2) := by
    rw [List.flatMap_assoc]
    exact flatMap_congr' fun c hc => (sf.good c hc).2.2.2.2.2
  rw [h1, refines_stream sf.refines]
  exact senderFiles_stream parts 0

/-- Every chunk the sender emits: consecutive index, valid checksum, non-empty data, metadata on chunk 0 only. -/
theorem senderChunks_wellformed (cap : Nat) (hcap : 1 ≤ cap) (r : Reader) (parts : List SPart) (j : Nat) (c : Chunk)
    (h : (senderChunks cap r parts)[j]? = some c) :
    c.index = j ∧ c.checksum = checksumOf c.data ∧ c.data ≠ [] ∧ c.hasMeta = (j == 0) ∧ c.versionOk = true := by
  have sf := senderFacts cap r hcap parts
  have hi := sf.index j c h
  obtain ⟨_, h2, h3, h4, h5, _⟩ := sf.good c (List.mem_of_getElem? h)
  exact ⟨hi, h2, h4, by rw [h5, hi], h3⟩

/-! ## 2. A transfer inside the window installs exactly the sender's files (`transfer_exact`) -/

/-- **transfer_exact.** `ds` is a delivery of the sender's chunks (all with the sender's checksums) whose index
    sequence the reorder window accepts (`Admissible`: chunk 0 first, each later chunk either the expected one
    or at most `maxGap` ahead with room in the buffer, nothing missing at the end), followed by the sender's
    completion. Then `SyncPart` succeeds, acknowledges SYNC_COMPLETE, and the shard holds its previous parts plus
    exactly the sender's parts (`installWhole`: files keyed by part type and name with the sender's bytes) –
    for every file layout, chunk size, reader behaviour and receiver configuration; no part is left open. -/
theorem transfer_exact (cfg : Cfg) (hl : cfg.legacy = false) (cap : Nat) (hcap : 1 ≤ cap) (r : Reader)
    (parts : List SPart) (inst0 : List IPart) (ds : List Chunk)
    (hmem : ∀ d ∈ ds, d ∈ senderChunks cap r parts)
    (hadm : Admissible cfg (senderChunks cap r parts).length (ds.map (·.index))) :
    let o := recvFrom cfg inst0 (ds.map Msg.chunk ++
      [Msg.completion (senderChunks cap r parts).length (totalBytes (senderChunks cap r parts))])
    o.ok = true ∧ o.result.isSome = true ∧ o.core.installed = inst0 ++ installWhole [] parts ∧ o.core.cur = none := by
  intro o
  have sf := senderFacts cap r hcap parts
  have hres := admissible_completes sf cfg hl inst0 ds hmem hadm
  have hgen : ∀ m ∈ ds.map Msg.chunk ++ [Msg.completion (senderChunks cap r parts).length (totalBytes (senderChunks cap r parts))],
      GenM (senderChunks cap r parts) (fun _ => True) m := by
    intro m hm
    rcases List.mem_append.mp hm with h | h
    · obtain ⟨d, hd, rfl⟩ := List.mem_map.mp h
      intro _
      obtain ⟨j, hj⟩ := List.getElem?_of_mem (hmem d hd)
      have := sf.index j d hj
      exact ⟨by rw [this]; exact hj, trivial⟩
    · simp at h; subst h; exact ⟨rfl, rfl⟩
  have post := recvFrom_inv (ok := fun _ => True) cfg hl sf inst0 _ hgen
  obtain ⟨pcur, pre, _, hpre, hsome, _⟩ := post
  have hnm : ((ds.map Msg.chunk ++ [Msg.completion (senderChunks cap r parts).length
      (totalBytes (senderChunks cap r parts))]).drop 1).all noMeta = true := by
    obtain ⟨⟨irest, hirest, hpos⟩, _⟩ := hadm
    cases ds with
    | nil => simp at hirest
    | cons d0 ds' =>
      simp only [List.map_cons, List.cons.injEq] at hirest
      simp only [List.map_cons, List.cons_append, List.drop_succ_cons, List.drop_zero, List.all_append,
        List.all_cons, List.all_nil, noMeta, Bool.and_true, List.all_map]
      apply List.all_eq_true.mpr
      intro d hd
      have hg : (senderChunks cap r parts)[d.index]? = some d := by
        obtain ⟨j, hj⟩ := List.getElem?_of_mem (hmem d (by simp [hd]))
        have := sf.index j d hj
        rw [this]; exact hj
      have hp := hpos d.index (by rw [← hirest.2]; exact List.mem_map_of_mem hd)
      have hm := (genuine_facts sf d hg).2.2
      simp only [Function.comp, noMeta, hm]
      have : d.index ≠ 0 := by omega
      simpa using this
  obtain ⟨q1, q2, _, _⟩ := hsome hres
  rw [hpre hnm] at q1
  exact ⟨q2, hres, q1, pcur⟩

/-- In-order delivery (what the sender produces on a healthy stream) is exact in every configuration. -/
theorem transfer_exact_inorder (cfg : Cfg) (hl : cfg.legacy = false) (cap : Nat) (hcap : 1 ≤ cap) (r : Reader)
    (parts : List SPart) (inst0 : List IPart) (hne : senderChunks cap r parts ≠ []) :
    (recvFrom cfg inst0 (senderMsgs cap r parts)).ok = true ∧
    (recvFrom cfg inst0 (senderMsgs cap r parts)).result.isSome = true ∧
    (recvFrom cfg inst0 (senderMsgs cap r parts)).core.installed = inst0 ++ installWhole [] parts ∧
    (recvFrom cfg inst0 (senderMsgs cap r parts)).core.cur = none := by
  have sf := senderFacts cap r hcap parts
  have hidx : (senderChunks cap r parts).map (·.index) = List.range' 0 (senderChunks cap r parts).length := by
    apply List.ext_getElem?
    intro j
    simp only [List.getElem?_map, List.getElem?_range']
    cases hj : (senderChunks cap r parts)[j]? with
    | none =>
      have : (senderChunks cap r parts).length ≤ j := List.getElem?_eq_none_iff.mp hj
      simp [this]
    | some c =>
      have hlt : j < (senderChunks cap r parts).length := (List.getElem?_eq_some_iff.mp hj).1
      simp [sf.index j c hj, hlt]
  have hpos : 0 < (senderChunks cap r parts).length := List.length_pos_iff.mpr hne
  have hadm : Admissible cfg (senderChunks cap r parts).length ((senderChunks cap r parts).map (·.index)) := by
    rw [hidx]; exact admissible_inorder cfg _ hpos
  have hmsgs : senderMsgs cap r parts = (senderChunks cap r parts).map Msg.chunk ++
      [Msg.completion (senderChunks cap r parts).length (totalBytes (senderChunks cap r parts))] := by
    simp only [senderMsgs]
    have : (senderChunks cap r parts).isEmpty = false := by
      cases h : senderChunks cap r parts with
      | nil => exact absurd h hne
      | cons _ _ => rfl
    simp [this]
  rw [hmsgs]
  exact transfer_exact cfg hl cap hcap r parts inst0 _ (fun d hd => hd) hadm

-- non-vacuity: a delivery with two chunks swapped is admissible, and so is the in-order one
example : Admissible {} 4 [0, 2, 1, 3] := by
  refine ⟨⟨[2, 1, 3], rfl, by decide⟩, by decide⟩
example : Admissible { reorder := false } 3 [0, 1, 2] := by
  refine ⟨⟨[1, 2], rfl, by decide⟩, by decide⟩
example : senderChunks 2 ⟨0, true⟩ [⟨1, "core", [⟨"a", [1, 2, 3]⟩]⟩] ≠ [] := by decide

/-- What `installWhole` is for one part with distinct file names: the sender's non-empty files, byte for byte. -/
theorem writeKey_fresh (k : Key) (bs : List Byte) (fs : List (Key × List Byte)) (h : k ∉ fs.map (·.1)) :
    writeKey k bs fs = fs ++ [(k, bs)] := by
  induction fs with
  | nil => rfl
  | cons x xs ih =>
    obtain ⟨k', v⟩ := x
    simp only [List.map_cons, List.mem_cons, not_or] at h
    have hne : ¬ k' = k := fun hh => h.1 hh.symm
    simp [writeKey, hne, ih h.2]

theorem run_same_part (id : Nat) (pt : String) (fl : List SFile) (hnd : (fl.map (·.name)).Nodup)
    (c : Core) (fs : List (Key × List Byte)) (hc : c.cur = some ⟨id, pt, fs⟩)
    (hfresh : ∀ f ∈ fl, (pt, f.name) ∉ fs.map (·.1)) :
    run c (fl.map fun f => (id, pt, f.name, f.content)) =
      { c with cur := some ⟨id, pt, fs ++ fl.map fun f => ((pt, f.name), f.content)⟩ } := by
  induction fl generalizing c fs with
  | nil => simp; cases c; simp_all
  | cons f fl ih =>
    simp only [List.map_cons, List.nodup_cons] at hnd
    simp only [List.map_cons, run_cons]
    have hae : applyEvent c (id, pt, f.name, f.content) =
        { c with cur := some ⟨id, pt, fs ++ [((pt, f.name), f.content)]⟩ } := by
      unfold applyEvent
      simp only
      rw [enter_idem c id pt fs hc, write_cur c id pt fs _ _ hc, writeKey_fresh _ _ _ (hfresh f (by simp))]
    rw [hae]
    rw [ih hnd.2 _ (fs ++ [((pt, f.name), f.content)]) rfl]
    · simp
    · intro g hg
      simp only [List.map_append, List.map_cons, List.map_nil, List.mem_append, List.mem_singleton, not_or]
      refine ⟨hfresh g (by simp [hg]), ?_⟩
      intro h
      have : g.name = f.name := (Prod.mk.inj h).2
      apply hnd.1
      rw [← this]
      exact List.mem_map_of_mem hg

theorem installWhole_single (p : SPart) (hnd : (p.files.map (·.name)).Nodup)
    (hne : p.files.filter (fun f => !f.content.isEmpty) ≠ []) :
    installWhole [] [p] =
      [⟨p.id, (p.files.filter fun f => !f.content.isEmpty).map fun f => ((p.ptype, f.name), f.content)⟩] := by
  have hw : wholeEvents [p] = (p.files.filter fun f => !f.content.isEmpty).map fun f => (p.id, p.ptype, f.name, f.content) := by
    simp [wholeEvents]
  unfold installWhole
  rw [hw]
  cases hfl : p.files.filter (fun f => !f.content.isEmpty) with
  | nil => exact absurd hfl hne
  | cons f fl =>
    have hnd' : ((f :: fl).map (·.name)).Nodup := by
      rw [← hfl]
      exact (List.filter_sublist.map _).nodup hnd
    simp only [List.map_cons, List.nodup_cons] at hnd'
    have h1 : applyEvent ({ installed := [] } : Core) (p.id, p.ptype, f.name, f.content) =
        { installed := [], cur := some ⟨p.id, p.ptype, [((p.ptype, f.name), f.content)]⟩ } := by
      simp [applyEvent, enter, write, writeKey]
    have := run_same_part p.id p.ptype fl hnd'.2
      { installed := [], cur := some ⟨p.id, p.ptype, [((p.ptype, f.name), f.content)]⟩ }
      [((p.ptype, f.name), f.content)] rfl (by
        intro g hg
        simp only [List.map_cons, List.map_nil, List.mem_singleton]
        intro h
        have : g.name = f.name := (Prod.mk.inj h).2
        apply hnd'.1
        rw [← this]
        exact List.mem_map_of_mem hg)
    show (finish (List.foldl applyEvent _ _)).installed = _
    simp only [List.map_cons, List.foldl_cons]
    rw [h1]
    have hrun : List.foldl applyEvent
        { installed := [], cur := some ⟨p.id, p.ptype, [((p.ptype, f.name), f.content)]⟩ }
        (fl.map fun f => (p.id, p.ptype, f.name, f.content)) = run _ _ := rfl
    rw [hrun, this]
    simp [finish]

/-! ## 3. Faulty deliveries never install anything but exact parts (`bad_chunk_never_installed`) -/

/-- The fault model: whatever arrives with a valid checksum under index `i` is the sender's chunk `i`
    (corruption is detected by the CRC), and completion messages are the sender's. Chunks may be dropped,
    duplicated, reordered arbitrarily, corrupted, carry an unsupported version, or the stream may just end. -/
def Delivered (cs : List Chunk) (ms : List Msg) : Prop := ∀ m ∈ ms, GenM cs (fun _ => True) m

/-- **Safety.** Under the fault model the fixed receiver only ever installs parts that are byte-equal to the
    sender's, and leaves no part open – for any delivered sequence, any number of session restarts. -/
theorem installed_exact_or_nothing (cfg : Cfg) (hl : cfg.legacy = false) (cap : Nat) (hcap : 1 ≤ cap) (r : Reader)
    (parts : List SPart) (inst0 : List IPart) (ms : List Msg) (hd : Delivered (senderChunks cap r parts) ms) :
    (∀ p ∈ (recvFrom cfg inst0 ms).core.installed, p ∈ inst0 ∨ p ∈ installWhole [] parts) ∧
    (recvFrom cfg inst0 ms).core.cur = none := by
  have sf := senderFacts cap r hcap parts
  obtain ⟨pcur, pre, hex, _, hsome, hnone⟩ := recvFrom_inv (ok := fun _ => True) cfg hl sf inst0 ms hd
  refine ⟨?_, pcur⟩
  cases hres : (recvFrom cfg inst0 ms).result with
  | none =>
    obtain ⟨_, h2, _⟩ := hnone hres
    exact allExact_of_prefix hex h2
  | some res =>
    obtain ⟨h1, _, _, _⟩ := hsome (by rw [hres]; rfl)
    rw [h1]
    exact allExact_of_prefix hex (List.prefix_refl _)

/-- Only the first message opens a session (the sender puts the metadata on chunk 0 only). -/
def SingleSession (ms : List Msg) : Prop := (ms.drop 1).all noMeta = true

/-- SYNC_COMPLETE is only acknowledged when the shard holds exactly the sender's parts. -/
theorem complete_implies_exact (cfg : Cfg) (hl : cfg.legacy = false) (cap : Nat) (hcap : 1 ≤ cap) (r : Reader)
    (parts : List SPart) (inst0 : List IPart) (ms : List Msg) (hd : Delivered (senderChunks cap r parts) ms)
    (hs : SingleSession ms) (hres : (recvFrom cfg inst0 ms).result.isSome = true) :
    (recvFrom cfg inst0 ms).core.installed = inst0 ++ installWhole [] parts ∧ (recvFrom cfg inst0 ms).ok = true := by
  have sf := senderFacts cap r hcap parts
  obtain ⟨_, pre, _, hpre, hsome, _⟩ := recvFrom_inv (ok := fun _ => True) cfg hl sf inst0 ms hd
  obtain ⟨h1, h2, _, _⟩ := hsome hres
  rw [hpre hs] at h1
  exact ⟨h1, h2⟩

/-- No valid copy of chunk `i` is ever delivered: it was dropped, or every copy of it was corrupted. -/
def NeverValid (cs : List Chunk) (i : Nat) (ms : List Msg) : Prop := ∀ m ∈ ms, GenM cs (fun j => j ≠ i) m

/-- **bad_chunk_never_installed.** If some chunk never arrives with a valid checksum (wrong CRC, dropped – at
    ANY position `i`), or the stream ends without the completion message (early end at ANY position), then,
    whatever else happens to the delivery (duplicates, reordering, chunks beyond the window):
    no SYNC_COMPLETE, the installed list only grows by a strict prefix of the sender's exact parts (for a
    transfer of one part: the shard is unchanged), and no partial part is left behind. -/
theorem bad_chunk_never_installed (cfg : Cfg) (hl : cfg.legacy = false) (cap : Nat) (hcap : 1 ≤ cap) (r : Reader)
    (parts : List SPart) (inst0 : List IPart) (ms : List Msg) (hs : SingleSession ms)
    (hbad : (∃ i, i < (senderChunks cap r parts).length ∧ NeverValid (senderChunks cap r parts) i ms) ∨
            (Delivered (senderChunks cap r parts) ms ∧ ms.all (fun m => !isCompletion m) = true)) :
    (recvFrom cfg inst0 ms).result = none ∧
    inst0 <+: (recvFrom cfg inst0 ms).core.installed ∧
    (recvFrom cfg inst0 ms).core.installed <+: inst0 ++ installWhole [] parts ∧
    (installWhole [] parts ≠ [] →
      (recvFrom cfg inst0 ms).core.installed.length < inst0.length + (installWhole [] parts).length) ∧
    ((installWhole [] parts).length ≤ 1 → (recvFrom cfg inst0 ms).core.installed = inst0) ∧
    (recvFrom cfg inst0 ms).core.cur = none := by
  have sf := senderFacts cap r hcap parts
  -- in both cases the completion is not acknowledged
  have key : ∃ (ok : Nat → Prop), (∀ m ∈ ms, GenM (senderChunks cap r parts) ok m) ∧
      ((recvFrom cfg inst0 ms).result.isSome = true →
        ((∀ j, j < (senderChunks cap r parts).length → ok j) ∧ (ms.drop 1).any isCompletion = true) → False) := by
    rcases hbad with ⟨i, hi, hnv⟩ | ⟨hd, hnc⟩
    · exact ⟨fun j => j ≠ i, hnv, fun _ h => h.1 i hi rfl⟩
    · refine ⟨fun _ => True, hd, fun _ h => ?_⟩
      obtain ⟨m, hm, hmc⟩ := List.any_eq_true.mp h.2
      have := List.all_eq_true.mp hnc m (List.mem_of_mem_drop hm)
      simp [hmc] at this
  obtain ⟨ok, hgen, hno⟩ := key
  obtain ⟨pcur, pre, _, hpre, hsome, hnone⟩ := recvFrom_inv (ok := ok) cfg hl sf inst0 ms hgen
  have hres : (recvFrom cfg inst0 ms).result = none := by
    cases h : (recvFrom cfg inst0 ms).result with
    | none => rfl
    | some res =>
      have hsm : (recvFrom cfg inst0 ms).result.isSome = true := by rw [h]; rfl
      obtain ⟨_, _, q3, q4⟩ := hsome hsm
      exact absurd ⟨q3, q4⟩ (fun hh => hno hsm hh)
  obtain ⟨h1, h2, h3⟩ := hnone hres
  rw [hpre hs] at h1 h2 h3
  simp only [exactParts] at h2 h3
  refine ⟨hres, h1, h2, h3, ?_, pcur⟩
  intro hle
  apply (List.prefix_iff_eq_append.mp h1).symm.trans
  have hlen1 := h1.length_le
  have hlen2 := h2.length_le
  by_cases hG : installWhole [] parts = []
  · rw [hG] at hlen2
    simp at hlen2
    have : (recvFrom cfg inst0 ms).core.installed.length = inst0.length := by omega
    rw [List.drop_eq_nil_of_le (by omega)]; simp
  · have := h3 hG
    have : (recvFrom cfg inst0 ms).core.installed.length = inst0.length := by omega
    rw [List.drop_eq_nil_of_le (by omega)]; simp

/-- A chunk further ahead than the window allows, or arriving when the buffer is full, is refused
    (CHUNK_OUT_OF_ORDER) and leaves the session untouched. -/
theorem beyond_window_rejected (cfg : Cfg) (st : RState) (s : Session) (c : Chunk) (hv : c.versionOk = true)
    (hr : cfg.reorder = true) (hgt : s.expected < c.index)
    (hw : cfg.maxGap < c.index - s.expected ∨ cfg.maxBuf ≤ s.buffer.length) :
    processChunk cfg st s c = (ack st stOutOfOrder, s) := by
  unfold processChunk processReorder
  have hne : ¬ c.index = s.expected := by omega
  simp only [hv, Bool.not_true, Bool.false_eq_true, if_false, hr, if_true, hne, hgt]
  rcases hw with h | h
  · simp [h]
  · by_cases hg : cfg.maxGap < c.index - s.expected
    · simp [hg]
    · simp [hg, h]

/-- A chunk whose index was already applied is acknowledged and ignored: never applied twice. -/
theorem duplicate_ignored (cfg : Cfg) (st : RState) (s : Session) (c : Chunk) (hv : c.versionOk = true)
    (hr : cfg.reorder = true) (hlt : c.index < s.expected) :
    processChunk cfg st s c = (ack st stReceived, s) := by
  unfold processChunk processReorder
  have hne : ¬ c.index = s.expected := by omega
  have hng : ¬ s.expected < c.index := by omega
  simp [hv, hr, hne, hng]

/-- In strict mode everything but the next chunk is refused. -/
theorem sequential_rejects_other (cfg : Cfg) (st : RState) (s : Session) (c : Chunk) (hv : c.versionOk = true)
    (hr : cfg.reorder = false) (hne : c.index ≠ s.chunksReceived) :
    processChunk cfg st s c = (ack st stOutOfOrder, s) := by
  unfold processChunk processSequential
  simp [hv, hr, hne]

/-- A chunk with a wrong checksum at the expected position is answered CHECKSUM_MISMATCH and changes nothing:
    the retry with the same index is still the expected chunk. -/
theorem mismatch_keeps_expected (cfg : Cfg) (hl : cfg.legacy = false) (st : RState) (s : Session) (c : Chunk)
    (hv : c.versionOk = true) (hr : cfg.reorder = true) (hi : c.index = s.expected)
    (hbad : checksumOf c.data ≠ c.checksum) :
    processChunk cfg st s c = (ack st stMismatch, s) := by
  unfold processChunk processReorder
  simp [hv, hr, hi, processExpected_invalid st s c hbad, hl]

/-! ### the receiver as written at the pinned commit (finding F17A) -/

def demoParts : List SPart := [⟨1, "core", [⟨"a", [1, 2, 3, 4]⟩]⟩]
def demoChunks : List Chunk := senderChunks 2 ⟨0, true⟩ demoParts
def corruptData (c : Chunk) : Chunk := { c with data := c.data.map (· + 1) }

/-- the sender's two chunks, the second one corrupted in flight, the sender's retry of it, completion -/
def demoCorruptRetry : List Msg :=
  (demoChunks.take 1).map Msg.chunk ++ (demoChunks.drop 1).map (Msg.chunk ∘ corruptData) ++
    (demoChunks.drop 1).map Msg.chunk ++ [Msg.completion 2 4]

/-- chunk 1 lost, completion delivered -/
def demoDrop : List Msg := (demoChunks.take 1).map Msg.chunk ++ [Msg.completion 2 4]

/-- chunk 0 (which carries the session metadata) delivered twice -/
def demoDupFirst : List Msg :=
  (demoChunks.take 1).map Msg.chunk ++ (demoChunks.take 1).map Msg.chunk ++ (demoChunks.drop 1).map Msg.chunk ++
    [Msg.completion 2 4]

theorem demo_exact : installWhole [] demoParts = [⟨1, [(("core", "a"), [1, 2, 3, 4])]⟩] := by decide

/-- Legacy, reordering mode (the default): after a checksum mismatch `expectedIndex` is advanced anyway, the
    sender's retry is dropped as a "duplicate", the completion is honoured: a file with a hole is installed
    and reported as success. -/
theorem legacy_mismatch_counterexample :
    (recv { legacy := true } demoCorruptRetry).core.installed = [⟨1, [(("core", "a"), [1, 2])]⟩] ∧
    ((recv { legacy := true } demoCorruptRetry).result.map (·.success)) = some true := by decide

/-- Legacy, both modes: the completion message is honoured although a chunk is missing. -/
theorem legacy_drop_counterexample :
    (recv { legacy := true } demoDrop).core.installed = [⟨1, [(("core", "a"), [1, 2])]⟩] ∧
    (recv { legacy := true, reorder := false } demoDrop).core.installed = [⟨1, [(("core", "a"), [1, 2])]⟩] := by
  decide

/-- Legacy: a session switch finishes (installs) the abandoned, incomplete part. -/
theorem legacy_switch_counterexample :
    (recv { legacy := true } demoDupFirst).core.installed.head? = some ⟨1, [(("core", "a"), [1, 2])]⟩ := by decide

/-- The same deliveries on the fixed receiver. -/
theorem fixed_on_counterexamples :
    (recv {} demoCorruptRetry).core.installed = installWhole [] demoParts ∧
    (recv {} demoDrop).core.installed = [] ∧ (recv {} demoDrop).result = none ∧ (recv {} demoDrop).ok = false ∧
    (recv {} demoDupFirst).core.installed = installWhole [] demoParts ∧ (recv {} demoDupFirst).core.discarded = 1 ∧
    (recv {} demoDupFirst).core.cur = none := by decide

-- non-vacuity of the fault-model hypotheses on the concrete deliveries
example : Delivered demoChunks demoCorruptRetry := by
  intro m hm
  have : ∀ m ∈ demoCorruptRetry, GenM demoChunks (fun _ => True) m := by
    intro m hm
    simp only [demoCorruptRetry, List.mem_append, List.mem_map, List.mem_singleton] at hm
    rcases hm with ((⟨c, hc, rfl⟩ | ⟨c, hc, rfl⟩) | ⟨c, hc, rfl⟩) | rfl
    · intro _
      have : c = demoChunks[0] := by
        have : demoChunks.take 1 = [demoChunks[0]] := by decide
        rw [this] at hc; simpa using hc
      subst this
      exact ⟨by decide, trivial⟩
    · intro hv
      exfalso
      have : c = demoChunks[1] := by
        have : demoChunks.drop 1 = [demoChunks[1]] := by decide
        rw [this] at hc; simpa using hc
      subst this
      revert hv
      decide
    · intro _
      have : c = demoChunks[1] := by
        have : demoChunks.drop 1 = [demoChunks[1]] := by decide
        rw [this] at hc; simpa using hc
      subst this
      exact ⟨by decide, trivial⟩
    · exact ⟨by decide, by decide⟩
  exact this m hm

example : SingleSession demoDrop := by unfold SingleSession; decide
example : SingleSession demoCorruptRetry := by unfold SingleSession; decide

/-! ## 4. The liaison queue (`part_leaves_queue_only_on_success`) -/

/-- A part of the batch that was acknowledged by every node, possibly after retries. -/
def DeliveredEverywhere (env : SyncEnv) (batch : List Nat) (p : Nat) : Prop :=
  ∀ n ∈ env.nodes, p ∉ attemptFailed batch (env.initial n) ∨
    ∃ a, 1 ≤ a ∧ a ≤ maxRetries ∧
      ∀ n' ∈ env.nodes, p ∈ attemptFailed batch (env.initial n') → env.retryFails n' p a = false

/-- The statement at full strength: a part leaves the snapshot only after every node has acknowledged it. -/
def PartLeavesQueueOnlyOnSuccessStatement : Prop :=
  ∀ (env : SyncEnv) (l l' : Liaison) (batch : List Nat) (p : Nat),
    syncSnapshot env l batch = some l' → p ∈ l.snapshot → p ∉ l'.snapshot → DeliveredEverywhere env batch p

theorem retrySucceeds_spec (env : SyncEnv) (pnf : List (String × List Nat)) (id : Nat) :
    ∀ (fuel a : Nat), retrySucceeds env pnf id fuel a = true →
      ∃ b, a ≤ b ∧ b < a + fuel ∧ retryAttemptFails env pnf id b = false := by
  intro fuel
  induction fuel with
  | zero => intro a h; simp [retrySucceeds] at h
  | succ fuel ih =>
    intro a h
    simp only [retrySucceeds] at h
    by_cases hf : retryAttemptFails env pnf id a = true
    · simp only [hf, Bool.not_true, Bool.false_eq_true, if_false] at h
      obtain ⟨b, h1, h2, h3⟩ := ih (a + 1) h
      exact ⟨b, by omega, by omega, h3⟩
    · have hf' : retryAttemptFails env pnf id a = false := by cases hh : retryAttemptFails env pnf id a <;> simp_all
      exact ⟨a, Nat.le_refl _, by omega, hf'⟩

theorem delivered_spec (env : SyncEnv) (batch : List Nat) (p : Nat) (h : partFate env batch p = .delivered) :
    DeliveredEverywhere env batch p := by
  unfold partFate at h
  simp only at h
  by_cases hany : (perNodeFailures env batch).any (fun x => x.2.contains p) = true
  · simp only [hany, Bool.not_true, Bool.false_eq_true, if_false] at h
    by_cases hrs : retrySucceeds env (perNodeFailures env batch) p maxRetries 1 = true
    · obtain ⟨a, ha1, ha2, ha3⟩ := retrySucceeds_spec env _ p maxRetries 1 hrs
      intro n hn
      right
      refine ⟨a, ha1, by omega, ?_⟩
      intro n' hn' hfail
      unfold retryAttemptFails at ha3
      have hall := List.any_eq_false.mp ha3 (n', attemptFailed batch (env.initial n')) (by
        unfold perNodeFailures
        apply List.mem_filter.mpr
        refine ⟨List.mem_map.mpr ⟨n', hn', rfl⟩, ?_⟩
        cases hl : attemptFailed batch (env.initial n') with
        | nil => rw [hl] at hfail; cases hfail
        | cons _ _ => rfl)
      have hc : (attemptFailed batch (env.initial n')).contains p = true := by simpa using hfail
      simp only [hc, Bool.true_and] at hall
      cases hrf : env.retryFails n' p a <;> simp_all
    · simp only [hrs, Bool.false_eq_true, if_false] at h
      by_cases hcp : env.copyOk p = true <;> simp [hcp] at h
  · intro n hn
    left
    intro hmem
    apply hany
    apply List.any_eq_true.mpr
    refine ⟨(n, attemptFailed batch (env.initial n)), ?_, by simpa using hmem⟩
    unfold perNodeFailures
    apply List.mem_filter.mpr
    refine ⟨List.mem_map.mpr ⟨n, hn, rfl⟩, ?_⟩
    cases hl : attemptFailed batch (env.initial n) with
    | nil => rw [hl] at hmem; cases hmem
    | cons _ _ => rfl

/-- **part_leaves_queue_only_on_success (partial).** A part leaves the liaison snapshot only as a member of a
    synced batch, and then either every node has acknowledged it (initially, or on one of the at most three
    retries), or the retries were exhausted and the part was hard-linked into `failed-parts/` (kept for
    operator-driven retry), or the retries were exhausted and that copy failed. A sync that cannot run
    (no nodes) leaves the snapshot untouched; parts outside the batch stay queued. -/
theorem part_leaves_queue_only_on_success_partial (env : SyncEnv) (l l' : Liaison) (batch : List Nat) (p : Nat)
    (hs : syncSnapshot env l batch = some l') (hin : p ∈ l.snapshot) (hout : p ∉ l'.snapshot) :
    p ∈ batch ∧
    (DeliveredEverywhere env batch p ∨
     (partFate env batch p = .preserved ∧ p ∈ l'.failedDir) ∨
     (partFate env batch p = .lost ∧ env.copyOk p = false)) := by
  unfold syncSnapshot at hs
  by_cases hb : batch.isEmpty = true
  · simp only [hb, if_true, Option.some.injEq] at hs
    subst hs
    exact absurd hin hout
  · simp only [hb, Bool.false_eq_true, if_false] at hs
    by_cases hn : env.nodes.isEmpty = true
    · simp [hn] at hs
    · simp only [hn, Bool.false_eq_true, if_false, Option.some.injEq] at hs
      subst hs
      simp only [List.mem_filter, Bool.not_eq_true', not_and, Bool.not_eq_false] at hout
      have hpb : p ∈ batch := by simpa using hout hin
      refine ⟨hpb, ?_⟩
      cases hf : partFate env batch p with
      | delivered => exact Or.inl (delivered_spec env batch p hf)
      | preserved =>
        refine Or.inr (Or.inl ⟨rfl, ?_⟩)
        simp only [List.mem_append, List.mem_filter]
        right
        exact ⟨hpb, by simp [hf]⟩
      | lost =>
        refine Or.inr (Or.inr ⟨rfl, ?_⟩)
        unfold partFate at hf
        simp only at hf
        by_cases h1 : (perNodeFailures env batch).any (fun x => x.2.contains p) = true
        · simp only [h1, Bool.not_true, Bool.false_eq_true, if_false] at hf
          by_cases h2 : retrySucceeds env (perNodeFailures env batch) p maxRetries 1 = true
          · simp [h2] at hf
          · simp only [h2, Bool.false_eq_true, if_false] at hf
            cases hc : env.copyOk p with
            | true => simp [hc] at hf
            | false => rfl
        · have h1' : (perNodeFailures env batch).any (fun x => x.2.contains p) = false :=
            Bool.eq_false_iff.mpr h1
          rw [h1'] at hf
          simp at hf

theorem sync_without_nodes_keeps_snapshot (env : SyncEnv) (l : Liaison) (batch : List Nat)
    (hb : batch ≠ []) (hn : env.nodes = []) : syncSnapshot env l batch = none := by
  cases batch with
  | nil => exact absurd rfl hb
  | cons _ _ => simp [syncSnapshot, hn]

theorem unsynced_part_stays (env : SyncEnv) (l l' : Liaison) (batch : List Nat) (p : Nat)
    (hs : syncSnapshot env l batch = some l') (hin : p ∈ l.snapshot) (hnb : p ∉ batch) : p ∈ l'.snapshot := by
  unfold syncSnapshot at hs
  by_cases hb : batch.isEmpty = true
  · simp only [hb, if_true, Option.some.injEq] at hs; subst hs; exact hin
  · simp only [hb, Bool.false_eq_true, if_false] at hs
    by_cases hn : env.nodes.isEmpty = true
    · simp [hn] at hs
    · simp only [hn, Bool.false_eq_true, if_false, Option.some.injEq] at hs
      subst hs
      simp only [List.mem_filter]
      exact ⟨hin, by simpa using hnb⟩

def demoEnvLost : SyncEnv := ⟨["n0"], fun _ => .err, fun _ _ _ => true, fun _ => false⟩
def demoEnvRetry : SyncEnv := ⟨["n0", "n1"], fun n => if n == "n0" then .err else .done [], fun _ _ a => a < 2, fun _ => true⟩

/-- The full statement does not hold for the code as written: when the three retries fail and the copy into
    `failed-parts/` fails too (e.g. the directory quota), the part is removed although no node has it. -/
theorem part_leaves_queue_counterexample : ¬ PartLeavesQueueOnlyOnSuccessStatement := by
  intro h
  have := h demoEnvLost ⟨[7], []⟩ ⟨[], []⟩ [7] 7 (by decide) (by decide) (by decide)
  have h2 := this "n0" (by decide)
  rcases h2 with h2 | ⟨a, _, _, h3⟩
  · exact h2 (by decide)
  · have := h3 "n0" (by decide) (by decide)
    simp [demoEnvLost] at this

-- non-vacuity: a part that fails on one node, succeeds on the second retry, and leaves the queue delivered
example : syncSnapshot demoEnvRetry ⟨[7, 8], []⟩ [7] = some ⟨[8], []⟩ ∧ partFate demoEnvRetry [7] 7 = .delivered := by
  decide

/-! ## 5. Composition (`cluster_eq_standalone`) -/

section Composition

variable {Row Sh Q A : Type} [DecidableEq Sh]

theorem flatMap_route_perm (shardOf : Row → Sh) (shards : List Sh) (hnd : shards.Nodup) (r : Row) (f : Sh → List Row)
    (hk : shardOf r ∈ shards) :
    (shards.flatMap fun sh => if shardOf r = sh then r :: f sh else f sh).Perm (r :: shards.flatMap f) := by
  induction shards with
  | nil => cases hk
  | cons s ss ih =>
    simp only [List.nodup_cons] at hnd
    simp only [List.flatMap_cons]
    by_cases hs : shardOf r = s
    · -- r goes to the head shard; it cannot go to another one
      have htail : (ss.flatMap fun sh => if shardOf r = sh then r :: f sh else f sh) = ss.flatMap f := by
        apply flatMap_congr'
        intro sh hsh
        have : shardOf r ≠ sh := by
          intro h; apply hnd.1; rw [← hs, h]; exact hsh
        simp [this]
      rw [htail]
      simp [hs]
    · have hk' : shardOf r ∈ ss := by
        rcases List.mem_cons.mp hk with h | h
        · exact absurd h hs
        · exact h
      simp only [hs, if_false]
      have := ih hnd.2 hk'
      exact (List.Perm.append_left (f s) this).trans List.perm_middle

theorem flatMap_perm_congr (shards : List Sh) (f g : Sh → List Row) (h : ∀ sh ∈ shards, (f sh).Perm (g sh)) :
    (shards.flatMap f).Perm (shards.flatMap g) := by
  induction shards with
  | nil => exact List.Perm.refl _
  | cons s ss ih =>
    simp only [List.flatMap_cons]
    exact List.Perm.append (h s (by simp)) (ih fun sh hsh => h sh (by simp [hsh]))

/-- Splitting the writes by shard and concatenating the shards gives the writes back (as a multiset). -/
theorem partition_perm (shardOf : Row → Sh) (shards : List Sh) (hnd : shards.Nodup) (writes : List Row)
    (hcov : ∀ r ∈ writes, shardOf r ∈ shards) :
    (shards.flatMap fun sh => writes.filter fun r => shardOf r = sh).Perm writes := by
  induction writes with
  | nil =>
    have : (shards.flatMap fun sh => ([] : List Row).filter fun r => shardOf r = sh) = [] := by
      induction shards with
      | nil => rfl
      | cons s ss ih => simp
    rw [this]
  | cons r rs ih =>
    have hcov' : ∀ x ∈ rs, shardOf x ∈ shards := fun x hx => hcov x (by simp [hx])
    have hstep : (shards.flatMap fun sh => (r :: rs).filter fun x => shardOf x = sh) =
        shards.flatMap fun sh => if shardOf r = sh then r :: (rs.filter fun x => shardOf x = sh)
          else rs.filter fun x => shardOf x = sh := by
      apply flatMap_congr'
      intro sh _
      by_cases h : shardOf r = sh <;> simp [List.filter_cons, h]
    rw [hstep]
    exact (flatMap_route_perm shardOf shards hnd r _ (hcov r (by simp))).trans (List.Perm.cons r (ih hcov'))

/-- **cluster_eq_standalone.** Abstract pieces and where each hypothesis comes from:
    * `shardOf`, `shards`: routing of a row to its shard, every row routed to an existing shard (C16);
    * `held sh`: the rows the owning data node holds for shard `sh` once the liaison queue is drained –
      equal as a multiset to the rows written to that shard: parts leave the queue only delivered
      (`part_leaves_queue_only_on_success_partial`, with the `preserved`/`lost` fates excluded) and a delivered
      part is byte-exact (`transfer_exact`, `installed_exact_or_nothing`); rows ↔ part bytes is C01/C04;
    * `eval`: one node's answer over the rows it holds, insensitive to their order (C01–C03, C08);
    * `merge`: the coordinator's merge of per-shard answers, which distributes over concatenation (C09/C10).
    Then the cluster's answer is the standalone answer over the same writes. -/
theorem cluster_eq_standalone (shardOf : Row → Sh) (shards : List Sh) (hnd : shards.Nodup)
    (writes : List Row) (hcov : ∀ r ∈ writes, shardOf r ∈ shards)
    (held : Sh → List Row) (hheld : ∀ sh ∈ shards, (held sh).Perm (writes.filter fun r => shardOf r = sh))
    (eval : List Row → Q → A) (hperm : ∀ (a b : List Row) (q : Q), a.Perm b → eval a q = eval b q)
    (merge : List A → A) (hmerge : ∀ (ls : List (List Row)) (q : Q), merge (ls.map fun l => eval l q) = eval ls.flatten q)
    (q : Q) :
    merge (shards.map fun sh => eval (held sh) q) = eval writes q := by
  have h1 : (shards.map fun sh => eval (held sh) q) = (shards.map held).map fun l => eval l q := by
    simp [List.map_map]
  rw [h1, hmerge]
  apply hperm
  have h2 : (shards.map held).flatten = shards.flatMap held := by simp [List.flatMap]
  rw [h2]
  have h3 : (shards.flatMap held).Perm (shards.flatMap fun sh => writes.filter fun r => shardOf r = sh) :=
    flatMap_perm_congr shards _ _ hheld
  exact h3.trans (partition_perm shardOf shards hnd writes hcov)

end Composition

-- non-vacuity of `cluster_eq_standalone`: counting rows over two shards
example : (List.map (fun sh => ([1, 2, 3, 4, 5].filter fun r => r % 2 = sh).length) [0, 1]).sum = [1, 2, 3, 4, 5].length := by
  decide

end Banyan.C17
