/-
C18 — Properties are last-writer-wins and replicas converge.
Property theorems only (about the model in Banyan/Model/C18.lean, which mirrors the code WITH fix F18a);
helper lemmas live in Banyan/Lemmas/C18{Repair,Lattice,Cluster,Dedup,Map}.lean.

Vocabulary
  `Doc`, `Shard`           one stored revision (key, rev = ModRevision, created = CreateRevision, tags, del = delete time,
                           0 = live) / the documents of one replica of one shard
  `ver d = (rev, del)`     version; `vlt` = revision first, then delete time (live < tombstone < later tombstone)
  `top s k`, `topVer`      newest document / version of key `k` in shard `s` (what repair and gossip compare)
  `vjoin`, `ole`           join and order of `Option Ver` (nothing stored = bottom)
  `applyOp/deleteOp/queryOp`   the liaison's Apply / Delete / Query over a `Cluster` with a reachability predicate
  `repair`, `gossipLeaf`   `shard.repair`, one single-leaf gossip exchange
  `AMap`, `AMap.step`      the specification: `Key → Option Value`
-/
import Banyan.Lemmas.C18Map
import Banyan.Lemmas.C18Cluster

namespace Banyan.C18

/-! ## 1. apply: merge / replace -/

def lookupTag (t : Tags) (k : String) : Option String := (t.find? fun x => x.1 == k).map Prod.snd

/-- `apply_spec` (tags): after a merge, a tag key has the request's value if the request carries it, otherwise
    the previous value; the request's tags come first, the kept ones follow in their previous order. -/
theorem mergeTags_lookup (cur prev : Tags) (k : String) :
    lookupTag (mergeTags cur prev) k = (lookupTag cur k).or (lookupTag prev k) := by
  simp only [lookupTag, mergeTags, List.find?_append]
  cases hc : cur.find? (fun x => x.1 == k) with
  | some x => simp
  | none =>
    simp only [Option.map_none, Option.none_or, Option.or_eq_right_of_none]
    congr 1
    apply find?_filter_of_imp
    intro x _ hx
    have hx' : x.1 = k := by simpa using hx
    have hn : ∀ c ∈ cur, ¬ (c.1 == k) = true := by
      intro c hc'; exact List.find?_eq_none.1 hc c hc'
    have : (cur.any fun c => c.1 == x.1) = false := by
      rw [List.any_eq_false]; intro c hc'; rw [hx']; exact hn c hc'
    simp [this]

theorem mergeTags_order (cur prev : Tags) :
    mergeTags cur prev = cur ++ prev.filter (fun t => !(cur.any fun c => c.1 == t.1)) := rfl

/-- no tag key is duplicated by a merge. -/
theorem mergeTags_nodup (cur prev : Tags) (hc : (cur.map Prod.fst).Nodup) (hp : (prev.map Prod.fst).Nodup) :
    ((mergeTags cur prev).map Prod.fst).Nodup := by
  simp only [mergeTags, List.map_append, List.nodup_append]
  refine ⟨hc, (List.filter_sublist.map _).nodup hp, ?_⟩
  intro a ha b hb
  simp only [List.mem_map, List.mem_filter] at ha hb
  obtain ⟨x, hx, rfl⟩ := ha
  obtain ⟨y, ⟨_, hy⟩, rfl⟩ := hb
  intro e
  have : (cur.any fun c => c.1 == y.1) = true := List.any_eq_true.2 ⟨x, hx, by simp [e]⟩
  simp [this] at hy

/-- `apply_spec` (document): what `replaceProperty` writes. -/
theorem apply_spec (k : String) (strat : Strategy) (tags : Tags) (now : Nat) (prev : Option Doc) :
    let d := newDoc k strat tags now prev
    d.key = k ∧ d.rev = now ∧ d.del = 0 ∧
    d.created = (match prev with | some p => p.created | none => now) ∧
    d.tags = (match strat, prev with
      | .merge, some p => mergeTags tags p.tags
      | _, _ => tags) := by
  cases prev <;> cases strat <;> simp [newDoc]

example : newDoc "k" .merge [("b", "3"), ("c", "4")] 20 (some ⟨"k", 10, 10, [("a", "1"), ("b", "2")], 0⟩)
    = ⟨"k", 20, 10, [("b", "3"), ("c", "4"), ("a", "1")], 0⟩ := by decide

/-! ## 2. the fault-free system is a map

`Op`, `AMap.step` (the specification), `sysStep` (liaison Apply/Delete over a cluster in which every replica is
reachable), `ClockOK` (the clock hypothesis) and `clockEnd` are defined in Banyan/Lemmas/C18Map.lean. -/

/-- `map_refinement`: on `n ≥ 1` replicas that all receive every call, after ANY sequence of applies (merge or
    replace) and deletes whose clock readings strictly increase, an unordered Query for any set of keys returns,
    for every requested key, exactly the value the map holds (nothing for a deleted or never written key), each
    key once — with the create revision, modification revision and tags of the map's value. -/
theorem map_refinement (n : Nat) (hn : 0 < n) (ops : List Op) (hclk : ClockOK 0 ops) (keys : List String) (rr : Bool) :
    let c := ops.foldl sysStep (emptyCluster n)
    let m := ops.foldl AMap.step emptyMap
    (∀ d, d ∈ (queryOp c allUp keys rr).2.props ↔ ∃ k ∈ keys, ∃ v, m k = some v ∧ d = docOf k v) ∧
    ((queryOp c allUp keys rr).2.props.map (·.key)).Nodup :=
  query_ok (run_ok ops _ _ 0 (emptyCluster_ok hn) hclk) keys rr

/-- non-vacuity: a concrete history satisfies the clock hypothesis … -/
example : ClockOK 0 [.apply "k" .merge [("a", "1")] 10, .delete "k", .apply "k" .replace [("b", "2")] 11] := by
  simp [ClockOK]

/-- … and the model computes what the map says on it. -/
example :
    (queryOp ([Op.apply "k" .merge [("a", "1")] 10, .apply "j" .merge [("a", "1")] 11, .delete "j",
        .apply "k" .merge [("b", "2")] 12].foldl sysStep (emptyCluster 2)) allUp ["k", "j"] false).2.props
      = [⟨"k", 12, 10, [("b", "2"), ("a", "1")], 0⟩] := by decide

/-- the response of a fault-free Apply: `created` iff the map had no value; `tags_num` = number of tags stored. -/
theorem apply_response {c : Cluster} {m : AMap} {b : Nat} (h : ClusterOK c m b) (k : String) (strat : Strategy)
    (tags : Tags) (now : Nat) (hb : b < now) (ht : tags.isEmpty = false) :
    (applyOp c allUp k strat tags now).2 = .ok (m k).isNone (applyVal m k strat tags now).tags.length :=
  (applyOp_ok h k strat tags now hb ht).2

/-- `modRevision_strict`: under the clock hypothesis an Apply stores `modRevision = now`, strictly above the
    revision it replaces, and keeps the create revision (or sets it to `now` for a new or deleted key). -/
theorem modRevision_strict (ops : List Op) (k : String) (s : Strategy) (tags : Tags) (now : Nat)
    (hclk : ClockOK 0 ops) (hnow : clockEnd 0 ops < now) (ht : tags.isEmpty = false) :
    let m := ops.foldl AMap.step emptyMap
    ∃ v', (AMap.step m (.apply k s tags now)) k = some v' ∧ v'.rev = now ∧
      (∀ v, m k = some v → v.rev < now ∧ v'.created = v.created) ∧ (m k = none → v'.created = now) := by
  intro m
  refine ⟨applyVal m k s tags now, by simp [AMap.step, ht, setKey], ?_, ?_, ?_⟩
  · simp only [applyVal]; split <;> rfl
  · intro v hv
    have := amap_bound ops emptyMap 0 (by simp [emptyMap]) hclk k v hv
    exact ⟨by omega, by simp [applyVal, hv]⟩
  · intro hv; simp [applyVal, hv]

example : ClockOK 0 [Op.apply "k" .merge [("a", "1")] 10] ∧ clockEnd 0 [Op.apply "k" .merge [("a", "1")] 10] < 11 := by
  simp [ClockOK, clockEnd]

/-- WITHOUT the clock hypothesis the refinement fails. Two applies that read the same nanosecond: the second
    document has the id of the first, and the deferred clean-up of "older" properties tombstones it — the key
    is gone although the map (and the client, who got two successes) has a value. -/
theorem clock_tie_loses_property :
    let ops := [Op.apply "k" .merge [("a", "1")] 10, .apply "k" .merge [("b", "1")] 10]
    (queryOp (ops.foldl sysStep (emptyCluster 2)) allUp ["k"] false).2.props = [] ∧
    (ops.foldl AMap.step emptyMap) "k" = some ⟨10, 10, [("b", "1"), ("a", "1")]⟩ := by decide

/-- a second liaison whose clock is behind: the newer write gets the lower revision, the clean-up tombstones the
    higher one, and the highest revision that de-duplication sees is a tombstone. -/
theorem clock_skew_loses_property :
    let ops := [Op.apply "k" .merge [("a", "1")] 10, .apply "k" .merge [("b", "1")] 5]
    (queryOp (ops.foldl sysStep (emptyCluster 2)) allUp ["k"] false).2.props = [] ∧
    ((ops.foldl AMap.step emptyMap) "k").isSome = true := by decide


/-! ## 3. repair is a join on `(revision, deleted?)`; gossip converges

Storage may hold two documents with one id (see the model's header); what Query answers and what replicas converge
to is the newest revision of a key and whether it is a tombstone: `cver d = (rev, deleted?)`, `ctopVer s k`.
`FlagConsistent s`: all stored documents of one key and revision agree on "deleted?" (two documents of one id are
both tombstones) — preserved by every repair. -/

/-- `repair_join`: `shard.repair` moves the newest `(revision, deleted?)` of every key to the join with the
    incoming one (tombstone over live on the same revision), and keeps storage flag-consistent. -/
theorem repair_join {s : Shard} (hf : FlagConsistent s) (d : Doc) {t : Nat} (ht : 0 < t) (k : String) :
    ctopVer (repair s d t).1 k = vjoin (ctopVer s k) (contrib d k) ∧ FlagConsistent (repair s d t).1 := by
  have h := repair_ctopVer hf d ht
  refine ⟨?_, h.2⟩
  by_cases hk : d.key = k
  · subst hk; simp only [contrib, if_true]; exact h.1
  · simp only [contrib, hk, if_false, vjoin_none_right]
    exact repair_ctopVer_other s d t (Ne.symm hk)

/-- `repair_monotone`: the newest state of a key never goes down — not to a lower revision, and not from a
    tombstone back to the live document of the same revision — whatever is sent. -/
theorem repair_monotone {s : Shard} (hf : FlagConsistent s) (d : Doc) {t : Nat} (ht : 0 < t) (k : String) :
    ole (ctopVer s k) (ctopVer (repair s d t).1 k) := by
  rw [(repair_join hf d ht k).1]; exact ole_vjoin_left _ _

/-- … and a document that is not newer than the stored newest one (`Refuses`: lower revision, or same revision and
    not a later delete time — in particular the live document against a tombstone) changes nothing at all; the
    stored one is handed back (`selfNewer`) for the sender to adopt. -/
theorem repair_never_replaces_newer_or_equal (s : Shard) (d l : Doc) (t : Nat) (hl : topLast s d.key = some l)
    (h : Refuses l d) : repair s d t = (s, false, some l) := repair_refuse t hl h

example : repair [⟨"k", 5, 5, [("a", "1")], 9⟩] ⟨"k", 5, 5, [("a", "1")], 0⟩ 77
    = ([⟨"k", 5, 5, [("a", "1")], 9⟩], false, some ⟨"k", 5, 5, [("a", "1")], 9⟩) := by decide

/-- `repair_idempotent`: repeating a repair changes nothing (the document just written is the one the next
    comparison picks). -/
theorem repair_idempotent {s : Shard} (hf : FlagConsistent s) (d : Doc) {t : Nat} (ht : 0 < t) (t' : Nat) :
    (repair (repair s d t).1 d t').1 = (repair s d t).1 := by
  have hrefl : Refuses d d := Or.inr ⟨rfl, Nat.le_refl _⟩
  cases hl : topLast s d.key with
  | none =>
    rw [repair_empty_eq t hl]
    rw [repair_refuse t' (repair_empty_spec hf hl).2.2 hrefl]
  | some l =>
    by_cases h : Refuses l d
    · rw [repair_refuse t hl h, repair_refuse t' hl h]
    · rw [repair_accept_eq t hl h]
      rw [repair_refuse t' (repair_accept_spec hf ht hl h).2.2 hrefl]

/-- `repair_commutative`: the newest state of every key after two repairs does not depend on their order
    (nor on the delete times drawn while tombstoning older documents). -/
theorem repair_commutative {s : Shard} (hf : FlagConsistent s) (a b : Doc) {t₁ t₂ t₃ t₄ : Nat}
    (h₁ : 0 < t₁) (h₂ : 0 < t₂) (h₃ : 0 < t₃) (h₄ : 0 < t₄) (k : String) :
    ctopVer (repair (repair s a t₁).1 b t₂).1 k = ctopVer (repair (repair s b t₃).1 a t₄).1 k := by
  have ha := repair_join hf a h₁ k
  have hb := repair_join hf b h₃ k
  rw [(repair_join (repair_join hf a h₁ k).2 b h₂ k).1, (repair_join (repair_join hf b h₃ k).2 a h₄ k).1, ha.1, hb.1]
  rw [vjoin_assoc, vjoin_assoc, vjoin_comm (contrib a k)]

/-- the fixed `shard.repair` still stores two documents with one id when a tombstone is repaired onto the live
    document of the same revision (both tombstones; upstream `TestRepair` asserts the two documents). -/
theorem repair_stores_two_documents_with_one_id :
    (repair [⟨"k", 5, 5, [("a", "1")], 0⟩] ⟨"k", 5, 5, [("a", "1")], 9⟩ 77).1
      = [⟨"k", 5, 5, [("a", "1")], 77⟩, ⟨"k", 5, 5, [("a", "1")], 9⟩] := by decide

/-- Fairness: for the key under consideration every two replicas take part in at least one gossip exchange with
    each other (in either role, anywhere in the sequence). -/
def Fair (n : Nat) (k : String) (ops : List COp) : Prop :=
  ∀ i j, i < n → j < n → i ≠ j → COp.g i j k ∈ ops ∨ COp.g j i k ∈ ops

/-- `gossip_converges`: for ANY flag-consistent initial contents of the replicas (each may have missed arbitrary
    updates and deletions) and ANY sequence of single-leaf gossip exchanges and one-way repairs over any keys that is
    fair for key `k`, every replica ends with the same newest state of `k`: the join (highest revision; tombstone
    over live) of the initial newest states. -/
theorem gossip_converges (c : Cluster) (k : String) (ops : List COp) (hinv : CInv c)
    (hvalid : ∀ op ∈ ops, op.valid c.reps.length) (hfair : Fair c.reps.length k ops) :
    ∀ i, i < c.reps.length → tvf (crun c ops) k i = maxOver (tvf c k) c.reps.length := by
  intro i hi
  rw [(crun_abs k ops c hvalid hinv).1]
  apply abstract_converges c.reps.length (tvf c k) _ _ _ i hi
  · intro j hj
    simp [tvf, topd, List.getElem?_eq_none hj]
  · intro a b ha hb hab
    rcases hfair a b ha hb hab with h | h
    · left; exact List.mem_map.2 ⟨_, h, by simp [absOp]⟩
    · right; exact List.mem_map.2 ⟨_, h, by simp [absOp]⟩

/-- a revision identifies one apply: documents of one key and revision have the same create revision and tags,
    wherever they are stored (true of every state reached with a strictly increasing clock). -/
def Coherent (c : Cluster) : Prop :=
  ∀ s ∈ c.reps, ∀ s' ∈ c.reps, ∀ x ∈ s, ∀ y ∈ s', x.key = y.key → x.rev = y.rev → x.created = y.created ∧ x.tags = y.tags

/-- what a client can see of a document. -/
def content (d : Doc) : Nat × Nat × Tags × Bool := (d.rev, d.created, d.tags, decide (0 < d.del))

/-- `gossip_converges_docs`: … and the newest VALUE (revision, create revision, tags) or tombstone is then
    identical on all replicas. -/
theorem gossip_converges_docs (c : Cluster) (k : String) (ops : List COp) (hinv : CInv c)
    (hvalid : ∀ op ∈ ops, op.valid c.reps.length) (hfair : Fair c.reps.length k ops) (hc : Coherent c) :
    ∀ i j, i < c.reps.length → j < c.reps.length →
      (topd (crun c ops) k i).map content = (topd (crun c ops) k j).map content := by
  intro i j hi hj
  have e1 := gossip_converges c k ops hinv hvalid hfair i hi
  have e2 := gossip_converges c k ops hinv hvalid hfair j hj
  have hfrom := (crun_abs k ops c hvalid hinv).2.2.1
  have e : (topd (crun c ops) k i).map cver = (topd (crun c ops) k j).map cver := by
    simp only [tvf] at e1 e2; rw [e1, e2]
  -- a newest document lies in a shard of the final cluster
  have loc : ∀ n d, topd (crun c ops) k n = some d → ∃ s ∈ (crun c ops).reps, d ∈ s ∧ d.key = k := by
    intro n d h
    simp only [topd] at h
    split at h
    · rename_i s hs
      exact ⟨s, List.mem_of_getElem? hs, (top_spec h).1, (top_spec h).2.1⟩
    · cases h
  cases hd : topd (crun c ops) k i with
  | none =>
    rw [hd] at e
    cases he : topd (crun c ops) k j with
    | none => rfl
    | some x => rw [he] at e; simp at e
  | some d =>
    rw [hd] at e
    cases he : topd (crun c ops) k j with
    | none => rw [he] at e; simp at e
    | some x =>
      rw [he] at e
      simp only [Option.map_some, Option.some.injEq, cver, Prod.mk.injEq] at e
      obtain ⟨s1, hs1, hd1, hk1⟩ := loc i d hd
      obtain ⟨s2, hs2, hd2, hk2⟩ := loc j x he
      obtain ⟨o1, ho1, y1, hy1, c1⟩ := hfrom s1 hs1 d hd1
      obtain ⟨o2, ho2, y2, hy2, c2⟩ := hfrom s2 hs2 x hd2
      have hco := hc o1 ho1 o2 ho2 y1 hy1 y2 hy2
        (by rw [c1.1, c2.1, hk1, hk2]) (by rw [c1.2.1, c2.2.1]; exact e.1)
      have hflag : decide (0 < d.del) = decide (0 < x.del) := by
        have := e.2
        by_cases h1 : 0 < d.del <;> by_cases h2 : 0 < x.del <;> simp [h1, h2] at this ⊢
      simp only [Option.map_some, content, Option.some.injEq, Prod.mk.injEq]
      exact ⟨e.1, by rw [← c1.2.2.1, ← c2.2.2.1]; exact hco.1, by rw [← c1.2.2.2, ← c2.2.2.2]; exact hco.2, hflag⟩

/-- non-vacuity of `gossip_converges`: a replica that missed a deletion, one that saw it, an empty one;
    three exchanges, each pair once. -/
def exampleCluster : Cluster :=
  { reps := [[⟨"k", 10, 10, [("a", "1")], 0⟩], [⟨"k", 10, 10, [("a", "1")], 3⟩], []], clk := 50 }

def exampleOps : List COp := [.g 2 0 "k", .r 0 1 "j", .g 1 2 "k", .g 0 1 "k"]

example : CInv exampleCluster ∧ (∀ op ∈ exampleOps, op.valid exampleCluster.reps.length) ∧
    Fair exampleCluster.reps.length "k" exampleOps ∧ Coherent exampleCluster := by
  refine ⟨⟨?_, by decide⟩, ?_, ?_, ?_⟩
  · intro s hs
    simp only [exampleCluster, List.mem_cons, List.mem_nil_iff, or_false] at hs
    rcases hs with rfl | rfl | rfl <;> intro x hx y hy <;> simp_all
  · intro op hop
    simp only [exampleOps, List.mem_cons, List.mem_nil_iff, or_false] at hop
    rcases hop with rfl | rfl | rfl | rfl <;> simp [COp.valid, exampleCluster]
  · intro i j hi hj hij
    simp only [exampleCluster, List.length_cons, List.length_nil] at hi hj
    have hi' : i = 0 ∨ i = 1 ∨ i = 2 := by omega
    have hj' : j = 0 ∨ j = 1 ∨ j = 2 := by omega
    rcases hi' with rfl | rfl | rfl <;> rcases hj' with rfl | rfl | rfl <;> simp [exampleOps] at hij ⊢
  · intro s hs s' hs' x hx y hy _ _
    simp only [exampleCluster, List.mem_cons, List.mem_nil_iff, or_false] at hs hs'
    rcases hs with rfl | rfl | rfl <;> rcases hs' with rfl | rfl | rfl <;> simp_all

example : (List.range 3).map (tvf (crun exampleCluster exampleOps) "k") = [some (10, 1), some (10, 1), some (10, 1)] := by
  decide

/-! ## 4. query-time de-duplication -/

/-- `dedup_spec` (`simpleDedupWithoutSort`): whatever the order in which the nodes' answers are visited, the
    result has exactly one entry per key that occurs in the answers, and for each entry: its version
    `(rev, deleteTime)` is that of some answer of the key, its content is that of an answer with that key and
    revision, and no answer of the key is newer (`GoodEntry`). -/
theorem dedup_spec (items : List (Nat × Doc)) :
    ((simpleDedup items).map (fun e => e.doc.key)).Nodup ∧
    (∀ e ∈ simpleDedup items, GoodEntry items e) ∧
    (∀ it ∈ items, ∃ e ∈ simpleDedup items, e.doc.key = it.2.key) :=
  ⟨(simpleDedup_inv items).nodup, (simpleDedup_inv items).good, (simpleDedup_inv items).covered⟩

/-- `dedup_spec` (`sortedQueryWithDedup`): for ANY arrival order of the k-way merge and either direction, the
    result buffer is a permutation of entries that — sort value annotation aside — are exactly the entries
    `simpleDedupWithoutSort` computes on the same answers: both variants pick the same highest revision per key. -/
theorem dedup_spec_sorted (desc : Bool) (items : List (Nat × Doc × Option String)) :
    ∃ seen : List Entry, (sortedDedup desc items).Perm seen ∧ seen.map strip = simpleDedup (items.map dropSort) := by
  have h := sortedDedup_inv desc items
  exact ⟨_, h.buf, h.seen⟩

/-- consequence: every entry of the sorted result is a good entry for its key, and every key is present once. -/
theorem dedup_spec_sorted_good (desc : Bool) (items : List (Nat × Doc × Option String)) :
    (∀ e ∈ sortedDedup desc items, GoodEntry (items.map dropSort) e) ∧
    ((sortedDedup desc items).map (fun e => e.doc.key)).Nodup := by
  obtain ⟨seen, hp, hs⟩ := dedup_spec_sorted desc items
  have inv := simpleDedup_inv (items.map dropSort)
  constructor
  · intro e he
    have he' : strip e ∈ simpleDedup (items.map dropSort) := by
      rw [← hs]; exact List.mem_map.2 ⟨e, hp.subset he, rfl⟩
    exact (inv.good _ he').of_doc rfl
  · have : (seen.map (fun e => e.doc.key)).Nodup := by
      rw [← keys_strip, hs]; exact inv.nodup
    exact (hp.map _).nodup_iff.2 this

example : (sortedDedup false [(0, ⟨"k", 5, 0, [], 0⟩, some "b"), (1, ⟨"j", 2, 0, [], 0⟩, some "c"),
      (1, ⟨"k", 5, 0, [], 9⟩, some "b"), (2, ⟨"k", 7, 0, [], 0⟩, some "a")]).map (fun e => (e.doc.key, e.doc.rev, e.doc.del))
    = [("k", 7, 0), ("j", 2, 0)] := by decide

/-- the order of the result buffer (ascending / descending by sort value, documents without the tag last) is
    checked on every run against the implementation but not proved about the model. -/
def SortedDedupOrderedStatement : Prop :=
  ∀ (desc : Bool) (items : List (Nat × Doc × Option String)),
    List.Pairwise (fun a b => svBefore desc b.sorted a.sorted = false) (sortedDedup desc items)

/-! ## 4b. Merkle leaf names -/

theorem splitFirst_append {g : List Byte} (hg : leafSep ∉ g) (rest : List Byte) :
    splitFirst (g ++ leafSep :: rest) = some (g, rest) := by
  induction g with
  | nil => simp [splitFirst]
  | cons c cs ih =>
    have hc : c ≠ leafSep := fun e => hg (by simp [e])
    have hcs : leafSep ∉ cs := fun h => hg (by simp [h])
    simp [splitFirst, hc, ih hcs]

/-- `leafEntity_roundtrip`: for a group and a name without the separator `/`, and ANY id (separators anywhere,
    repeated, leading, trailing, empty), the Merkle leaf name parses back to the three components. -/
theorem leafEntity_roundtrip (g n id : List Byte) (hg : leafSep ∉ g) (hn : leafSep ∉ n) :
    parseLeaf (buildLeaf g n id) = some (g, n, id) := by
  have e : buildLeaf g n id = g ++ leafSep :: (n ++ leafSep :: id) := by simp [buildLeaf]
  simp only [parseLeaf, e, splitFirst_append hg, splitFirst_append hn]

/-- leaf names identify properties. -/
theorem leafEntity_injective (g n id g' n' id' : List Byte) (hg : leafSep ∉ g) (hn : leafSep ∉ n)
    (hg' : leafSep ∉ g') (hn' : leafSep ∉ n') (h : buildLeaf g n id = buildLeaf g' n' id') :
    g = g' ∧ n = n' ∧ id = id' := by
  have a := leafEntity_roundtrip g n id hg hn
  rw [h, leafEntity_roundtrip g' n' id' hg' hn'] at a
  simp at a
  exact ⟨a.1.symm, a.2.1.symm, a.2.2.symm⟩

example : parseLeaf (buildLeaf [103, 48] [112, 48] [47, 97, 47, 47, 98, 47]) = some ([103, 48], [112, 48], [47, 97, 47, 47, 98, 47]) := by
  decide

/-- a parse that splits at EVERY separator and demands three parts loses every id that contains one
    (`svc/instance-1`): the property of such a leaf can never be loaded by gossip. -/
theorem leafEntity_splitAll_fails :
    parseLeafSplitAll (buildLeaf [103] [112] [115, 47, 105]) = none ∧
    parseLeaf (buildLeaf [103] [112] [115, 47, 105]) = some ([103], [112], [115, 47, 105]) := by decide

/-- without the hypothesis the leaf name is ambiguous: name `a/b` with id `x` and name `a` with id `b/x`. -/
theorem leafEntity_ambiguous_name :
    buildLeaf [103] [97, 47, 98] [120] = buildLeaf [103] [97] [98, 47, 120] := by decide


/-! ## 5. the code at the pinned commit (finding F18a) -/

/-- `shard.repair` as written at the pinned commit (`==` instead of `>=`): a replica that missed a deletion
    overwrites the tombstone of the same revision — the newest state goes DOWN (not monotone). -/
theorem repairLegacy_resurrects :
    let s : Shard := [⟨"k", 5, 5, [("a", "1")], 9⟩]
    (top s "k").map (·.del) = some 9 ∧
    (top (repairLegacy s ⟨"k", 5, 5, [("a", "1")], 0⟩ 77).1 "k").map (·.del) = some 0 := by decide

/-- … and the result of two repairs depends on their order (not commutative): the sender wins. -/
theorem repairLegacy_not_commutative :
    let a : Doc := ⟨"k", 5, 5, [("a", "1")], 0⟩
    let b : Doc := ⟨"k", 5, 5, [("a", "1")], 9⟩
    ctopVer (repairLegacy (repairLegacy [] a 70).1 b 71).1 "k" = some (5, 1) ∧
    ctopVer (repairLegacy (repairLegacy [] b 70).1 a 71).1 "k" = some (5, 0) := by decide

/-- residual finding F18c (fixed code too): with two documents of one id in a shard, the id lookup of a delete
    (limit = number of listed ids) is used up by the pair and a LIVE revision named in the same list stays live:
    Delete answers `deleted` and the next Query still returns the property. -/
theorem dup_and_lookup_limit_lose_a_delete :
    let c : Cluster := { reps := [[⟨"k", 10, 10, [("a", "1")], 5⟩],
                                  [⟨"k", 10, 10, [("a", "1")], 7⟩, ⟨"k", 10, 10, [("a", "1")], 5⟩, ⟨"k", 40, 40, [("b", "x")], 0⟩],
                                  [⟨"k", 10, 10, [("a", "1")], 0⟩]], clk := 60 }
    (deleteOp c allUp "k").2 = .ok true ∧
    (queryOp (deleteOp c allUp "k").1 allUp ["k"] false).2.props = [⟨"k", 40, 40, [("b", "x")], 0⟩] := by decide

/-- the unsorted de-duplication as written: with the same revision live on one node and deleted on another, the
    answer depends on the (random) iteration order of the node map. -/
theorem simpleDedupLegacy_order_dependent :
    let live : Doc := ⟨"k", 5, 5, [("a", "1")], 0⟩
    let dead : Doc := ⟨"k", 5, 5, [("a", "1")], 9⟩
    (simpleDedupLegacy [(0, live), (1, dead)]).map (·.doc.del) = [0] ∧
    (simpleDedupLegacy [(1, dead), (0, live)]).map (·.doc.del) = [9] ∧
    (simpleDedup [(0, live), (1, dead)]).map (·.doc.del) = [9] ∧
    (simpleDedup [(1, dead), (0, live)]).map (·.doc.del) = [9] := by decide

end Banyan.C18
