import Banyan.Model.C18
namespace Banyan.C18
end Banyan.C18
