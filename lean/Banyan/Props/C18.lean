/-
C18 — Properties are last-writer-wins and replicas converge.
Property theorems only (about the model in Banyan/Model/C18.lean, which mirrors the code WITH fix F18a);
helper lemmas live in Banyan/Lemmas/C18{Repair,Lattice,Cluster,Dedup,Map}.lean.

Vocabulary
  `Doc`, `Shard`           one stored revision (key, rev = ModRevision, created = CreateRevision, tags, del = delete time,
                           0 = live) / the documents of one replica of one shard
  `ver d = (rev, del)`     version; `vlt` = revision first, then delete time (live < tombstone < later tombstone)
  `top s k`, `topVer`      newest document / version of key `k` in shard `s` (what repair and gossip compare)
  `vjoin`, `ole`           join and order of `Option Ver` (nothing stored = bottom)
  `applyOp/deleteOp/queryOp`   the liaison's Apply / Delete / Query over a `Cluster` with a reachability predicate
  `repair`, `gossipLeaf`   `shard.repair`, one single-leaf gossip exchange
  `AMap`, `AMap.step`      the specification: `Key → Option Value`
-/
import Banyan.Lemmas.C18Map
import Banyan.Lemmas.C18Cluster

namespace Banyan.C18

/-! ## 1. apply: merge / replace -/

def lookupTag (t : Tags) (k : String) : Option String := (t.find? fun x => x.1 == k).map Prod.snd

/-- `apply_spec` (tags): after a merge, a tag key has the request's value if the request carries it, otherwise
    the previous value; the request's tags come first, the kept ones follow in their previous order. -/
theorem mergeTags_lookup (cur prev : Tags) (k : String) :
    lookupTag (mergeTags cur prev) k = (lookupTag cur k).or (lookupTag prev k) := by
  simp only [lookupTag, mergeTags, List.find?_append]
  cases hc : cur.find? (fun x => x.1 == k) with
  | some x => simp
  | none =>
    simp only [Option.map_none, Option.none_or, Option.or_eq_right_of_none]
    congr 1
    apply find?_filter_of_imp
    intro x _ hx
    have hx' : x.1 = k := by simpa using hx
    have hn : ∀ c ∈ cur, ¬ (c.1 == k) = true := by
      intro c hc'; exact List.find?_eq_none.1 hc c hc'
    have : (cur.any fun c => c.1 == x.1) = false := by
      rw [List.any_eq_false]; intro c hc'; rw [hx']; exact hn c hc'
    simp [this]

theorem mergeTags_order (cur prev : Tags) :
    mergeTags cur prev = cur ++ prev.filter (fun t => !(cur.any fun c => c.1 == t.1)) := rfl

/-- no tag key is duplicated by a merge. -/
theorem mergeTags_nodup (cur prev : Tags) (hc : (cur.map Prod.fst).Nodup) (hp : (prev.map Prod.fst).Nodup) :
    ((mergeTags cur prev).map Prod.fst).Nodup := by
  simp only [mergeTags, List.map_append, List.nodup_append]
  refine ⟨hc, (List.filter_sublist.map _).nodup hp, ?_⟩
  intro a ha b hb
  simp only [List.mem_map, List.mem_filter] at ha hb
  obtain ⟨x, hx, rfl⟩ := ha
  obtain ⟨y, ⟨_, hy⟩, rfl⟩ := hb
  intro e
  have : (cur.any fun c => c.1 == y.1) = true := List.any_eq_true.2 ⟨x, hx, by simp [e]⟩
  simp [this] at hy

/-- `apply_spec` (document): what `replaceProperty` writes. -/
theorem apply_spec (k : String) (strat : Strategy) (tags : Tags) (now : Nat) (prev : Option Doc) :
    let d := newDoc k strat tags now prev
    d.key = k ∧ d.rev = now ∧ d.del = 0 ∧
    d.created = (match prev with | some p => p.created | none => now) ∧
    d.tags = (match strat, prev with
      | .merge, some p => mergeTags tags p.tags
      | _, _ => tags) := by
  cases prev <;> cases strat <;> simp [newDoc]

example : newDoc "k" .merge [("b", "3"), ("c", "4")] 20 (some ⟨"k", 10, 10, [("a", "1"), ("b", "2")], 0⟩)
    = ⟨"k", 20, 10, [("b", "3"), ("c", "4"), ("a", "1")], 0⟩ := by decide

/-! ## 2. the fault-free system is a map

`Op`, `AMap.step` (the specification), `sysStep` (liaison Apply/Delete over a cluster in which every replica is
reachable), `ClockOK` (the clock hypothesis) and `clockEnd` are defined in Banyan/Lemmas/C18Map.lean. -/

/-- `map_refinement`: on `n ≥ 1` replicas that all receive every call, after ANY sequence of applies (merge or
    replace) and deletes whose clock readings strictly increase, an unordered Query for any set of keys returns,
    for every requested key, exactly the value the map holds (nothing for a deleted or never written key), each
    key once — with the create revision, modification revision and tags of the map's value. -/
theorem map_refinement (n : Nat) (hn : 0 < n) (ops : List Op) (hclk : ClockOK 0 ops) (keys : List String) (rr : Bool) :
    let c := ops.foldl sysStep (emptyCluster n)
    let m := ops.foldl AMap.step emptyMap
    (∀ d, d ∈ (queryOp c allUp keys rr).2.props ↔ ∃ k ∈ keys, ∃ v, m k = some v ∧ d = docOf k v) ∧
    ((queryOp c allUp keys rr).2.props.map (·.key)).Nodup :=
  query_ok (run_ok ops _ _ 0 (emptyCluster_ok hn) hclk) keys rr

/-- non-vacuity: a concrete history satisfies the clock hypothesis … -/
example : ClockOK 0 [.apply "k" .merge [("a", "1")] 10, .delete "k", .apply "k" .replace [("b", "2")] 11] := by
  simp [ClockOK]

/-- … and the model computes what the map says on it. -/
example :
    (queryOp ([Op.apply "k" .merge [("a", "1")] 10, .apply "j" .merge [("a", "1")] 11, .delete "j",
        .apply "k" .merge [("b", "2")] 12].foldl sysStep (emptyCluster 2)) allUp ["k", "j"] false).2.props
      = [⟨"k", 12, 10, [("b", "2"), ("a", "1")], 0⟩] := by decide

/-- the response of a fault-free Apply: `created` iff the map had no value; `tags_num` = number of tags stored. -/
theorem apply_response {c : Cluster} {m : AMap} {b : Nat} (h : ClusterOK c m b) (k : String) (strat : Strategy)
    (tags : Tags) (now : Nat) (hb : b < now) (ht : tags.isEmpty = false) :
    (applyOp c allUp k strat tags now).2 = .ok (m k).isNone (applyVal m k strat tags now).tags.length :=
  (applyOp_ok h k strat tags now hb ht).2

/-- `modRevision_strict`: under the clock hypothesis an Apply stores `modRevision = now`, strictly above the
    revision it replaces, and keeps the create revision (or sets it to `now` for a new or deleted key). -/
theorem modRevision_strict (ops : List Op) (k : String) (s : Strategy) (tags : Tags) (now : Nat)
    (hclk : ClockOK 0 ops) (hnow : clockEnd 0 ops < now) (ht : tags.isEmpty = false) :
    let m := ops.foldl AMap.step emptyMap
    ∃ v', (AMap.step m (.apply k s tags now)) k = some v' ∧ v'.rev = now ∧
      (∀ v, m k = some v → v.rev < now ∧ v'.created = v.created) ∧ (m k = none → v'.created = now) := by
  intro m
  refine ⟨applyVal m k s tags now, by simp [AMap.step, ht, setKey], ?_, ?_, ?_⟩
  · simp only [applyVal]; split <;> rfl
  · intro v hv
    have := amap_bound ops emptyMap 0 (by simp [emptyMap]) hclk k v hv
    exact ⟨by omega, by simp [applyVal, hv]⟩
  · intro hv; simp [applyVal, hv]

example : ClockOK 0 [Op.apply "k" .merge [("a", "1")] 10] ∧ clockEnd 0 [Op.apply "k" .merge [("a", "1")] 10] < 11 := by
  simp [ClockOK, clockEnd]

/-- WITHOUT the clock hypothesis the refinement fails. Two applies that read the same nanosecond: the second
    document has the id of the first, and the deferred clean-up of "older" properties tombstones it — the key
    is gone although the map (and the client, who got two successes) has a value. -/
theorem clock_tie_loses_property :
    let ops := [Op.apply "k" .merge [("a", "1")] 10, .apply "k" .merge [("b", "1")] 10]
    (queryOp (ops.foldl sysStep (emptyCluster 2)) allUp ["k"] false).2.props = [] ∧
    (ops.foldl AMap.step emptyMap) "k" = some ⟨10, 10, [("b", "1"), ("a", "1")]⟩ := by decide

/-- a second liaison whose clock is behind: the newer write gets the lower revision, the clean-up tombstones the
    higher one, and the highest revision that de-duplication sees is a tombstone. -/
theorem clock_skew_loses_property :
    let ops := [Op.apply "k" .merge [("a", "1")] 10, .apply "k" .merge [("b", "1")] 5]
    (queryOp (ops.foldl sysStep (emptyCluster 2)) allUp ["k"] false).2.props = [] ∧
    ((ops.foldl AMap.step emptyMap) "k").isSome = true := by decide


/-! ## 3. repair is a join; gossip converges -/

/-- what an incoming document contributes to the newest state of key `k`. -/
def contrib (d : Doc) (k : String) : Option Ver := if d.key = k then some (ver d) else none

/-- `repair_join`: `shard.repair` moves the newest state of every key to the join with the incoming state. -/
theorem repair_join (s : Shard) (d : Doc) (t : Nat) (k : String) :
    topVer (repair s d t).1 k = vjoin (topVer s k) (contrib d k) := by
  by_cases h : d.key = k
  · subst h; simp only [contrib, if_true]; exact repair_topVer s d t
  · simp only [contrib, h, if_false, vjoin_none_right]
    exact repair_topVer_other s d t (Ne.symm h)

/-- `repair_monotone`: the newest state of a key never goes down (revision first, then tombstone over live,
    then later tombstone), whatever is sent. -/
theorem repair_monotone (s : Shard) (d : Doc) (t : Nat) (k : String) :
    ole (topVer s k) (topVer (repair s d t).1 k) := by
  rw [repair_join]; exact ole_vjoin_left _ _

/-- … and a document that is not newer than the stored newest one changes nothing at all, and the stored one is
    handed back (`selfNewer`) for the sender to adopt. -/
theorem repair_never_replaces_newer_or_equal (s : Shard) (d l : Doc) (t : Nat) (hl : top s d.key = some l)
    (h : ¬ vlt (ver l) (ver d)) : repair s d t = (s, false, some l) := repair_refuse t hl h

example : repair [⟨"k", 5, 5, [("a", "1")], 9⟩] ⟨"k", 5, 5, [("a", "1")], 0⟩ 77
    = ([⟨"k", 5, 5, [("a", "1")], 9⟩], false, some ⟨"k", 5, 5, [("a", "1")], 9⟩) := by decide

/-- `repair_idempotent`: repeating a repair changes nothing. -/
theorem repair_idempotent (s : Shard) (d : Doc) (t t' : Nat) :
    (repair (repair s d t).1 d t').1 = (repair s d t).1 := by
  rcases repair_top_cases s d t with h | h
  · rw [repair_refuse t' h (vlt_irrefl _)]
  · cases hl : top s d.key with
    | none => rw [(repair_empty t hl).1] at h; rw [hl] at h; cases h
    | some l =>
      by_cases hv : vlt (ver l) (ver d)
      · rw [repair_refuse t' (repair_accept t hl hv).1 (vlt_irrefl _)]
      · rw [repair_refuse t hl hv]
        rw [repair_refuse t' hl hv]

/-- `repair_commutative`: the newest state of every key after two repairs does not depend on their order
    (nor on the delete times drawn while tombstoning older documents). -/
theorem repair_commutative (s : Shard) (a b : Doc) (t₁ t₂ t₃ t₄ : Nat) (k : String) :
    topVer (repair (repair s a t₁).1 b t₂).1 k = topVer (repair (repair s b t₃).1 a t₄).1 k := by
  simp only [repair_join]
  rw [vjoin_assoc, vjoin_assoc, vjoin_comm (contrib a k)]

/-- Fairness: for the key under consideration every two replicas take part in at least one gossip exchange with
    each other (in either role, anywhere in the sequence). -/
def Fair (n : Nat) (k : String) (ops : List COp) : Prop :=
  ∀ i j, i < n → j < n → i ≠ j → COp.g i j k ∈ ops ∨ COp.g j i k ∈ ops

/-- `gossip_converges`: for ANY initial contents of the replicas (each may have missed arbitrary updates and
    deletions) and ANY sequence of single-leaf gossip exchanges and one-way repairs over any keys that is fair for
    key `k`, every replica ends with the same newest state of `k`: the join (highest revision; tombstone over
    live; later tombstone) of the initial newest states. -/
theorem gossip_converges (c : Cluster) (k : String) (ops : List COp)
    (hvalid : ∀ op ∈ ops, op.valid c.reps.length) (hfair : Fair c.reps.length k ops) :
    ∀ i, i < c.reps.length → tvf (crun c ops) k i = maxOver (tvf c k) c.reps.length := by
  intro i hi
  rw [(crun_abs k ops c hvalid).1]
  apply abstract_converges c.reps.length (tvf c k) _ _ _ i hi
  · intro j hj
    simp [tvf, topd, List.getElem?_eq_none hj]
  · intro a b ha hb hab
    rcases hfair a b ha hb hab with h | h
    · left; exact List.mem_map.2 ⟨_, h, by simp [absOp]⟩
    · right; exact List.mem_map.2 ⟨_, h, by simp [absOp]⟩

/-- two newest documents of `k` in the cluster with the same version are the same document (true of every state
    the system reaches from empty replicas with a strictly increasing clock: a revision identifies one apply,
    a delete time one deletion event). -/
def CoherentTops (c : Cluster) (k : String) : Prop :=
  ∀ i j d e, topd c k i = some d → topd c k j = some e → ver d = ver e → d = e

example : CoherentTops { reps := [[⟨"k", 10, 10, [("a", "1")], 3⟩], [⟨"k", 10, 10, [("a", "1")], 3⟩, ⟨"k", 4, 4, [], 2⟩]], clk := 9 } "k" := by
  intro i j d e hd he _
  have hi : i = 0 ∨ i = 1 ∨ 2 ≤ i := by omega
  have hj : j = 0 ∨ j = 1 ∨ 2 ≤ j := by omega
  have t0 : topd { reps := [[⟨"k", 10, 10, [("a", "1")], 3⟩], [⟨"k", 10, 10, [("a", "1")], 3⟩, ⟨"k", 4, 4, [], 2⟩]], clk := 9 } "k" 0
      = some ⟨"k", 10, 10, [("a", "1")], 3⟩ := by decide
  have t1 : topd { reps := [[⟨"k", 10, 10, [("a", "1")], 3⟩], [⟨"k", 10, 10, [("a", "1")], 3⟩, ⟨"k", 4, 4, [], 2⟩]], clk := 9 } "k" 1
      = some ⟨"k", 10, 10, [("a", "1")], 3⟩ := by decide
  have t2 : ∀ n, 2 ≤ n → topd { reps := [[⟨"k", 10, 10, [("a", "1")], 3⟩], [⟨"k", 10, 10, [("a", "1")], 3⟩, ⟨"k", 4, 4, [], 2⟩]], clk := 9 } "k" n
      = none := by
    intro n hn
    simp only [topd]
    rw [List.getElem?_eq_none (by simpa using hn)]
  rcases hi with rfl | rfl | hi <;> rcases hj with rfl | rfl | hj <;>
    simp_all

/-- `gossip_converges_docs`: … and the newest DOCUMENTS (value or tombstone, with tags and create revision) are
    then identical on all replicas. -/
theorem gossip_converges_docs (c : Cluster) (k : String) (ops : List COp)
    (hvalid : ∀ op ∈ ops, op.valid c.reps.length) (hfair : Fair c.reps.length k ops) (hc : CoherentTops c k) :
    ∀ i j, i < c.reps.length → j < c.reps.length → topd (crun c ops) k i = topd (crun c ops) k j := by
  intro i j hi hj
  have e1 := gossip_converges c k ops hvalid hfair i hi
  have e2 := gossip_converges c k ops hvalid hfair j hj
  obtain ⟨i', hi'⟩ := (crun_abs k ops c hvalid).2 i
  obtain ⟨j', hj'⟩ := (crun_abs k ops c hvalid).2 j
  have e : (topd (crun c ops) k i).map ver = (topd (crun c ops) k j).map ver := by
    simp only [tvf] at e1 e2; rw [e1, e2]
  cases hd : topd (crun c ops) k i with
  | none =>
    rw [hd] at e
    cases he : topd (crun c ops) k j with
    | none => rfl
    | some x => rw [he] at e; simp at e
  | some d =>
    rw [hd] at e
    cases he : topd (crun c ops) k j with
    | none => rw [he] at e; simp at e
    | some x =>
      rw [he] at e
      simp at e
      rw [hc i' j' d x (by rw [← hi', hd]) (by rw [← hj', he]) e]


/-- non-vacuity of `gossip_converges`: a replica that missed a deletion, one that saw it, an empty one;
    three exchanges, each pair once. -/
def exampleCluster : Cluster :=
  { reps := [[⟨"k", 10, 10, [("a", "1")], 0⟩], [⟨"k", 10, 10, [("a", "1")], 3⟩], []], clk := 50 }

def exampleOps : List COp := [.g 2 0 "k", .r 0 1 "j", .g 1 2 "k", .g 0 1 "k"]

example : (∀ op ∈ exampleOps, op.valid exampleCluster.reps.length) ∧ Fair exampleCluster.reps.length "k" exampleOps := by
  constructor
  · intro op hop
    simp only [exampleOps, List.mem_cons, List.mem_nil_iff, or_false] at hop
    rcases hop with rfl | rfl | rfl | rfl <;> simp [COp.valid, exampleCluster]
  · intro i j hi hj hij
    simp only [exampleCluster, List.length_cons, List.length_nil] at hi hj
    have hi' : i = 0 ∨ i = 1 ∨ i = 2 := by omega
    have hj' : j = 0 ∨ j = 1 ∨ j = 2 := by omega
    rcases hi' with rfl | rfl | rfl <;> rcases hj' with rfl | rfl | rfl <;> simp [exampleOps] at hij ⊢

example : (List.range 3).map (tvf (crun exampleCluster exampleOps) "k") = [some (10, 3), some (10, 3), some (10, 3)] := by
  decide

/-! ## 4. query-time de-duplication -/

/-- `dedup_spec` (`simpleDedupWithoutSort`): whatever the order in which the nodes' answers are visited, the
    result has exactly one entry per key that occurs in the answers, and for each entry: its version
    `(rev, deleteTime)` is that of some answer of the key, its content is that of an answer with that key and
    revision, and no answer of the key is newer (`GoodEntry`). -/
theorem dedup_spec (items : List (Nat × Doc)) :
    ((simpleDedup items).map (fun e => e.doc.key)).Nodup ∧
    (∀ e ∈ simpleDedup items, GoodEntry items e) ∧
    (∀ it ∈ items, ∃ e ∈ simpleDedup items, e.doc.key = it.2.key) :=
  ⟨(simpleDedup_inv items).nodup, (simpleDedup_inv items).good, (simpleDedup_inv items).covered⟩

/-- `dedup_spec` (`sortedQueryWithDedup`): for ANY arrival order of the k-way merge and either direction, the
    result buffer is a permutation of entries that — sort value annotation aside — are exactly the entries
    `simpleDedupWithoutSort` computes on the same answers: both variants pick the same highest revision per key. -/
theorem dedup_spec_sorted (desc : Bool) (items : List (Nat × Doc × Option String)) :
    ∃ seen : List Entry, (sortedDedup desc items).Perm seen ∧ seen.map strip = simpleDedup (items.map dropSort) := by
  have h := sortedDedup_inv desc items
  exact ⟨_, h.buf, h.seen⟩

/-- consequence: every entry of the sorted result is a good entry for its key, and every key is present once. -/
theorem dedup_spec_sorted_good (desc : Bool) (items : List (Nat × Doc × Option String)) :
    (∀ e ∈ sortedDedup desc items, GoodEntry (items.map dropSort) e) ∧
    ((sortedDedup desc items).map (fun e => e.doc.key)).Nodup := by
  obtain ⟨seen, hp, hs⟩ := dedup_spec_sorted desc items
  have inv := simpleDedup_inv (items.map dropSort)
  constructor
  · intro e he
    have he' : strip e ∈ simpleDedup (items.map dropSort) := by
      rw [← hs]; exact List.mem_map.2 ⟨e, hp.subset he, rfl⟩
    exact (inv.good _ he').of_doc rfl
  · have : (seen.map (fun e => e.doc.key)).Nodup := by
      rw [← keys_strip, hs]; exact inv.nodup
    exact (hp.map _).nodup_iff.2 this

example : (sortedDedup false [(0, ⟨"k", 5, 0, [], 0⟩, some "b"), (1, ⟨"j", 2, 0, [], 0⟩, some "c"),
      (1, ⟨"k", 5, 0, [], 9⟩, some "b"), (2, ⟨"k", 7, 0, [], 0⟩, some "a")]).map (fun e => (e.doc.key, e.doc.rev, e.doc.del))
    = [("k", 7, 0), ("j", 2, 0)] := by decide

/-- the order of the result buffer (ascending / descending by sort value, documents without the tag last) is
    checked on every run against the implementation but not proved about the model. -/
def SortedDedupOrderedStatement : Prop :=
  ∀ (desc : Bool) (items : List (Nat × Doc × Option String)),
    List.Pairwise (fun a b => svBefore desc b.sorted a.sorted = false) (sortedDedup desc items)

/-! ## 5. the code at the pinned commit (finding F18a) -/

/-- `shard.repair` as written: a replica that missed a deletion overwrites the tombstone of the same revision —
    the newest state goes DOWN (not monotone). -/
theorem repairLegacy_resurrects :
    let s : Shard := [⟨"k", 5, 5, [("a", "1")], 9⟩]
    (top s "k").map (·.del) = some 9 ∧
    (top (repairLegacy s ⟨"k", 5, 5, [("a", "1")], 0⟩ 77).1 "k").map (·.del) = some 0 := by decide

/-- … and the result of two repairs depends on their order (not commutative): the sender wins. -/
theorem repairLegacy_not_commutative :
    let a : Doc := ⟨"k", 5, 5, [("a", "1")], 0⟩
    let b : Doc := ⟨"k", 5, 5, [("a", "1")], 9⟩
    (top (repairLegacy (repairLegacy [] a 70).1 b 71).1 "k").map (·.del) = some 9 ∧
    (top (repairLegacy (repairLegacy [] b 70).1 a 71).1 "k").map (·.del) = some 0 := by decide

/-- … and a tombstone repaired onto the live document of the same revision leaves two documents with one id. -/
theorem repairLegacy_duplicates_id :
    ((repairLegacy [⟨"k", 5, 5, [("a", "1")], 0⟩] ⟨"k", 5, 5, [("a", "1")], 9⟩ 77).1.map Doc.id)
      = [("k", 5), ("k", 5)] := by decide

/-- the unsorted de-duplication as written: with the same revision live on one node and deleted on another, the
    answer depends on the (random) iteration order of the node map. -/
theorem simpleDedupLegacy_order_dependent :
    let live : Doc := ⟨"k", 5, 5, [("a", "1")], 0⟩
    let dead : Doc := ⟨"k", 5, 5, [("a", "1")], 9⟩
    (simpleDedupLegacy [(0, live), (1, dead)]).map (·.doc.del) = [0] ∧
    (simpleDedupLegacy [(1, dead), (0, live)]).map (·.doc.del) = [9] ∧
    (simpleDedup [(0, live), (1, dead)]).map (·.doc.del) = [9] ∧
    (simpleDedup [(1, dead), (0, live)]).map (·.doc.del) = [9] := by decide

end Banyan.C18
