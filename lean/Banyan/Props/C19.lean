/-
C19 — A file snapshot is a consistent, openable point-in-time copy.
Property theorems only; definitions of the invariants (`Table.WF`, `DB.Inv`, `Holds`) and helper lemmas live in
Banyan/Lemmas/C19.lean, the model in Banyan/Model/C19.lean.

Granularity: op level. Between any two sub-steps of `TakeFileSnapshot`
    pin S | link part 0 | … | link part n-1 | write manifest | unpin
the rest of the system may perform any finite sequence of maintenance operations (`hooks p`); what happens
*inside* one `CreateHardLink` directory walk concurrently with a writer is excluded by the pin (the parts of a
pinned snapshot are immutable and are not deleted) — an op-level argument, not an atomic-step one.
-/
import Banyan.Model.C19
import Banyan.Lemmas.C19

namespace Banyan.C19

/-! ## 1. one table -/

/-- a snapshot of table `t` with maintenance `hooks p` running before the p-th file-system call. -/
def tableSnapshot (t : Table) (hooks : Nat → List MOp) (failAt : Option Nat) : Table × Ret × Nat :=
  takeFileSnapshot Lens.id (fun p t => t.run (hooks p)) failAt none 0 t

/-- **table_snapshot_consistent.** For every interleaving of introduce/flush/merge operations with the sub-steps
    of `TakeFileSnapshot`, the destination contains exactly the file parts of the snapshot `S` that was current
    when the call pinned it (each an intact hard link of a complete, immutable part) plus a manifest naming the
    parts of `S`; the call succeeds; afterwards the table invariant holds and the pin is gone. -/
theorem table_snapshot_consistent (t : Table) (hwf : t.WF) (S : Snap) (hcur : t.cur = some S)
    (hne : S.diskParts ≠ []) (hooks : Nat → List MOp) :
    ∃ t', tableSnapshot t hooks none = (t', ⟨.ok, some S.image⟩, S.diskParts.length + 1)
      ∧ t'.WF ∧ t'.pins = t.pins := by
  obtain ⟨t', hr, _, hw⟩ := takeFileSnapshot_ok Lens.id (fun p t => t.run (hooks p)) (fun _ => True) S
    (fun _ _ _ => rfl) (fun _ _ _ _ => trivial)
    (fun p st _ hh => ⟨trivial, wf_run hh.1 _, by show S ∈ (Table.run st (hooks p)).pins; rw [run_pins]; exact hh.2⟩)
    t trivial hwf hcur hne none 0
  refine ⟨t', by simpa [tableSnapshot, Snap.image] using hr, hw, ?_⟩
  -- the pin list: hooks never touch it, pin pushes S, unpin erases it
  obtain ⟨t3, h3, e3⟩ := takeFileSnapshot_final Lens.id (fun p t => t.run (hooks p)) none none 0 t S hcur
    (fun u => u.pins = S :: t.pins) (fun p u hu => by show (Table.run u (hooks p)).pins = _; rw [run_pins]; exact hu) rfl
  have : t' = t3.unpin S := by
    have h1 : (takeFileSnapshot Lens.id (fun p t => t.run (hooks p)) none none 0 t).1 = t' := by rw [hr]
    rw [← h1]; exact e3
  rw [this]
  show (t3.pins.erase S) = t.pins
  rw [h3]; simp

/-- what opening the copy yields: all linked parts (none is dropped, all are complete), i.e. exactly the flushed
    data of `S`; a manifest entry without a directory can only be an in-memory part of `S` (whose id the
    manifest names exactly as live manifests do), never a file part. -/
theorem snapshot_image_recovers (S : Snap) :
    recover S.image = S.diskParts.map PW.toDisk
    ∧ (∀ p ∈ S.image.parts, p.complete = true)
    ∧ content (recover S.image) = S.diskParts.flatMap (·.batches)
    ∧ (∀ id ∈ S.ids, id ∉ S.image.parts.map (·.id) → ∃ pw ∈ S.parts, pw.mem = true ∧ pw.id = id) := by
  refine ⟨recover_linked S, ?_, ?_, ?_⟩
  · intro p hp
    simp only [Snap.image, List.mem_map] at hp
    obtain ⟨pw, _, rfl⟩ := hp; rfl
  · show content (recover ⟨S.diskParts.map PW.toDisk, some S.ids⟩) = _
    rw [recover_linked, content_linked]
  · intro id hid hnot
    simp only [Snap.ids, List.mem_map] at hid
    obtain ⟨pw, hp, rfl⟩ := hid
    refine ⟨pw, hp, ?_, rfl⟩
    cases hm : pw.mem with
    | true => rfl
    | false =>
      exfalso; apply hnot
      simp only [Snap.image, List.map_map, List.mem_map]
      exact ⟨pw, List.mem_filter.mpr ⟨hp, by simp [hm]⟩, rfl⟩

/-- **point in time.** The content of the copy is the flushed data of the table at the moment of the pin — one
    state that existed during the call — whatever was introduced, flushed or merged afterwards. -/
theorem table_snapshot_point_in_time (t : Table) (hwf : t.WF) (S : Snap) (hcur : t.cur = some S)
    (hne : S.diskParts ≠ []) (hooks : Nat → List MOp) :
    ∃ t' d n, tableSnapshot t hooks none = (t', ⟨.ok, some d⟩, n) ∧ content (recover d) = t.flushed := by
  obtain ⟨t', hr, _, _⟩ := table_snapshot_consistent t hwf S hcur hne hooks
  refine ⟨t', S.image, _, hr, ?_⟩
  rw [(snapshot_image_recovers S).2.2.1]
  simp [Table.flushed, hcur]

/-- **a prefix, never a mixture.** After any history of operations from an empty table, the flushed data are
    exactly the first `mark` batches in introduction order (`mark` = number of batches introduced before the last
    effective flush); hence so is the content of every snapshot copy. A batch is in or out as a whole. -/
theorem flushed_is_prefix (ops : List MOp) :
    let t := Table.run {} ops
    t.log = introduced ops ∧ t.mark ≤ t.log.length ∧ ∀ b, b ∈ t.flushed ↔ b ∈ (introduced ops).take t.mark := by
  have hh := hist_run wf_empty hist_empty ops
  have hl : (Table.run {} ops).log = introduced ops := by rw [run_log]; rfl
  refine ⟨hl, hh.mark_le, ?_⟩
  intro b; rw [← hl]; exact hh.flushed_iff b

theorem table_snapshot_prefix (ops : List MOp) (S : Snap) (hcur : (Table.run {} ops).cur = some S)
    (hne : S.diskParts ≠ []) (hooks : Nat → List MOp) :
    ∃ t' d n, tableSnapshot (Table.run {} ops) hooks none = (t', ⟨.ok, some d⟩, n)
      ∧ ∀ b, b ∈ content (recover d) ↔ b ∈ (introduced ops).take (Table.run {} ops).mark := by
  obtain ⟨t', d, n, hr, hc⟩ := table_snapshot_point_in_time _ (wf_run wf_empty ops) S hcur hne hooks
  exact ⟨t', d, n, hr, fun b => by rw [hc]; exact (flushed_is_prefix ops).2.2 b⟩

/-- rely/guarantee form, for any larger state `σ` the table lives in: if the environment steps keep the table
    invariant and leave the pin in place (`Holds`) the call succeeds with the exact image of `S`. -/
theorem table_snapshot_rely_guarantee {σ : Type} (L : Lens σ) (hook : Nat → σ → σ) (Env : σ → Prop) (S : Snap)
    (hgs : ∀ st t, Env st → L.get (L.set st t) = t)
    (hset : ∀ st t, Env st → t.WF → Env (L.set st t))
    (hhook : ∀ p st, Env st → Holds L S st → Env (hook p st) ∧ Holds L S (hook p st))
    (st : σ) (henv : Env st) (hwf : (L.get st).WF) (hcur : (L.get st).cur = some S) (hne : S.diskParts ≠ [])
    (dst0 : Option Dst) (p0 : Nat) :
    ∃ st', takeFileSnapshot L hook none dst0 p0 st = (st', ⟨.ok, some S.image⟩, p0 + S.diskParts.length + 1)
      ∧ Env st' ∧ (L.get st').WF :=
  takeFileSnapshot_ok L hook Env S hgs hset hhook st henv hwf hcur hne dst0 p0

/-- a table without current snapshot / without file parts: nothing is written, nothing changes or leaks. -/
theorem table_snapshot_nothing_to_copy (t : Table) (hooks : Nat → List MOp) (failAt : Option Nat) :
    (t.cur = none → tableSnapshot t hooks failAt = (t, ⟨.noSnapshot, none⟩, 0))
    ∧ (∀ S, t.cur = some S → S.diskParts = [] →
        (tableSnapshot t hooks failAt).2 = (⟨.noDisk, none⟩, 0) ∧ (tableSnapshot t hooks failAt).1.pins = t.pins) := by
  refine ⟨fun hc => takeFileSnapshot_noSnapshot _ _ _ _ _ _ hc, ?_⟩
  intro S hc he
  unfold tableSnapshot takeFileSnapshot
  simp only [Lens.id, hc, he, List.isEmpty_nil, if_true]
  refine ⟨by first | rfl | trivial, ?_⟩
  show ((S :: t.pins).erase S) = t.pins
  simp

/-! ## 2. failure -/

/-- **failed_snapshot_removed** (table): whenever the call reports an error — a hard link failed, injected or
    because a source directory was missing — the destination directory does not exist afterwards. -/
theorem failed_snapshot_removed {σ : Type} (L : Lens σ) (hook : Nat → σ → σ) (failAt : Option Nat)
    (dst0 : Option Dst) (p0 : Nat) (st : σ) :
    (takeFileSnapshot L hook failAt dst0 p0 st).2.1.status = .err →
    (takeFileSnapshot L hook failAt dst0 p0 st).2.1.dst = none := by
  unfold takeFileSnapshot
  split
  · intro h; cases h
  · simp only
    split
    · intro h; cases h
    · split
      · intro _; rfl
      · intro h; cases h

/-- … and a failed call releases its pin like a successful one (no snapshot, hence no part, stays referenced). -/
theorem failed_snapshot_unpins (t : Table) (S : Snap) (hcur : t.cur = some S) (hooks : Nat → List MOp)
    (failAt : Option Nat) : (tableSnapshot t hooks failAt).1.pins = t.pins := by
  obtain ⟨t3, h3, e3⟩ := takeFileSnapshot_final Lens.id (fun p t => t.run (hooks p)) failAt none 0 t S hcur
    (fun u => u.pins = S :: t.pins) (fun p u hu => by show (Table.run u (hooks p)).pins = _; rw [run_pins]; exact hu) rfl
  unfold tableSnapshot
  rw [e3]
  show (t3.pins.erase S) = t.pins
  rw [h3]; simp

/-- a hard-link failure at any of the link calls makes the whole call fail (it is never swallowed). -/
theorem injected_fault_fails (t : Table) (hwf : t.WF) (S : Snap) (hcur : t.cur = some S) (hooks : Nat → List MOp)
    (p : Nat) (hp : p < S.diskParts.length) :
    (tableSnapshot t hooks (some p)).2.1 = ⟨.err, none⟩ := by
  have := linkLoop_fail Lens.id (fun p t => t.run (hooks p)) (fun _ => True) S
    (fun q st _ hh => ⟨trivial, wf_run hh.1 _, by show S ∈ (Table.run st (hooks q)).pins; rw [run_pins]; exact hh.2⟩)
    S.diskParts 0 (t.pin S) [] p diskParts_spec trivial ⟨wf_pin hwf hcur, by simp [Table.pin, Lens.id]⟩ (by omega) (by omega)
  obtain ⟨st', acc, q, hl⟩ := this
  unfold tableSnapshot takeFileSnapshot
  have hne : S.diskParts.isEmpty = false := by
    cases hd : S.diskParts with
    | nil => rw [hd] at hp; simp at hp
    | cons a b => rfl
  simp only [Lens.id, hcur, hne, Bool.false_eq_true, if_false] at hl ⊢
  rw [hl]

/-! ## 3. segments -/

/-- **segment_snapshot_no_reopen.** A closed (idle-reclaimed) segment is snapshotted by hard-linking its
    directory under the segment lock: the whole database state — in particular the segment's open flag, its
    reference count and its tables — is exactly what it was, no file-system call of any table is issued, and the
    copy holds, per shard, the directory content (parts and manifest). Holds for every environment and fault. -/
theorem segment_snapshot_no_reopen {σ : Type} (L : DLens σ) (hook : Nat → σ → σ) (failAt : Option Nat) (d p : Nat)
    (st : σ) (s : Seg) (hs : (L.get st).seg d = some s) (hdel : s.del = false) (hclosed : s.isOpen = false) :
    snapshotInto L hook failAt d p st =
      (st, .ok, some ⟨s.order.filterMap fun h => (s.tab h).map fun t => (h, (⟨t.disk, t.manifest⟩ : Dst))⟩, p) := by
  unfold snapshotInto
  simp [hs, hdel, hclosed]

/-- a segment that is being deleted is skipped: nothing is written for it, nothing changes. -/
theorem deleted_segment_skipped {σ : Type} (L : DLens σ) (hook : Nat → σ → σ) (failAt : Option Nat) (d p : Nat)
    (st : σ) (s : Seg) (hs : (L.get st).seg d = some s) (hdel : s.del = true) :
    snapshotInto L hook failAt d p st = (st, .skipped, none, p) := by
  unfold snapshotInto
  simp [hs, hdel]

/-- the copy of a closed table directory opens to exactly what the source shows when the segment is reopened. -/
theorem closed_copy_recovers_as_source (t : Table) :
    content (recover ⟨t.disk, t.manifest⟩) = t.reopen.flushed := closed_copy_eq_reopen t

/-- an open segment, under any environment of database operations (writes, flushes, merges, idle-close attempts,
    queries taking and dropping references, retention deletes, on this and other segments): the snapshot never
    fails, every shard directory it writes is well formed, and afterwards `refCount = holders` again for every
    segment — the reference it took is released, none is leaked, so idle-close and retention are not blocked. -/
theorem segment_snapshot_open (ops : Nat → List DbOp) (d p : Nat) (db : DB) (hi : db.Inv pin0) :
    ∃ db' st sd p', snapshotInto DLens.id (dbEnv ops) none d p db = (db', st, sd, p')
      ∧ db'.Inv pin0 ∧ st ≠ .err ∧ (∀ x, sd = some x → ∀ y ∈ x.shards, ShardOK y.2) :=
  snapshotInto_ok ops d p db hi

/-! ## 4. the database -/

/-- what `ShardOK` buys when the copy is opened: every part the loader accepts is a complete directory present
    in the copy; for the image of a snapshot nothing is lost. -/
theorem shardOK_opens (dst : Dst) (h : ShardOK dst) :
    (∀ p ∈ recover dst, p ∈ dst.parts ∧ p.complete = true)
    ∧ (∀ S : Snap, dst = S.image → content (recover dst) = S.diskParts.flatMap (·.batches))
    ∧ (∀ t : Table, dst = ⟨t.disk, t.manifest⟩ → content (recover dst) = t.reopen.flushed) := by
  refine ⟨?_, ?_, ?_⟩
  · intro p hp
    unfold recover at hp
    cases hm : dst.manifest with
    | none => simp [hm] at hp
    | some m =>
      simp only [hm, List.mem_filter, Bool.and_eq_true] at hp
      exact ⟨hp.1, hp.2.2⟩
  · intro S e; subst e; exact (snapshot_image_recovers S).2.2.1
  · intro t e; subst e; exact closed_copy_eq_reopen t

/-- **db_snapshot_opens.** Composition over segments and shards. From any database satisfying the protocol
    invariant, under any environment of database operations interleaved at every file-system call:
    `TakeFileSnapshot` does not fail; the destination consists of segment directories whose shard directories are
    each empty, the exact image of a snapshot pinned by its table, or the hard-linked directory of a closed table
    (all of which open, `shardOK_opens`); and afterwards the invariant holds with no reference left behind. -/
theorem db_snapshot_opens (ops : Nat → List DbOp) (db : DB) (hi : db.Inv pin0) :
    (snapshotDb DLens.id (dbEnv ops) none db).2.status ≠ .err
    ∧ (snapshotDb DLens.id (dbEnv ops) none db).1.Inv pin0
    ∧ ∀ segs, (snapshotDb DLens.id (dbEnv ops) none db).2.dst = some segs →
        ∀ x ∈ segs, ∀ y ∈ x.2.shards, ShardOK y.2 := by
  unfold snapshotDb
  simp only
  split
  · exact ⟨by simp, hi, by simp⟩
  · obtain ⟨db', segs, hl, hi', hsh⟩ := segLoop_ok ops (DLens.id.get db).listedDays 0 db [] hi (by simp)
    rw [hl]
    cases segs with
    | nil => exact ⟨by simp, hi', by simp⟩
    | cons a r =>
      refine ⟨by simp, hi', ?_⟩
      intro segs' e
      simp only [Option.some.injEq] at e
      subst e; exact hsh

/-- **failed_snapshot_removed** (database): any error — from any table of any segment — leaves no destination. -/
theorem db_failed_snapshot_removed {σ : Type} (L : DLens σ) (hook : Nat → σ → σ) (failAt : Option Nat) (st : σ) :
    (snapshotDb L hook failAt st).2.status = .err → (snapshotDb L hook failAt st).2.dst = none := by
  unfold snapshotDb
  simp only
  split
  · intro h; cases h
  · split
    · intro _; rfl
    · intro h; cases h
    · intro h; cases h

/-- every database reachable from the empty one by database operations satisfies the invariant the theorems
    above assume (so they are about all histories, and not vacuous). -/
theorem reachable_inv (ops : List DbOp) : (DB.run {} ops).Inv pin0 :=
  inv_run ⟨fun d s h => by simp at h, fun _ _ => rfl⟩ ops

theorem reachable_wf (ops : List MOp) : (Table.run {} ops).WF := wf_run wf_empty ops

/-! ## 5. trace tables: the secondary index belongs to the same state (finding F19) -/

/-- repaired procedure: for every environment, the index parts in the copy are exactly those of the core parts in
    the copy, and all of them survive opening it. -/
theorem trace_snapshot_index_consistent (t : Table) (hwf : t.WF) (S : Snap) (hcur : t.cur = some S)
    (hne : S.diskParts ≠ []) (early : List MOp) (hooks : Nat → List MOp) :
    ∃ t' d, takeTraceSnapshot t early hooks none = (t', .ok, some d)
      ∧ d.core = S.image ∧ d.index = d.core.parts.map (·.id) ∧ d.openIndex = d.index := by
  obtain ⟨t', hr, _, _⟩ := table_snapshot_consistent t hwf S hcur hne
    (fun p => (if p = 0 then early else []) ++ hooks p)
  have hidx : t.indexIds = S.image.parts.map (·.id) := by
    simp [Table.indexIds, hcur, Snap.image, List.map_map]
    intro a _; rfl
  refine ⟨t', ⟨S.image, t.indexIds⟩, ?_, rfl, hidx, ?_⟩
  · unfold takeTraceSnapshot
    simp only [tableSnapshot] at hr
    rw [hr]; rfl
  · unfold TraceDst.openIndex
    rw [List.filter_eq_self]
    intro id hid
    rw [hidx] at hid
    simp only [Snap.image, List.map_map, List.mem_map] at hid
    obtain ⟨pw, hp, rfl⟩ := hid
    simp only [Snap.image, Option.getD_some, Snap.ids]
    rw [List.contains_iff_mem]
    exact List.mem_map_of_mem (f := (·.id)) (diskParts_spec pw hp).1

/-- two flushed batches, indexed. -/
def exTrace : Table := Table.run {} [.introduce 1, .flush, .introduce 2, .flush]

/-- the procedure as written (F19): a merge published between the pin of the core snapshot and the pin of the
    index gives a copy with core parts 1,2 and index part 3; opening it deletes that part: the ordered index of
    the restored table is empty although both traces are there. -/
theorem trace_snapshot_legacy_counterexample :
    (takeTraceSnapshot_legacy exTrace [.merge [0, 1]] (fun _ => []) none).2.2.map
        (fun d => (d.core.parts.map (·.id), d.index, d.openIndex)) = some ([1, 2], [3], [])
    ∧ (takeTraceSnapshot exTrace [.merge [0, 1]] (fun _ => []) none).2.2.map
        (fun d => (d.core.parts.map (·.id), d.index, d.openIndex)) = some ([1, 2], [1, 2], [1, 2]) := by
  decide

/-- … and a flush published there leaves index entries for a batch whose spans are not in the copy. -/
theorem trace_snapshot_legacy_counterexample_flush :
    (takeTraceSnapshot_legacy (Table.run {} [.introduce 1, .flush, .introduce 2]) [.flush] (fun _ => []) none).2.2.map
        (fun d => (content (recover d.core), d.index, d.openIndex)) = some ([1], [1, 2], [1, 2]) := by
  decide

/-! ## 6. non-vacuity: concrete instances of the hypotheses -/

/-- three flushed batches and one in memory. -/
def exTable : Table := Table.run {} [.introduce 1, .introduce 2, .flush, .introduce 3, .flush, .introduce 4]

/-- flush + merge before the first link, a new batch before the second, another merge before the third. -/
def exHooks : Nat → List MOp := fun p =>
  if p = 0 then [.flush, .merge [0, 1]] else if p = 1 then [.introduce 5] else [.merge [0, 1]]

example : exTable.WF := reachable_wf _
example : ∃ S, exTable.cur = some S ∧ S.diskParts ≠ [] := ⟨_, rfl, by decide⟩
/-- the copy holds parts 1,2,3 of the pinned snapshot although parts 1..5 were merged away meanwhile, and its
    manifest names the in-memory part 4 without a directory for it. -/
example : (tableSnapshot exTable exHooks none).2.1 =
    ⟨.ok, some ⟨[⟨1, [1], true⟩, ⟨2, [2], true⟩, ⟨3, [3], true⟩], some [1, 2, 3, 4]⟩⟩ := by decide
example : (tableSnapshot exTable exHooks none).1.disk = [⟨8, [1, 2, 3, 4], true⟩] := by decide
example : (tableSnapshot exTable exHooks (some 1)).2.1 = ⟨.err, none⟩ := by decide

/-- two open segments, one idle-closed, one held and flagged for deletion. -/
def exDb : DB := DB.run {} [.write 0 0 1, .flush 0 0, .write 0 1 2, .flush 0 1, .write 1 0 3, .flush 1 0,
  .write 1 0 4, .closeIdle 1, .write 2 0 5, .hold 2, .deleteFlag 2]

example : exDb.Inv pin0 := reachable_inv _
example : (exDb.seg 1).map (fun s => (s.isOpen, s.ref)) = some (false, 0) := by decide
example : (snapshotDb DLens.id (dbEnv fun p => if p = 0 then [.write 0 0 6, .flush 0 0, .closeIdle 0] else []) none exDb).2.status
    = .ok := by decide
example : ((snapshotDb DLens.id (dbEnv fun _ => []) none exDb).1.seg 1).map (fun s => (s.isOpen, s.ref))
    = some (false, 0) := by decide

end Banyan.C19
