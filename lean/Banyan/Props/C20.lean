/-
C20 — Bound BydbQL parameters are data, never syntax.
Property theorems about the model in Banyan/Model/C20.lean; helper lemmas in Banyan/Lemmas/C20{Lens,Bind,Reject}.lean.
-/
import Banyan.Model.C20
import Banyan.Lemmas.C20Lens
import Banyan.Lemmas.C20Bind
import Banyan.Lemmas.C20Reject

namespace Banyan.C20

/-! ## 0. what `bind` computes -/

theorem bind_unfold (g : Grammar) (ps : List ParamVal) (hb : g.bound = false)
    (hl : (slotsOf g.stmt.holes).length = ps.length) :
    bind g ps = (resolveAll (slotsOf g.stmt.holes) ps 0).map
      (fun rs => { stmt := g.stmt.plug (fillLeaves g.stmt.holes rs), bound := true }) := by
  unfold bind
  simp only [hb, hl]
  cases resolveAll (slotsOf g.stmt.holes) ps 0 <;> simp [Except.map]

theorem bind_ok_inv {g g' : Grammar} {ps : List ParamVal} (h : bind g ps = .ok g') :
    g.bound = false ∧ (slotsOf g.stmt.holes).length = ps.length ∧
    ∃ rs, resolveAll (slotsOf g.stmt.holes) ps 0 = .ok rs ∧
      g' = { stmt := g.stmt.plug (fillLeaves g.stmt.holes rs), bound := true } := by
  unfold bind at h
  split at h
  · cases h
  · rename_i hb
    simp only at h
    split at h
    · cases h
    · rename_i hl
      split at h
      · cases h
      · rename_i rs hrs
        injection h with h
        exact ⟨by simpa using hb, by simpa using hl, rs, hrs, h.symm⟩

/-! ## 1. bound ≡ literal -/

/-- **bind_eq_literal.** Whenever binding succeeds, the bound grammar *is* the statement with every parameter written
    as literal value(s) of its own type at its placeholder (`substLit` consults no type rule and never looks inside a
    value); only the `paramsBound` flag is set on top. Anything computed from the grammar afterwards (`Transform`)
    therefore agrees trivially. -/
theorem bind_eq_literal {g g' : Grammar} {ps : List ParamVal} (h : bind g ps = .ok g') :
    g' = { substLit g ps with bound := true } := by
  obtain ⟨_, hl, rs, hrs, rfl⟩ := bind_ok_inv h
  simp only [substLit, fillLeaves_eq_substLeaves _ ps 0 rs hl hrs]

/-- the same through the API: binding the literal statement with no parameters (what the literal path does) yields
    the identical grammar, flag included. -/
theorem bind_literal_path {g g' : Grammar} {ps : List ParamVal} (h : bind g ps = .ok g') :
    bind (substLit g ps) [] = .ok g' := by
  obtain ⟨hb, hl, rs, hrs, rfl⟩ := bind_ok_inv h
  have hsub := fillLeaves_eq_substLeaves _ ps 0 rs hl hrs
  have hholes : (substLit g ps).stmt.holes = fillLeaves g.stmt.holes rs := by
    simp only [substLit, ← hsub]
    exact Stmt.holes_plug _ _ (fillLeaves_compat _ _)
  have hno : slotsOf (substLit g ps).stmt.holes = [] := by
    rw [hholes]; exact fillLeaves_noSlots _ ps 0 rs hl hrs
  unfold bind
  have hb' : (substLit g ps).bound = false := hb
  simp only [hb', hno, List.length_nil, resolveAll, fillLeaves_nil]
  simp only [Bool.false_eq_true, if_false, ne_eq, not_true_eq_false]
  rw [Stmt.plug_holes]
  simp only [substLit, hsub]

/-- transform-level corollary, for any function of the grammar. -/
theorem transform_agrees {α : Type} (transform : Grammar → α) {g g' : Grammar} {ps : List ParamVal}
    (h : bind g ps = .ok g') : transform g' = transform { substLit g ps with bound := true } := by
  rw [bind_eq_literal h]

/-! ## 2. shape -/

/-- the literal substitution has the template's skeleton after the documented in-place expansion of array
    parameters, for *all* parameter lists (accepted or not); only array lengths are consulted. -/
theorem substLit_shape (g : Grammar) (ps : List ParamVal) :
    (substLit g ps).stmt.skel = (expandArrays g (ps.map ParamVal.arrLen)).stmt.skel := by
  simp only [substLit, expandArrays]
  exact Stmt.skel_plug _ _ _ (substLeaves_compat _ _) (expandLeaves_compat _ _) (substLeaves_shape _ _)

/-- **bind_shape.** Binding never changes clauses, targets, identifiers, operators, NOT flags, MATCH options or the
    presence of a count; the only structural change is the in-place expansion of an array parameter inside an
    IN / MATCH / HAVING list, and that depends on the arrays' lengths only. -/
theorem bind_shape {g g' : Grammar} {ps : List ParamVal} (h : bind g ps = .ok g') :
    g'.stmt.skel = (expandArrays g (ps.map ParamVal.arrLen)).stmt.skel := by
  rw [bind_eq_literal h]
  exact substLit_shape g ps

theorem expandVals_none : ∀ (vs : List Value) (ls : List (Option Nat)), (∀ l ∈ ls, l = none) → expandVals vs ls = vs
  | [], _, _ => rfl
  | v :: vs, ls, h => by
    cases v with
    | param j =>
      cases ls with
      | nil => simp [expandVals, expandVals_none vs [] (by simp)]
      | cons l ls =>
        have hl := h l (by simp)
        subst hl
        simp [expandVals, expandVals_none vs ls (fun x hx => h x (by simp [hx]))]
    | str _ => simp [expandVals, expandVals_none vs ls h]
    | int _ => simp [expandVals, expandVals_none vs ls h]
    | null => simp [expandVals, expandVals_none vs ls h]

theorem expandLeaf_none (h : Leaf) (ls : List (Option Nat)) (hn : ∀ l ∈ ls, l = none) : expandLeaf h ls = h := by
  cases h with
  | vlist vs => simp [expandLeaf, expandVals_none vs ls hn]
  | multi m => cases m <;> simp [expandLeaf, expandVals_none _ ls hn, regroup]
  | scalar _ => rfl
  | time _ => rfl
  | count _ _ => rfl

theorem expandLeaves_none : ∀ (hs : List Leaf) (ls : List (Option Nat)), (∀ l ∈ ls, l = none) → expandLeaves hs ls = hs
  | [], _, _ => rfl
  | h :: hs, ls, hn => by
    simp only [expandLeaves]
    rw [expandLeaf_none h _ (fun l hl => hn l (List.mem_of_mem_take hl)),
      expandLeaves_none hs _ (fun l hl => hn l (List.mem_of_mem_drop hl))]

/-- scalar parameters (anything that is not an array: strings with quotes, keywords, comment markers, …) leave the
    skeleton of the statement exactly as parsed. -/
theorem bind_shape_scalar {g g' : Grammar} {ps : List ParamVal} (h : bind g ps = .ok g')
    (hs : ∀ p ∈ ps, p.arrLen = none) : g'.stmt.skel = g.stmt.skel := by
  rw [bind_shape h]
  have : ∀ l ∈ ps.map ParamVal.arrLen, l = none := by
    intro l hl
    obtain ⟨p, hp, rfl⟩ := List.mem_map.mp hl
    exact hs p hp
  simp only [expandArrays, expandLeaves_none _ _ this, Stmt.plug_holes]

/-- the shape after binding is a function of the template and the array lengths alone: two executions whose
    parameters differ arbitrarily in content have the same skeleton. -/
theorem bind_shape_content_free {g g1 g2 : Grammar} {ps1 ps2 : List ParamVal} (h1 : bind g ps1 = .ok g1)
    (h2 : bind g ps2 = .ok g2) (hlen : ps1.map ParamVal.arrLen = ps2.map ParamVal.arrLen) :
    g1.stmt.skel = g2.stmt.skel := by
  rw [bind_shape h1, bind_shape h2, hlen]

/-! ## 3. rejection -/

theorem bind_rejects_rebind (g : Grammar) (ps : List ParamVal) (hb : g.bound = true) : bind g ps = .error .rebind := by
  simp [bind, hb]

/-- missing or surplus parameters: nothing is bound. -/
theorem bind_rejects_count (g : Grammar) (ps : List ParamVal) (hb : g.bound = false)
    (hl : ps.length ≠ g.stmt.nParams) : bind g ps = .error .count := by
  unfold bind
  have : (slotsOf g.stmt.holes).length ≠ ps.length := fun e => hl (by simp [Stmt.nParams, e])
  simp [hb, this]

/-- **bind_rejects (characterisation).** Binding succeeds exactly when the grammar is not already bound, the count
    matches and every parameter is of a type the documented table accepts at its position (nil entries, binary data,
    empty arrays, invalid timestamps and counts outside `[0, max]` are in no row of the table). -/
theorem bind_ok_iff (g : Grammar) (ps : List ParamVal) :
    (∃ g', bind g ps = .ok g') ↔
      g.bound = false ∧ ps.length = g.stmt.nParams ∧ acceptsAll (slotsOf g.stmt.holes) ps = true := by
  constructor
  · rintro ⟨g', h⟩
    obtain ⟨hb, hl, rs, hrs, _⟩ := bind_ok_inv h
    exact ⟨hb, by simp [Stmt.nParams, hl], (resolveAll_ok_iff _ _ 0 hl).mp ⟨rs, hrs⟩⟩
  · rintro ⟨hb, hl, ha⟩
    have hl' : (slotsOf g.stmt.holes).length = ps.length := by simp [Stmt.nParams] at hl; omega
    obtain ⟨rs, hrs⟩ := (resolveAll_ok_iff _ _ 0 hl').mpr ha
    rw [bind_unfold g ps hb hl', hrs]
    exact ⟨_, rfl⟩

/-- the first parameter that is not acceptable at its position decides the error (1-based position included),
    whatever the later parameters are; there is no result grammar, i.e. no partial binding is observable. -/
theorem bind_first_error (g : Grammar) (k1 : List SlotKind) (k : SlotKind) (k2 : List SlotKind)
    (p1 : List ParamVal) (p : ParamVal) (p2 : List ParamVal) (hb : g.bound = false)
    (hk : slotsOf g.stmt.holes = k1 ++ k :: k2) (hl1 : k1.length = p1.length) (hl2 : k2.length = p2.length)
    (ha : acceptsAll k1 p1 = true) (hr : accepts k p = false) :
    ∃ e, bind g (p1 ++ p :: p2) = .error e ∧ e.pos = p1.length + 1 ∧
      resolveOne k p (p1.length + 1) = .error e := by
  have hl : (slotsOf g.stmt.holes).length = (p1 ++ p :: p2).length := by simp [hk, hl1, hl2]
  obtain ⟨e, he⟩ := resolveOne_error_of_not k p (p1.length + 1) hr
  refine ⟨e, ?_, resolveOne_error_pos he, he⟩
  rw [bind_unfold g _ hb hl, hk, resolveAll_first_error k1 p1 k p k2 p2 0 hl1 ha hr]
  simp only [Nat.zero_add, hl1, he]
  rfl

/-- the individual rejection classes of the property statement, at the level of one placeholder. -/
theorem rejects_nil (k : SlotKind) (pos : Nat) : resolveOne k .none_ pos = .error (.noValue pos) := rfl

theorem rejects_binary (k : SlotKind) (b : Str) (pos : Nat) : resolveOne k (.bin b) pos = .error (.bind pos .type) := by
  cases k <;> rfl

theorem rejects_out_of_range (max v : Int) (pos : Nat) (h : ¬ (0 ≤ v ∧ v ≤ max)) :
    resolveOne (.count max) (.int v) pos = .error (.bind pos .range) := by
  have : validateCount v max = false := by
    cases hv : validateCount v max
    · rfl
    · exact absurd ((validateCount_iff v max).mp hv) h
  simp [resolveOne, resolve, resolveCount, this, Except.map]

theorem rejects_non_int_count (max : Int) (p : ParamVal) (pos : Nat) (hn : p ≠ .none_) (h : ∀ v, p ≠ .int v) :
    resolveOne (.count max) p pos = .error (.bind pos .type) := by
  cases p <;> simp [resolveOne, resolve, resolveCount, Except.map] at * 

theorem rejects_empty_array (pos : Nat) :
    resolveOne .list (.strArr []) pos = .error (.bind pos .empty) ∧
    resolveOne .list (.intArr []) pos = .error (.bind pos .empty) := ⟨rfl, rfl⟩

theorem rejects_array_in_scalar (l : List Str) (pos : Nat) :
    resolveOne .scalar (.strArr l) pos = .error (.bind pos .type) := rfl

theorem rejects_int_in_time (v : Int) (pos : Nat) : resolveOne .time (.int v) pos = .error (.bind pos .type) := rfl

theorem rejects_bad_timestamp (sec nanos : Int) (pos : Nat) (h : tsValid sec nanos = false) :
    resolveOne .time (.ts sec nanos) pos = .error (.bind pos .ts) := by
  simp [resolveOne, resolve, resolveTime, h, Except.map]

/-- **count guard shared by the literal and the bound path.** `resolveCountParam` accepts an int exactly when
    `validateCountValue` does, and `validateGrammarCounts` applies the very same function to literal counts … -/
theorem count_guard_shared (max v : Int) :
    ((∃ n, resolveCount max (.int v) = .ok n) ↔ validateCount v max = true) ∧
    countOk max (some (.lit v)) = validateCount v max := by
  refine ⟨?_, rfl⟩
  cases hv : validateCount v max <;> simp [resolveCount, hv]

/-- … so a successfully bound statement passes `validateGrammarCounts` if the template's literal counts do:
    a bound count can never be rejected (or wrap) later. -/
theorem bind_validCounts {g g' : Grammar} {ps : List ParamVal} (h : bind g ps = .ok g')
    (hv : validCounts g.stmt = true) : validCounts g'.stmt = true := by
  obtain ⟨_, hl, rs, hrs, rfl⟩ := bind_ok_inv h
  rw [validCounts_iff_holes] at hv ⊢
  simp only [Stmt.holes_plug _ _ (fillLeaves_compat _ _)]
  exact fillLeaves_countOk _ ps 0 rs hl hrs hv

/-- after a successful bind the transformer's unbound-placeholder guard passes (flag set) and no placeholder is left. -/
theorem bind_result_closed {g g' : Grammar} {ps : List ParamVal} (h : bind g ps = .ok g') :
    g'.bound = true ∧ g'.stmt.nParams = 0 := by
  obtain ⟨_, hl, rs, hrs, rfl⟩ := bind_ok_inv h
  refine ⟨rfl, ?_⟩
  simp only [Stmt.nParams, Stmt.holes_plug _ _ (fillLeaves_compat _ _), fillLeaves_noSlots _ ps 0 rs hl hrs,
    List.length_nil]

/-! ## 4. prepared statements -/

/-- `Prepare` numbers the placeholders in the order `BindParams` visits them and records the same kinds. -/
theorem prepare_template_holes (g : Grammar) :
    (prepare g).template.stmt.holes = numberLeaves g.stmt.holes 0 ∧ (prepare g).specs = slotsOf g.stmt.holes :=
  ⟨Stmt.holes_plug _ _ (numberLeaves_compat _ _), rfl⟩

/-- **prepared_eq_oneshot.** One execution through the prepared statement (Bind into a per-request overlay, then the
    transformer reading the numbered template through that overlay) is exactly the one-shot in-place bind of a fresh
    parse: same acceptance, same error (kind and position), same effective grammar. -/
theorem prepared_eq_oneshot (g : Grammar) (ps : List ParamVal) (hb : g.bound = false) :
    ((prepare g).exec ps).2 = bind g ps := by
  simp only [Prepared.exec, Prepared.bind, prepare]
  by_cases hl : (slotsOf g.stmt.holes).length = ps.length
  · rw [bind_unfold g ps hb hl]
    simp only [hl.symm, ne_eq, not_true_eq_false, if_false]
    cases hrs : resolveAll (slotsOf g.stmt.holes) ps 0 with
    | error e => rfl
    | ok rs =>
      simp only [Except.map, effective]
      have hN := Stmt.holes_plug g.stmt _ (numberLeaves_compat g.stmt.holes 0)
      rw [hN]
      have hov := overlayLeaves_number g.stmt.holes ps 0 rs [] [] hl hrs
      simp only [List.nil_append, List.append_nil, List.length_nil] at hov
      rw [hov, Stmt.plug_plug _ _ _ (numberLeaves_compat _ _) (fillLeaves_compat _ _)]
  · have hl' : ¬ ps.length = (slotsOf g.stmt.holes).length := fun e => hl e.symm
    simp [bind, hb, hl, hl', Except.map]

/-- **prepared_pure.** Prepare once, bind many: the statement (template and specs) after any sequence of executions
    is the statement that was prepared — also after failed binds — and every execution returns what a one-shot bind
    of a fresh parse with the same parameters returns: nothing leaks from one execution into another. -/
theorem prepared_pure (g : Grammar) (hb : g.bound = false) : ∀ (pss : List (List ParamVal)),
    ((prepare g).run pss).1 = prepare g ∧ ((prepare g).run pss).2 = pss.map (bind g)
  | [] => ⟨rfl, rfl⟩
  | ps :: rest => by
    obtain ⟨ih1, ih2⟩ := prepared_pure g hb rest
    simp only [Prepared.run, List.map_cons]
    have e1 : ((prepare g).exec ps).1 = prepare g := rfl
    have e2 := prepared_eq_oneshot g ps hb
    constructor
    · rw [show ((prepare g).exec ps) = (prepare g, ((prepare g).exec ps).2) from rfl]; exact ih1
    · rw [show ((prepare g).exec ps) = (prepare g, ((prepare g).exec ps).2) from rfl]
      simp only [e2, ih2]

/-- in particular `Bind ps₁; Bind ps₂` ≡ two independent one-shot binds, in either order. -/
theorem prepared_two (g : Grammar) (hb : g.bound = false) (ps1 ps2 : List ParamVal) :
    ((prepare g).run [ps1, ps2]).2 = [bind g ps1, bind g ps2] ∧
    ((prepare g).run [ps2, ps1]).2 = [bind g ps2, bind g ps1] :=
  ⟨(prepared_pure g hb [ps1, ps2]).2, (prepared_pure g hb [ps2, ps1]).2⟩

/-! ## 5. non-vacuity: a concrete statement satisfying the hypotheses above

`SELECT … TIME BETWEEN ? AND '2' WHERE s = ? AND t IN ('a', ?, 3) AND c NOT HAVING ? LIMIT ?` with a quote character
as the scalar value, a string array spliced into the IN list, an int array turning the single HAVING value into a
list, and an in-range LIMIT. -/

def exGrammar : Grammar :=
  { stmt := .select
      { hdr := [1], topN := none,
        time := some (.between (.param 0) (.str [50])),
        where_ := some (.one (.cons (.compare [115] [61] (.param 0))
                    (.cons (.inP [116] false [.str [97], .param 0, .int 3])
                      (.one (.having [99] true (.single (.param 0))))))),
        mid := [], limit := some (.param 0), offset := none },
    bound := false }

def exParams : List ParamVal := [.str [110, 111, 119], .str [39], .strArr [[98], [99]], .intArr [7, 8], .int 10]

def exBound : Grammar :=
  { stmt := .select
      { hdr := [1], topN := none,
        time := some (.between (.str [110, 111, 119]) (.str [50])),
        where_ := some (.one (.cons (.compare [115] [61] (.str [39]))
                    (.cons (.inP [116] false [.str [97], .str [98], .str [99], .int 3])
                      (.one (.having [99] true (.array [.int 7, .int 8])))))),
        mid := [], limit := some (.lit 10), offset := none },
    bound := true }

/-- hypothesis of `bind_eq_literal`, `bind_literal_path`, `bind_shape`, `bind_validCounts`, `bind_result_closed`. -/
example : bind exGrammar exParams = .ok exBound := rfl
example : exGrammar.bound = false ∧ validCounts exGrammar.stmt = true := ⟨rfl, rfl⟩
/-- the same statement through the prepared path (hypothesis of `prepared_eq_oneshot`, evaluated). -/
example : ((prepare exGrammar).exec exParams).2 = .ok exBound := rfl
example : (prepare exGrammar).specs = [.time, .scalar, .list, .list, .count maxU32] := rfl
/-- hypothesis of `bind_shape_scalar`: only scalars. -/
example : ∀ p ∈ [ParamVal.str [39, 32, 79, 82, 32, 49, 61, 49], .null, .int 5, .str [41], .int 0], p.arrLen = none := by
  intro p hp; simp at hp; rcases hp with rfl | rfl | rfl | rfl | rfl <;> rfl
/-- hypotheses of `bind_first_error`: the second parameter (an array in a scalar position) is the first offender. -/
example : bind exGrammar [.str [49], .strArr [[97]], .none_, .bin [], .int (-1)] = .error (.bind 2 .type) := rfl
example : slotsOf exGrammar.stmt.holes = [.time] ++ .scalar :: [.list, .list, .count maxU32] ∧
    acceptsAll [.time] [.str [49]] = true ∧ accepts .scalar (.strArr [[97]]) = false := ⟨rfl, rfl, rfl⟩
/-- rejection classes, evaluated on the statement. -/
example : bind exGrammar [.str [49], .null, .int 1, .int 2] = .error .count := rfl
example : bind exGrammar [.str [49], .null, .none_, .int 2, .int 3] = .error (.noValue 3) := rfl
example : bind exGrammar [.str [49], .null, .int 1, .int 2, .int 4294967296] = .error (.bind 5 .range) := rfl
example : bind exGrammar [.str [49], .null, .int 1, .strArr [], .int 3] = .error (.bind 4 .empty) := rfl
example : bind exGrammar [.tsNil, .null, .int 1, .int 2, .int 3] = .error (.bind 1 .ts) := rfl
example : bind exBound [] = .error .rebind := rfl

end Banyan.C20
