/- Tie obligations for C01: block limits (facts of C02), array escaping characters, shape of the value (un)marshalling. -/
import Banyan.Generated.C01
import Banyan.Generated.C02
import Banyan.Model.C01

namespace Banyan.Tie.C01
open Banyan

theorem maxLen_tie : Generated.C02.maxBlockLength = C01.cfg.maxLen := rfl
theorem maxSize_tie : Generated.C02.maxUncompressedBlockSize = C01.cfg.maxSize := rfl
theorem init_guard_tie : Generated.C02.initGuarded = C01.cfg.fixedInit := rfl
/-- `marshalVarArray`/`unmarshalVarArray` use the delimiter/escape of the model (`C12.delim`, `C12.esc`) -/
theorem delim_tie : Generated.C01.entityDelimiter = C12.delim := rfl
theorem esc_tie : Generated.C01.escape = C12.esc := rfl
theorem value_shape_tie : Generated.C01.valueShape = true := rfl

end Banyan.Tie.C01
