/- Tie obligations: facts regenerated from /repo (tools/extract.d/C02.py) must equal what the Store model assumes. -/
import Banyan.Generated.C02
import Banyan.Model.C02

namespace Banyan.Tie.C02
open Banyan

theorem maxLen_tie : Generated.C02.maxBlockLength = C02.cfg.maxLen := rfl
theorem maxSize_tie : Generated.C02.maxUncompressedBlockSize = C02.cfg.maxSize := rfl
/-- `mustInitFromDataPoints` tests for a duplicate only against a previous point of the current block
    (`i > indexPrev`), not against the zero sentinels: the function the theorems are about (F8 repaired) -/
theorem init_guard_tie : Generated.C02.initGuarded = C02.cfg.fixedInit := rfl
theorem mem_split_tie : Generated.C02.memSplitAfter = true := rfl
theorem less_version_desc_tie : Generated.C02.lessVersionDesc = true := rfl
theorem merge_left_wins_tie : Generated.C02.mergeLeftWinsTie = true := rfl
theorem merge_blocks_shape_tie : Generated.C02.mergeBlocksShape = true := rfl
theorem query_replace_strict_tie : Generated.C02.queryReplaceStrict = true := rfl
theorem query_less_version_desc_tie : Generated.C02.queryLessVersionDesc = true := rfl
theorem batch_rows_tie : Generated.C02.mergeBatchMaxRows = C02.cfg.batchRows := rfl
/-- `mergeBatch` cuts a full batch only between data points (F57 repaired): the function `queryMergeBatch_spec` is about -/
theorem batch_cut_tie : Generated.C02.batchCutBetweenPoints = C02.cfg.batchFinishRun := rfl
theorem batch_replace_strict_tie : Generated.C02.batchReplaceStrict = true := rfl
/-- `sortedMIterator.loadOneGroup` replaces the entry STORED under (series, timestamp) iff the new copy's version is
    greater: `upsert` in `Store.nodeMerge` -/
theorem node_dedup_tie : Generated.C02.nodeDedupGreaterVersion = true := rfl

end Banyan.Tie.C02
