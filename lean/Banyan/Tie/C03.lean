/- Tie obligations for C03: block limits and merge shape (facts of C02), typed column names. -/
import Banyan.Generated.C02
import Banyan.Generated.C03
import Banyan.Model.C03

namespace Banyan.Tie.C03
open Banyan

theorem maxLen_tie : Generated.C02.maxBlockLength = C03.cfg.maxLen := rfl
theorem maxSize_tie : Generated.C02.maxUncompressedBlockSize = C03.cfg.maxSize := rfl
theorem init_guard_tie : Generated.C02.initGuarded = C03.cfg.fixedInit := rfl
theorem merge_blocks_shape_tie : Generated.C02.mergeBlocksShape = true := rfl
theorem typed_separator_tie : Generated.C03.typedSeparator = C03.sep.toNat := rfl
theorem typed_suffix_tie :
    Generated.C03.typedSuffixes.map String.toList = ['s', 'i', 'b', 'A', 'I'].filterMap C03.suffixOf := by decide
/-- sidx `mergeParts` gives the merged part a timestamp range only when every input has one (F56 repaired);
    `overlapsTimestampRange` as modelled -/
theorem sidx_hull_tie : Generated.C03.sidxHullAllOrNone = true := rfl
theorem sidx_overlaps_tie : Generated.C03.sidxOverlapsShape = true := rfl

end Banyan.Tie.C03
