/- Tie obligations for C04: names, suffixes and call orders regenerated from /repo must equal what the model uses. -/
import Banyan.Generated.C04
import Banyan.Model.C04

namespace Banyan.Tie.C04
open Banyan Banyan.C04 Banyan.FS

theorem meta_name : Generated.C04.metaFilename = PFile.mt.fileName := rfl
theorem primary_name : Generated.C04.primaryFilename = PFile.primary.fileName := rfl
theorem timestamps_name : Generated.C04.timestampsFilename = PFile.timestamps.fileName := rfl
theorem fv_name : Generated.C04.fieldValuesFilename = PFile.fv.fileName := rfl
theorem tf_name : "tf1" ++ Generated.C04.tagFamiliesFilenameExt = PFile.tf.fileName := by decide
theorem tfm_name : "tf1" ++ Generated.C04.tagFamiliesMetadataFilenameExt = PFile.tfm.fileName := by decide
theorem tagType_name : Generated.C04.tagTypeFilename = PFile.tagType.fileName := rfl
theorem metadata_name : Generated.C04.metadataFilename = PFile.metadata.fileName := rfl
theorem snapshot_suffix : Generated.C04.snapshotSuffix = Banyan.C04.snapshotSuffix := rfl
theorem tmp_suffix : Generated.C04.tmpSuffix = Banyan.C04.tmpSuffix := rfl

def stepKind : C04.Step → String
  | .mkdir _ => "mkdir" | .create _ => "open" | .write _ _ => "write" | .fsync _ => "fsync" | .close _ => "close"
  | .rename _ _ => "rename" | .fsyncdir _ => "fsyncdir" | .unlink _ => "unlink" | .rmdir _ => "rmdir" | .link _ _ => "link"

/-- `WriteAtomic`: open tmp, write, fsync, close, rename, fsync parent directory -/
theorem writeAtomic_order : (writeAtomic [.snp 0] []).map stepKind = Generated.C04.writeAtomicOrder := by decide

def pfLabel : PFile → String
  | .mt => "meta" | .primary => "primary" | .timestamps => "timestamps" | .fv => "fv" | .tf => "tf" | .tfm => "tfm"
  | .tagType => "tagType" | .metadata => "metadata"

/-- the files a step list creates, in order (`x.tmp` counts as `x`) -/
def created : List C04.Step → List String
  | [] => []
  | .mkdir _ :: r => "mkdir" :: created r
  | .create [.part _, .pf f] :: r => pfLabel f :: created r
  | .create [.part _, .tmp (.pf f)] :: r => pfLabel f :: created r
  | _ :: r => created r

/-- `memPart.mustFlush`: mkdir, the data files in source order, `tag.type`, and `metadata.json` last
    (`smeta.bin` is only written when series metadata is present; the driven histories have none) -/
theorem mustFlush_order :
    created (flushPart 1 []) = Generated.C04.mustFlushOrder.filter (· != "smeta") := by decide

/-- `mergeParts`: block writer, then `tag.type`, then `metadata.json`, then the part is opened -/
theorem mergeParts_order : Generated.C04.mergePartsOrder =
    ["mustInitForFilePart", "mergeBlocks", "mustWriteTagType", "mustWriteMetadata", "mustOpenFilePart"] := rfl

theorem mergeOut_metadata_last : (created (mergeOut 1 [])).getLast? = some "metadata" := by decide

theorem snapshot_atomic : Generated.C04.snapshotWrittenAtomically = true := rfl
theorem clean_after_flush : Generated.C04.cleanAfterIntroduceFlushed = true := rfl
theorem clean_after_merge : Generated.C04.cleanAfterIntroduceMerged = true := rfl

end Banyan.Tie.C04
