/- Tie obligations for C05.

`Src.*` is the source text (comments stripped, whitespace collapsed) of the Go functions the op-level model
`Banyan.Model.C05` was written against — who increments what when a snapshot is copied, who decrements on replace,
what runs under which lock.  `tools/extract.d/C05.py` regenerates the same texts from /repo on every run; the theorems
below are `rfl`, so ANY edit of these functions fails the build and forces the model to be re-read against the code
(the dynamic correspondence then shows whether behaviour changed).  The `Bool` facts name the lock/atomic shape that
the op-level atomicity assumption rests on, and state that stream/ and trace/ carry the same code as measure/. -/
import Banyan.Generated.C05
import Banyan.Model.C05

namespace Banyan.Tie.C05
open Banyan

namespace Src
  def currentSnapshot : String :=
    "{ tst.RLock() defer tst.RUnlock() if tst.snapshot == nil { return nil } s := tst.snapshot s.incRef() return s }"
  def snapIncRef : String :=
    "{ atomic.AddInt32(&s.ref, 1) }"
  def snapDecRef : String :=
    "{ n := atomic.AddInt32(&s.ref, -1) if n > 0 { return } for i := range s.parts { s.parts[i].decRef() } s.parts = s.parts[:0] }"
  def copyAllTo : String :=
    "{ var result snapshot result.epoch = nextEpoch result.ref = 1 for i := range s.parts { s.parts[i].incRef() result.parts = append(result.parts, s.parts[i]) } return result }"
  def merge : String :=
    "{ var result snapshot result.epoch = nextEpoch result.ref = 1 for i := 0; i < len(s.parts); i++ { if n, ok := nextParts[s.parts[i].ID()]; ok { result.parts = append(result.parts, n) continue } s.parts[i].incRef() result.parts = append(result.parts, s.parts[i]) } return result }"
  def remove : String :=
    "{ var result snapshot result.epoch = nextEpoch result.ref = 1 for i := 0; i < len(s.parts); i++ { if _, ok := merged[s.parts[i].ID()]; !ok { s.parts[i].incRef() result.parts = append(result.parts, s.parts[i]) continue } s.parts[i].removable.Store(true) } return result }"
  def newPartWrapper : String :=
    "{ return &partWrapper{mp: mp, p: p, ref: 1} }"
  def partIncRef : String :=
    "{ atomic.AddInt32(&pw.ref, 1) }"
  def partDecRef : String :=
    "{ n := atomic.AddInt32(&pw.ref, -1) if n > 0 { return } if pw.mp != nil { releaseMemPart(pw.mp) pw.mp = nil pw.p = nil return } pw.p.close() if pw.removable.Load() && pw.p.fileSystem != nil { go func(pw *partWrapper) { pw.p.fileSystem.MustRMAll(pw.p.path) }(pw) } }"
  def introducePart : String :=
    "{ cur := tst.currentSnapshot() if cur != nil { defer cur.decRef() } else { cur = new(snapshot) } next := nextIntroduction.part if next.mp != nil { tst.addPendingDataCount(-int64(next.mp.partMetadata.TotalCount)) } nextSnp := cur.copyAllTo(epoch) nextSnp.parts = append(nextSnp.parts, next) nextSnp.creator = snapshotCreatorMemPart tst.replaceSnapshot(&nextSnp, next.mp == nil) if nextIntroduction.applied != nil { close(nextIntroduction.applied) } }"
  def introduceFlushed : String :=
    "{ cur := tst.currentSnapshot() if cur == nil { tst.l.Panic().Msg(\"current snapshot is nil\") } defer cur.decRef() nextSnp := cur.merge(epoch, nextIntroduction.flushed) nextSnp.creator = snapshotCreatorFlusher tst.replaceSnapshot(&nextSnp, true) if nextIntroduction.applied != nil { close(nextIntroduction.applied) } }"
  def introduceMerged : String :=
    "{ cur := tst.currentSnapshot() if cur == nil { tst.l.Panic().Msg(\"current snapshot is nil\") return } defer cur.decRef() nextSnp := cur.remove(epoch, nextIntroduction.merged) nextSnp.parts = append(nextSnp.parts, nextIntroduction.newPart) nextSnp.creator = nextIntroduction.creator tst.replaceSnapshot(&nextSnp, true) if nextIntroduction.applied != nil { close(nextIntroduction.applied) } }"
  def introduceSync : String :=
    "{ cur := tst.currentSnapshot() if cur == nil { tst.l.Panic().Msg(\"current snapshot is nil\") return } defer cur.decRef() nextSnp := cur.remove(epoch, nextIntroduction.synced) nextSnp.creator = snapshotCreatorSyncer tst.replaceSnapshot(&nextSnp, true) if nextIntroduction.applied != nil { close(nextIntroduction.applied) } }"
  def replaceSnapshot : String :=
    "{ tst.Lock() defer tst.Unlock() if tst.snapshot != nil { tst.snapshot.decRef() } tst.snapshot = next if persisted { tst.persistSnapshot(next) } }"
  def tableClose : String :=
    "{ if tst.loopCloser != nil { tst.loopCloser.Done() tst.loopCloser.CloseThenWait() } tst.Lock() defer tst.Unlock() tst.deleteMetrics() if tst.snapshot == nil { return nil } tst.snapshot.decRef() tst.snapshot = nil return nil }"
  def traceCommitSnapshotTransaction : String :=
    "{ tst.snapshotPublicationMu.Lock() defer tst.snapshotPublicationMu.Unlock() txn.Commit() }"
  def traceReplaceSnapshot : String :=
    "{ tst.Lock() defer tst.Unlock() if tst.snapshot != nil { tst.snapshot.DecRef() } tst.snapshot = next }"
  def txnTransitionCommit : String :=
    "{ if t.committed { return } t.committed = true t.manager.ReplaceSnapshot(t.next) }"
  def txnTransitionRollback : String :=
    "{ if t.committed { return } if !reflect.ValueOf(t.next).IsNil() { t.next.DecRef() } if !reflect.ValueOf(t.current).IsNil() { t.current.DecRef() } }"
  def txnTransitionReset : String :=
    "{ var zero S if t.committed && !reflect.ValueOf(t.current).IsNil() { t.current.DecRef() } t.manager = nil t.current = zero t.next = zero t.committed = false }"
  def txnCommit : String :=
    "{ txn.mu.Lock() defer txn.mu.Unlock() if txn.finalized { return } txn.finalized = true for _, commit := range txn.commits { commit() } }"
  def txnRollback : String :=
    "{ txn.mu.Lock() defer txn.mu.Unlock() if txn.finalized { return } txn.finalized = true for i := len(txn.rollbacks) - 1; i >= 0; i-- { txn.rollbacks[i]() } }"
end Src

/-- `currentSnapshot`: `incRef` on `tst.snapshot` between `RLock` and `RUnlock` (model: `pin`) -/
theorem currentSnapshot_incref_under_rlock :
    Generated.C05.currentSnapshot = Src.currentSnapshot ∧ Generated.C05.currentSnapshotIncRefUnderRLock = true :=
  ⟨rfl, rfl⟩

/-- `replaceSnapshot`: under `Lock`, old current `decRef` then `tst.snapshot = next` (model: `publish`);
`Close`: under `Lock`, `decRef`, `tst.snapshot = nil` (model: `closeOp`) -/
theorem replaceSnapshot_under_lock :
    Generated.C05.replaceSnapshot = Src.replaceSnapshot ∧ Generated.C05.replaceSnapshotUnderLock = true ∧
    Generated.C05.tableClose = Src.tableClose := ⟨rfl, rfl, rfl⟩

/-- `snapshot.decRef`: parts are released only when the count reaches `n <= 0` (model: `snapDecRef`) -/
theorem snapshot_decref_shape :
    Generated.C05.snapDecRef = Src.snapDecRef ∧ Generated.C05.snapIncRef = Src.snapIncRef ∧
    Generated.C05.decRefReleasesOnlyAtZero = true := ⟨rfl, rfl, rfl⟩

/-- `partWrapper.decRef`: mem part handed back / file part closed and, if `removable`, `go MustRMAll` — only at
`n <= 0` (model: `partDecRef`); new wrappers start at `ref: 1` -/
theorem part_decref_shape :
    Generated.C05.partDecRef = Src.partDecRef ∧ Generated.C05.partIncRef = Src.partIncRef ∧
    Generated.C05.newPartWrapper = Src.newPartWrapper := ⟨rfl, rfl, rfl⟩

/-- `copyAllTo / merge / remove` and the four `introduce*` (model: `introducePart / flushOp / mergeOp / syncOp`) -/
theorem copy_merge_remove_shape :
    Generated.C05.copyAllTo = Src.copyAllTo ∧ Generated.C05.merge = Src.merge ∧ Generated.C05.remove = Src.remove ∧
    Generated.C05.introducePart = Src.introducePart ∧ Generated.C05.introduceFlushed = Src.introduceFlushed ∧
    Generated.C05.introduceMerged = Src.introduceMerged ∧ Generated.C05.introduceSync = Src.introduceSync :=
  ⟨rfl, rfl, rfl, rfl, rfl, rfl, rfl⟩

/-- banyand/stream carries the same snapshot / partWrapper code as banyand/measure -/
theorem stream_same_as_measure : Generated.C05.streamSameAsMeasure = true := rfl

/-- banyand/trace carries the same snapshot / partWrapper code as banyand/measure (modulo `IncRef/DecRef` naming and
an unused counter in `remove`) -/
theorem trace_same_as_measure : Generated.C05.traceSameAsMeasure = true := rfl

/-- trace publication: the only `txn.Commit()` of trace/introducer.go sits inside `commitSnapshotTransaction` under
`snapshotPublicationMu.Lock`, every `introduce*` goes through it, and the two-phase reader takes `RLock`
(model: `Pub.commitFenced`) -/
theorem trace_commit_under_fence :
    Generated.C05.traceCommitSnapshotTransaction = Src.traceCommitSnapshotTransaction ∧
    Generated.C05.traceReplaceSnapshot = Src.traceReplaceSnapshot ∧
    Generated.C05.traceCommitsOnlyThroughFence = true ∧ Generated.C05.traceReaderTakesFence = true :=
  ⟨rfl, rfl, rfl, rfl⟩

/-- banyand/internal/snapshot: `Transition.Commit/Rollback/reset`, `Transaction.Commit/Rollback` (model: `Txn.*`) -/
theorem txn_shape :
    Generated.C05.txnTransitionCommit = Src.txnTransitionCommit ∧
    Generated.C05.txnTransitionRollback = Src.txnTransitionRollback ∧
    Generated.C05.txnTransitionReset = Src.txnTransitionReset ∧
    Generated.C05.txnCommit = Src.txnCommit ∧ Generated.C05.txnRollback = Src.txnRollback :=
  ⟨rfl, rfl, rfl, rfl, rfl⟩

end Banyan.Tie.C05
