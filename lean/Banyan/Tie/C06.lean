/- Tie obligations: constants/shape facts regenerated from /repo must equal what the C06 model uses. -/
import Banyan.Generated.C06
import Banyan.Model.C06
import Banyan.Model.C07Wire

namespace Banyan.Tie.C06
open Banyan Banyan.Time

/-- the `+12` and `/24` of the DAY branch of `IntervalRule.Standard` are the model's -/
theorem std_day_tie (z : Zone) (t : Int) :
    IntervalRule.standard z ⟨.day, 2⟩ t =
      dateInstant z (floorDiv (floorDiv (Int.tdiv (dateInstant z (truncTo dayNs (wall z t)) - dateInstant z 0 +
        (Generated.C06.stdDayRoundHours : Int) * hourNs) hourNs) (Generated.C06.stdHoursPerDay : Int)) 2 * 2 * dayNs) := rfl

theorem day_hours_tie : (Generated.C06.stdHoursPerDay : Int) * hourNs = dayNs := by decide

theorem anchor_tie : Generated.C06.anchorYear = 1970 := rfl

/-- directory suffix widths: `yyyymmdd` / `yyyymmddhh` as printed by the model driver -/
theorem format_tie : Generated.C06.dayFormat.length = (SegWire.suffix (fun _ => 0) .day 0).length ∧
    Generated.C06.hourFormat.length = (SegWire.suffix (fun _ => 0) .hour 0).length := by decide

theorem nextTime_shape_tie : Generated.C06.nextTimeShapeOk = true := rfl

end Banyan.Tie.C06
