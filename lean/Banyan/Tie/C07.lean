/- Tie obligations: constants/shape facts regenerated from /repo must equal what the C07 model uses. -/
import Banyan.Generated.C07
import Banyan.Model.C07

namespace Banyan.Tie.C07
open Banyan Banyan.Time

theorem creation_gap_tie : (Generated.C07.creationGapHours : Int) * hourNs = C07.newSegmentTimeGap := by decide
theorem tick_snap_tie : (Generated.C07.tickSnapMinutes : Int) * 60 * nsPerSec = C07.timeEventSnapDuration := by decide
theorem ttl_day_tie (n : Int) :
    IntervalRule.estimatedDuration ⟨.day, n⟩ = (Generated.C07.ttlDayHours : Int) * hourNs * n := rfl
theorem keep_one_tie : Generated.C07.keepOneRule = true := rfl

end Banyan.Tie.C07
