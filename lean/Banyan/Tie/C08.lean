/- Tie obligations: constants and function shapes regenerated from /repo on every run must be the ones the
   C08 model assumes. The model is of the repaired functions (fixes F9, F21–F25, F27, F29): on a tree without
   those fixes the corresponding obligation fails to build, which the check reports. -/
import Banyan.Generated.C08
import Banyan.Model.C08

namespace Banyan.Tie.C08
open Banyan

theorem bloom_k_tie : Generated.C08.bloomK = C08.bloomK := rfl
/-- `B` bits per item and 64-bit words: `n * B / 64 = n >> 2`. -/
theorem bloom_bits_per_item_tie : 64 / Generated.C08.bloomB = 2 ^ Generated.C08.bloomWordShift := rfl
theorem bloom_words_tie : ∀ n, C08.bloomWords n = if n / 2 ^ Generated.C08.bloomWordShift = 0 then 1 else n / 2 ^ Generated.C08.bloomWordShift :=
  fun _ => rfl
theorem vararray_delim_tie : Generated.C08.varArrayDelimiter = C12.delim := rfl
theorem vararray_escape_tie : Generated.C08.varArrayEscape = C12.esc := rfl

/-- F9: `extractElements` no longer decodes the stored value in place (model: pure `Dict.containsAll`). -/
theorem dict_pure_tie : Generated.C08.dictDecodesInPlace = false := rfl
/-- `DictionaryFilter.MightContain` answers false for array dictionaries (model: `Dict.mightContain`). -/
theorem dict_mightContain_arrays_tie : Generated.C08.dictMightContainFalseForArrays = true := rfl
/-- F21: `int64Literal.Compare` compares instead of subtracting (model: `cmpI64`). -/
theorem int_compare_tie : Generated.C08.intCompareSubtracts = false := rfl
/-- F29: the implicit bound of a one-sided int range is inclusive (model: `intRangeOf`). -/
theorem int_range_tie : Generated.C08.intRangeImplicitBoundInclusive = true := rfl
/-- same-type scalar `Contains`/`BelongTo` compare pointers (model: `valContains`/`valBelongTo` answer false). -/
theorem scalar_contains_tie : Generated.C08.scalarContainsComparesPointers = true := rfl
/-- F22: skipping EQ / HAVING probe the stored byte form of the literal (model: `litBytes`). -/
theorem stream_eq_probe_tie : Generated.C08.streamEqProbesBytes = true := rfl
theorem trace_eq_probe_tie : Generated.C08.traceEqProbesBytes = true := rfl
theorem trace_having_probe_tie : Generated.C08.traceHavingProbesBytes = true := rfl
/-- F23: the stream `not` node has its own `ShouldSkip` (model: `SFilter.never`). -/
theorem stream_not_tie : Generated.C08.streamNotHasShouldSkip = true := rfl
/-- trace AND/OR nodes skip only if both sides skip (model: `SFilter.traceAnd`). -/
theorem trace_and_tie : Generated.C08.traceAndSkipsOnlyIfBoth = true := rfl
/-- F24: `FilterOp.Eq` asks `ContainsAll([v])` (model: `opEq`). -/
theorem stream_eq_op_tie : Generated.C08.streamEqUsesContainsAll = true := rfl
theorem sidx_eq_op_tie : Generated.C08.sidxEqUsesContainsAll = true := rfl
/-- F25: a pruned block does not advance the series cursor (model: `scanBlocks false`). -/
theorem stream_skip_cursor_tie : Generated.C08.streamSkipAdvancesSeries = false := rfl
/-- F27: null values do not take part in the block's min/max (hypothesis `SummarySound` of `pruning_sound`). -/
theorem stream_minmax_tie : Generated.C08.streamMinMaxIgnoresNull = true := rfl

/-- F62: `Range` does not prune blocks without recorded bounds (model: `opRange`). -/
theorem stream_range_guard_tie : Generated.C08.streamRangeGuardsMissingBounds = true := rfl
theorem sidx_range_guard_tie : Generated.C08.sidxRangeGuardsMissingBounds = true := rfl
/-- F61: searcher results are fresh lists (model: `exec` is a pure function of the index). -/
theorem inverted_fresh_lists_tie : Generated.C08.invertedReturnsSharedDummyList = false := rfl
/-- F63: numeric equality is exact (model: `Term.num` equality). -/
theorem inverted_numeric_eq_tie : Generated.C08.invertedNumericEqByDecimalText = false := rfl

end Banyan.Tie.C08
