/- Tie obligations: constants and shape facts regenerated from /repo must equal what the C09 model uses. -/
import Banyan.Generated.C09
import Banyan.Model.C09

namespace Banyan.Tie.C09
open Banyan

theorem scanner_batch_tie : Generated.C09.blockScannerBatchSize = C09.scannerBatch := rfl
theorem max_block_length_tie : Generated.C09.maxBlockLength = C09.maxBlockLength := rfl
/-- `lessByKey` compares (minKey, maxKey, seriesID) – the order `C09.lessByKey` uses on (lo, hi, sid). -/
theorem less_by_key_tie : Generated.C09.lessByKeyFields = ["minKey", "maxKey", "seriesID"] := rfl
/-- scanner batch threshold = MaxBatchSize, default and capacity `blockScannerBatchSize` (`C09.threshold`). -/
theorem threshold_shape_tie : (Generated.C09.scanThresholdShape && Generated.C09.scanSyncThresholdShape &&
    Generated.C09.scanFlushShape && Generated.C09.scanSyncFlushShape && Generated.C09.batchCapIsScannerBatch) = true := rfl
/-- one complete heap drain per scanner batch (`C09.streamingQuery`, `C09.syncLoop`). -/
theorem drain_shape_tie : (Generated.C09.mergeDrainsHeap && Generated.C09.mergeSyncDrainsHeap &&
    Generated.C09.mergePerScannerBatch) = true := rfl

theorem trace_batch_tie : Generated.C09.defaultTraceBatchSize = C09.defaultTraceBatchSize := rfl
/-- the merge heap of `newSIDXStreamRunner` and `sidx.extractOrdering` both treat everything except DESC as
    ascending (`C09.SortDir.ascending` is used for both in the model) -/
theorem trace_direction_shape_tie : (Generated.C09.traceMergeDirectionShape && Generated.C09.sidxOrderingShape) = true := rfl
/-- the accumulation loop of the stream row-path `limit.Execute` runs until `limit+offset` rows (`C09.limitLoop`) -/
theorem stream_limit_shape_tie : Generated.C09.streamLimitLoopShape = true := rfl

/-- both copies of `getDisjointParts` keep the largest max timestamp as group boundary (`C09.groupParts`) -/
theorem disjoint_boundary_shape_tie : Generated.C09.disjointBoundaryShape = true := rfl
/-- `segResult.remove` removes the sort value with the series (`C09.keepUnseen`) -/
theorem seg_result_remove_shape_tie : Generated.C09.segResultRemoveShape = true := rfl

/-- `loadSortingData` updates the window minimum and maximum independently (`C09.idxWindow`) -/
theorem idx_window_shape_tie : Generated.C09.idxWindowShape = true := rfl
/-- per-node limit of the trace and measure distributed plans = (limit, or the default when unset) + offset
    (`C09.pushedLimit`), defaults 20 / 100 as used by the C09 driver -/
theorem push_down_limit_shape_tie : (Generated.C09.pushDownLimitShape && Generated.C09.traceDefaultLimit == 20 &&
    Generated.C09.measureDefaultLimit == 100) = true := rfl

end Banyan.Tie.C09
