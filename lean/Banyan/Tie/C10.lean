/- Tie obligations: constants and shape facts regenerated from /repo must equal what the C10 model uses. -/
import Banyan.Generated.C10
import Banyan.Model.C10

namespace Banyan.Tie.C10
open Banyan

/-- `NewMap`/`NewReduce` configure MIN with `maxOf[int64]() = math.MaxInt64` … -/
theorem max_sentinel_tie :
    C10.newMap .min = .min (BitVec.ofInt 64 Generated.C10.mapMinInit) ∧
    C10.newReduce .min = .min (BitVec.ofInt 64 Generated.C10.reduceMinInit) := by decide

/-- … and MAX with `minOf[int64]() = math.MinInt64`. -/
theorem min_sentinel_tie :
    C10.newMap .max = .max (BitVec.ofInt 64 Generated.C10.mapMaxInit) ∧
    C10.newReduce .max = .max (BitVec.ofInt 64 Generated.C10.reduceMaxInit) := by decide

/-- `if v < 1 { return 1 }` in both `Val` methods. -/
theorem mean_clamp_tie :
    BitVec.ofNat 64 Generated.C10.meanClampBelow = C10.meanClampBelow ∧
    BitVec.ofNat 64 Generated.C10.meanClampTo = C10.meanClampTo := by decide

/-- which struct serves which function, in `switch` order. -/
theorem map_ctor_tie : Generated.C10.mapCtor = C10.mapCtorShape := by decide
theorem reduce_ctor_tie : Generated.C10.reduceCtor = C10.reduceCtorShape := by decide

/-- `aggAllIterator.Current` labels the scalar answer with shard id 0. -/
theorem scalar_shard_tie : Generated.C10.scalarShardId = C10.scalarShardId := rfl

end Banyan.Tie.C10
