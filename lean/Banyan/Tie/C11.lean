/- Tie obligations: constants and shape facts regenerated from /repo must be the ones the C11 model
   was written against. Where possible the tie is behavioural (the model switches branch exactly at
   the extracted constant). -/
import Banyan.Generated.C11
import Banyan.Model.C11

namespace Banyan.Tie.C11
open Banyan Banyan.C11

def idZ : Zstd := ⟨id, some⟩

theorem encodeType_tie :
    (Generated.C11.etConst, Generated.C11.etDeltaConst, Generated.C11.etDelta, Generated.C11.etDeltaOfDelta,
      Generated.C11.etPlain, Generated.C11.etDictionary) =
    (mtConst, mtDeltaConst, mtDelta, mtDeltaOfDelta, mtPlain, mtDictionary) := rfl

/-- the order in which `Int64ListToBytes` tries the modes and what it returns for each. -/
theorem modeOrder_tie : Generated.C11.modeOrder =
    ["isConst(a)", "EncodeTypeConst", "isDeltaConst {", "EncodeTypeDeltaConst", "isDelta {",
     "EncodeTypeDeltaOfDelta", "isIncremental(a)", "EncodeTypeDeltaOfDelta", "EncodeTypeDelta"] := rfl

theorem incremental_tie :
    (Generated.C11.incShift, Generated.C11.incResets, Generated.C11.incLenShift) = (3, 2, 3) := rfl

/-- `compressBlock` switches from the plain to the zstd framing exactly at the extracted limit. -/
theorem plainBlock_tie :
    (compressBlock idZ (List.replicate (Generated.C11.plainBlockLimit - 1) 0)).head? = some Generated.C11.compressTypePlain ∧
    (compressBlock idZ (List.replicate Generated.C11.plainBlockLimit 0)).head? = some Generated.C11.compressTypeZSTD := by
  decide +kernel

/-- the adaptive-width block picks the extracted type byte for each width class. -/
theorem uintBlock_tie :
    (encodeUint64List [255]).head? = some Generated.C11.uintBlockType8 ∧
    (encodeUint64List [256]).head? = some Generated.C11.uintBlockType16 ∧
    (encodeUint64List [65536]).head? = some Generated.C11.uintBlockType32 ∧
    (encodeUint64List [4294967296]).head? = some Generated.C11.uintBlockType64 := by
  decide

/-- single-byte varint range `(-lo, hi)`. -/
theorem varintSmall_tie :
    (varInt64ToBytes (BitVec.ofNat 64 (Generated.C11.varintSmallHi - 1))) = [2 * (Generated.C11.varintSmallHi - 1)] ∧
    (varInt64ToBytes (BitVec.ofInt 64 (-(Generated.C11.varintSmallLo - 1 : Nat)))) = [2 * (Generated.C11.varintSmallLo - 1) - 1] := by
  decide

/-- a varint may have `varintMaxExtra` continuation bytes after the first one, not more. -/
theorem varintLen_tie :
    (readVarU64 (List.replicate Generated.C11.varintMaxExtra 128 ++ [1])) ≠ .err ∧
    (readVarU64 (List.replicate (Generated.C11.varintMaxExtra + 1) 128 ++ [1])) = .err ∧
    Generated.C11.varuintMaxExtra = Generated.C11.varintMaxExtra := by
  decide

theorem dictionary_tie : Generated.C11.maxUniqueValues = maxUniqueValues := rfl

theorem varArray_tie : (Generated.C11.varArrayDelimiter, Generated.C11.varArrayEscape) = (delim, esc) := rfl

theorem pow10_tie :
    (Generated.C11.pow10tabLen, Generated.C11.pow10FastMax, Generated.C11.pow10LargeFrom, Generated.C11.pow10LargeStep)
      = (19, 18, 19, 18) := rfl

/-- `mulPow10Fast` takes the table path up to the extracted bound and the loop above it; both agree
    with exact multiplication on a sample straddling the bound. -/
theorem pow10_behaviour_tie :
    mulPow10Fast 9#64 (BitVec.ofNat 16 Generated.C11.pow10FastMax) = some 9000000000000000000#64 ∧
    mulPow10Fast 0#64 (BitVec.ofNat 16 Generated.C11.pow10LargeFrom) = some 0#64 ∧
    mulPow10Fast 1#64 (BitVec.ofNat 16 Generated.C11.pow10LargeFrom) = none := by
  decide

theorem tagHeader_tie : Generated.C11.tagHeaderLens = [9, 11] := rfl

end Banyan.Tie.C11
