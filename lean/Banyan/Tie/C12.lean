/- Tie obligations: constants regenerated from /repo must equal the ones the C12 model uses. -/
import Banyan.Generated.C12
import Banyan.Model.C12

namespace Banyan.Tie.C12
open Banyan

theorem delim_tie : Generated.C12.entityDelimiter = C12.delim := rfl
theorem esc_tie : Generated.C12.entityEscape = C12.esc := rfl
theorem vt_null : Generated.C12.vtUnknown = C12.TagValue.null.typeByte := rfl
theorem vt_str : Generated.C12.vtStr = (C12.TagValue.str []).typeByte := rfl
theorem vt_int : Generated.C12.vtInt64 = (C12.TagValue.int 0).typeByte := rfl
theorem vt_bin : Generated.C12.vtBinaryData = (C12.TagValue.bin []).typeByte := rfl

end Banyan.Tie.C12
