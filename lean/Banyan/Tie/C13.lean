/- Tie obligations: constants and shape facts regenerated from /repo must equal the ones the C13 model uses. -/
import Banyan.Generated.C13
import Banyan.Model.C13

namespace Banyan.Tie.C13
open Banyan

/-- the guard's reason strings, in declaration order, are the ones the model prints. -/
theorem reasons_tie : Generated.C13.reasons = C13.allReasons.map C13.Reason.str := by decide

/-- `traceFragmentGuardAction` iota order = the codes the model prints (Defer 0, Keep 1, Drop 2). -/
theorem action_tie : Generated.C13.actionNames = ["Defer", "Keep", "Drop"] ∧
    C13.GuardAction.defer.code = 0 ∧ C13.GuardAction.keep.code = 1 ∧ C13.GuardAction.drop.code = 2 := by decide

/-- `traceFragmentSamplerAction` iota order = the numeric actions of the protocol (Unknown 0, Keep 1, Drop 2). -/
theorem sampler_tie : Generated.C13.samplerNames = ["Unknown", "Keep", "Drop"] := by decide

/-- `traceFragmentMembership` has exactly the three declared values (so 7 is "other"). -/
theorem membership_tie : Generated.C13.membershipNames = ["Unknown", "Absent", "MaybePresent"] := by decide

/-- `traceFragmentTemporalSafetyMaxGapEnforced = 1` is the only accepted temporal-safety value. -/
theorem temporal_tie : Generated.C13.temporalNames = ["Unknown", "MaxGapEnforced"] := by decide

/-- `Resolve` has exactly two Drop sites, each behind `recordConfirmedDrop`, and four context polls;
    `RevalidateDrops` has two Publish sites and four context polls - as the model. -/
theorem shape_tie : Generated.C13.resolveDropSites = 2 ∧ Generated.C13.resolveRecordSites = 2 ∧
    Generated.C13.resolveCtxPolls = 4 ∧ Generated.C13.revalidatePublishSites = 2 ∧
    Generated.C13.revalidateCtxPolls = 4 := by decide

theorem pricing_tie :
    Generated.C13.dropSetEntryHeaderBytes = C13.dropSetEntryHeaderBytes ∧
    Generated.C13.dropSetEntrySlotBytes = C13.dropSetEntrySlotBytes ∧
    Generated.C13.allocClassGranularity = C13.allocClassGranularity ∧
    Generated.C13.allocClassGranularityAbove = C13.allocClassGranularityAbove ∧
    Generated.C13.allocClassLargeThreshold = C13.allocClassLargeThreshold := by decide

theorem idformat_tie : Generated.C13.idFormatV1 = C13.idFormatV1 := rfl

/-- runtime guard budgets: max(stage budget, 16 MiB floor) / 16 probes and / 64 confirmed drops. -/
theorem budgets_tie :
    (Generated.C13.stageBudgetFloor / Generated.C13.probeBudgetBytes : Int) = C13.guardMaxBloomProbes ∧
    (Generated.C13.stageBudgetFloor / Generated.C13.tokenBudgetBytes : Int) = C13.guardMaxConfirmedDrops ∧
    Generated.C13.defaultDropSetBudget = C13.defaultDropSetBudget := by decide

/-- chain bypass reasons reported by `sdk.EvaluateChain` are the ones `evalLink` reports. -/
theorem bypass_tie : Generated.C13.bypassReasons = ["decide_error", "length_mismatch", "panic"] ∧
    C13.evalLink 0 .err = .error "decide_error" ∧ C13.evalLink 0 .panic = .error "panic" ∧
    C13.evalLink 0 (.mask [true]) = .error "length_mismatch" := ⟨by decide, rfl, rfl, rfl⟩

/-- every block the sidx merge loads goes through the keep predicate (one filter site inside the
    single load helper, which all three load sites use). -/
theorem sidx_keep_tie : Generated.C13.sidxKeepFilterSites = 1 ∧ Generated.C13.sidxLoadSites = 3 := by decide

end Banyan.Tie.C13
