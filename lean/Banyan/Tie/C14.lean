/-
Tie obligations for C14: the action sequences regenerated from /repo's segment.go on every run
(tools/extract.d/C14.py) must be exactly the sequences the program counters of the atomic-step
model stand for.  `act pc` lists the source-level actions that the single model step at `pc`
performs (the atomic action, the test on its result, the call it falls into).
-/
import Banyan.Generated.C14
import Banyan.Model.C14

namespace Banyan.Tie.C14
open Banyan.C14

def act : PC → List String
  | .irLoad => ["cur:=rc", "cur<=0", "acquire"]
  | .irCas _ => ["cas+1"]
  | .aqLock => ["lock", "defer-unlock"]
  | .aqRc => ["rc>0"]
  | .aqAdd => ["rc+=1"]
  | .aqMbd => ["mbd!=0", "ret-closed"]
  | .aqInit => ["initialize"]
  | .aqStore => ["rc:=1"]
  | .drLoad _ => ["cur:=rc", "cur<=0"]
  | .drCas _ _ => ["cas-1"]
  | .drMbd => ["cur==1", "mbd!=0", "performDelete"]
  | .pdLock => ["lock", "defer-unlock"]
  | .pdRc => ["rc>0"]
  | .pdClose => ["closeResources"]
  | .pdRm => ["rmall"]
  | .dlStore => ["mbd:=1"]
  | .dlRc => ["rc==0", "performDelete"]
  | .ciLock _ => ["lock", "defer-unlock"]
  | .ciIdx _ => ["idx==nil"]
  | .ciRc _ => ["rc!=0"]
  | .ciMbd _ => ["mbd!=0"]
  | .ciLa _ => ["la>=thr"]
  | .ciClose => ["closeResources"]
  | .snLock => ["lock"]
  | .snMbd => ["mbd!=0", "unlock"]
  | .snIdx => ["idx:=index", "idx!=nil"]
  | .snAdd => ["rc+=1"]
  | .snUnlockOpen => ["unlock", "defer-DecRef"]
  | .snWork => ["snapshotOpen"]
  | .snLink => ["defer-unlock", "snapshotClosed"]
  | .pkLoad => ["cur:=rc", "cur<=0"]
  | .pkCas _ => ["cas+1"]
  | .clLock => ["lock"]
  | .clClose => ["closeResources"]
  | .clMbd => ["mbd!=0"]
  | .clRm => ["rmall"]
  | .clUnlock => ["unlock"]
  | .rdLock => ["rlock", "defer-runlock"]
  | .rdChk => ["idx==nil"]
  | _ => []   -- deferred unlocks, returns

def shape (pcs : List PC) : List String := pcs.flatMap act

/-- incRef CASes only on the `current > 0` branch and otherwise falls into acquire; acquire,
performDelete, delete, closeIfIdle, snapshotInto, controller close and the RLock reader have exactly
the actions, in exactly the order, of the model's program counters. -/
theorem shape_tie :
    Generated.C14.fn_incRef = shape [.irLoad, .irCas 0] ∧
    Generated.C14.fn_acquire = shape [.aqLock, .aqRc, .aqAdd, .aqMbd, .aqInit, .aqStore] ∧
    Generated.C14.fn_performDelete = shape [.pdLock, .pdRc, .pdClose, .pdRm] ∧
    Generated.C14.fn_delete = shape [.dlStore, .dlRc] ∧
    Generated.C14.fn_closeIfIdle = shape [.ciLock 0, .ciIdx 0, .ciRc 0, .ciMbd 0, .ciLa 0, .ciClose] ∧
    Generated.C14.fn_snapshotInto = shape [.snLock, .snMbd, .snIdx, .snAdd, .snUnlockOpen, .snWork, .snLink] ∧
    Generated.C14.ctl_close = shape [.clLock, .clClose, .clMbd, .clRm, .clUnlock] ∧
    Generated.C14.fn_collectOpenMetrics = shape [.rdLock, .rdChk] ∧
    Generated.C14.fn_closeResourcesLocked = ["idx!=nil", "index:=nil"] ∧
    Generated.C14.fn_initialize = ["idx!=nil", "index:=sir", "index:=nil"] := by decide

/-- DecRef: load, `<= 0` exit, CAS to current-1, and performDelete only after `current == 1` and a
set flag. -/
theorem decref_tie : Generated.C14.fn_DecRef = shape [.drLoad true, .drCas 0 true, .drMbd] := by decide

/-- The callers AS WRITTEN (HEAD of /repo, known finding F14a, fix F14b applied): the conditional
pin is the inlined CAS loop (= the model's `peek`: load, `<= 0` exit, CAS to current+1) and every
returned segment is DecRef'ed unconditionally – `selectSegments(false)` callers, `remove`,
`getExpiredSegmentsTimeRange`, `deleteExpiredSegments` go through `segments(ctx,false)` and end with
`DecRef` (the default driver models this with `Proc.decRefStray`); `segments(ctx,true)` unwinds on
failure (a `DecRef` follows its `incRef`); `removeOldest` takes no pin. -/
theorem callers_tie :
    Generated.C14.ctl_selectSegments = ["incRef", "DecRef", "la:=now"] ++ shape [.pkLoad, .pkCas 0] ∧
    Generated.C14.ctl_segments = ["incRef", "DecRef"] ++ shape [.pkLoad, .pkCas 0] ∧
    Generated.C14.ctl_remove = ["segments(false)", "delete", "removeSeg", "DecRef"] ∧
    Generated.C14.ctl_getExpiredSegmentsTimeRange = ["segments(false)", "DecRef"] ∧
    Generated.C14.ctl_deleteExpiredSegments = ["segments(false)", "delete", "removeSeg", "DecRef"] ∧
    Generated.C14.ctl_removeOldest = ["delete", "removeSeg"] := by decide

/-- Shape of the callers after the PROPOSED repair of F14a (fixes/C14_F14a_unpinned_decref.diff) –
what `drv_c14 --repaired` and the `Reachable` theorems describe.  Not a theorem on the current
tree (it holds on a tree with the patch applied; checked there during development). -/
def callersRepairedShape : Prop :=
    Generated.C14.fn_pinIfActive = shape [.pkLoad, .pkCas 0] ∧
    Generated.C14.ctl_selectSegments = ["incRef", "DecRef", "la:=now", "pinIfActive", "unpinned"] ∧
    Generated.C14.ctl_remove = ["copySegments", "delete", "removeSeg"] ∧
    Generated.C14.ctl_getExpiredSegmentsTimeRange = ["copySegments"] ∧
    Generated.C14.ctl_deleteExpiredSegments = ["copySegments", "delete", "removeSeg"]

end Banyan.Tie.C14
