/- Tie obligations: constants and wire maps regenerated from /repo must equal the ones the C15 model uses. -/
import Banyan.Generated.C15
import Banyan.Model.C15

namespace Banyan.Tie.C15
open Banyan Banyan.C15

def allRoles : List Role := [.timestamp, .version, .seriesID, .shardID, .tag, .field, .elementID, .orderKey]
def allTypes : List ColType := [.int64, .float64, .string, .bytes, .int64Array, .strArray, .tagValue, .fieldValue]

theorem magic_tie : Generated.C15.measureMagic = measureCodec.magic ∧ Generated.C15.streamMagic = streamCodec.magic := ⟨rfl, rfl⟩
theorem measure_version_tie : Generated.C15.measureWireVersion = measureCodec.version := rfl
theorem stream_version_tie : Generated.C15.streamWireVersion = streamCodec.version := rfl

/-- `MinHeaderLen`: shorter frames are refused as truncated before anything is read -/
theorem min_header_tie : Generated.C15.minHeaderLen = 7 ∧
    ∀ (cd : Codec) (b : List Byte), b.length < Generated.C15.minHeaderLen → validateHeader cd b = .err .trunc := by
  refine ⟨rfl, ?_⟩
  intro cd b h
  have : b.length < 7 := h
  simp [validateHeader, this]

/-- both analyzers page with the same default limit -/
theorem default_limit_tie : Generated.C15.defaultLimit = Generated.C15.rowDefaultLimit := rfl

theorem measure_roles_tie : allRoles.map (fun r => (measureCodec.roleToWire r).getD 0) = Generated.C15.measureRoleWire := rfl
theorem measure_types_tie : allTypes.map (fun t => (measureCodec.typeToWire t).getD 0) = Generated.C15.measureTypeWire := rfl
theorem stream_roles_tie : allRoles.map (fun r => (streamCodec.roleToWire r).getD 0) = Generated.C15.streamRoleWire := rfl
theorem stream_types_tie : allTypes.map (fun t => (streamCodec.typeToWire t).getD 0) = Generated.C15.streamTypeWire := rfl
theorem coltype_iota_tie : allTypes.map ColType.toCode = Generated.C15.colTypeIota := rfl
theorem role_iota_tie : allRoles.map Role.toCode = Generated.C15.roleIota := rfl

end Banyan.Tie.C15
