/- Tie obligations: literals and shapes regenerated from /repo must equal what the C16 model uses. -/
import Banyan.Generated.C16
import Banyan.Model.C16

namespace Banyan.Tie.C16
open Banyan

/-- `ShardID` rejects `shardNum < 1` -/
theorem shardNumMin_tie : Generated.C16.shardNumMin = C16.shardNumMin := rfl
/-- `TraceShardID` answers shard 0 for a zero shard count -/
theorem traceShardOnZero_tie : Generated.C16.traceShardOnZero = C16.traceShardOnZero := rfl
/-- `String()` lists `replicas + 1` copies per shard -/
theorem copiesExtra_tie : Generated.C16.copiesExtra = C16.copiesExtra := rfl
/-- `selectNode` is `nodes[(index + replica) % len(nodes)]` (the shape `C16.pick` mirrors) -/
theorem selectNode_shape : Generated.C16.selectNodeIsIndexPlusReplicaModLen = true := rfl
/-- `sortEntries` orders by `strings.Compare(group)` then `shardID` (the shape `C16.keyLt` mirrors) -/
theorem sortEntries_shape : Generated.C16.sortEntriesIsGroupThenShard = true := rfl

end Banyan.Tie.C16
