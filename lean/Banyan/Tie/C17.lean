/- Tie obligations: constants / shape facts regenerated from /repo must equal the ones the C17 model uses. -/
import Banyan.Generated.C17
import Banyan.Model.C17

namespace Banyan.Tie.C17
open Banyan

/-- `NewServerWithPorts` defaults = defaults of the model's `Cfg`. -/
theorem default_reorder : Generated.C17.defaultReorder = ({} : C17.Cfg).reorder := rfl
theorem default_maxBuf : Generated.C17.defaultMaxBuf = ({} : C17.Cfg).maxBuf := rfl
theorem default_maxGap : Generated.C17.defaultMaxGap = ({} : C17.Cfg).maxGap := rfl

/-- `SyncStatus` codes (rpc.proto) = the acknowledgement codes of the model. -/
theorem st_received : Generated.C17.stReceived = C17.stReceived := rfl
theorem st_mismatch : Generated.C17.stMismatch = C17.stMismatch := rfl
theorem st_outOfOrder : Generated.C17.stOutOfOrder = C17.stOutOfOrder := rfl
theorem st_noSession : Generated.C17.stNoSession = C17.stNoSession := rfl
theorem st_complete : Generated.C17.stComplete = C17.stComplete := rfl
theorem st_version : Generated.C17.stVersion = C17.stVersion := rfl

/-- `storage.DefaultMaxRetries` = retry bound of the liaison queue model. -/
theorem max_retries : Generated.C17.failedPartsMaxRetries = C17.maxRetries := rfl

/-- Shape facts: `executeSyncWithRetry` has no failing return (so `syncSnapshot` always introduces the batch,
    as `C17.syncSnapshot` does), and both ends compute `%x` of CRC-32 (IEEE). -/
theorem measure_retry_always_nil : Generated.C17.measureRetryAlwaysNil = true := rfl
theorem stream_retry_always_nil : Generated.C17.streamRetryAlwaysNil = true := rfl
theorem checksum_is_crc32_hex : Generated.C17.checksumIsCrc32Hex = true := rfl

end Banyan.Tie.C17
