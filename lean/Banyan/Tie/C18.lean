/- Tie obligations: limits and comparison shapes regenerated from /repo must be the ones the C18 model mirrors. -/
import Banyan.Generated.C18
import Banyan.Model.C18

namespace Banyan.Tie.C18
open Banyan

theorem gossip_limit_tie : Generated.C18.gossipQuerySize = C18.searchLimit := rfl
theorem repair_limit_tie : Generated.C18.repairSearchLimit = C18.searchLimit := rfl
theorem query_limit_tie : Generated.C18.queryDefaultLimit = C18.searchLimit := rfl
/-- `shard.repair` refuses an incoming document of the same revision unless its delete time is greater. -/
theorem repair_tiebreak_tie : Generated.C18.repairKeepsLaterTombstone = C18.repairKeepsLaterTombstone := rfl
/-- `buildNotDeletedDocIDList` lists the id being replaced too (two documents of one id can be stored; the model
    mirrors it in `repairBatch`). -/
theorem repair_skip_tie : Generated.C18.repairSkipsReplacedDoc = C18.repairSkipsReplacedDoc := rfl
/-- the liaison orders states of a property as `shard.repair` does. -/
theorem liaison_order_tie : Generated.C18.liaisonUsesNewerThan = C18.liaisonUsesNewerThan := rfl
theorem delete_lookup_tie : Generated.C18.deleteLookupLimitIsIdCount = true := rfl
theorem leaf_sep_tie : Generated.C18.leafSep = C18.leafSep := rfl
/-- `parseLeafNodeEntity` splits into at most three parts: the id keeps its separators. -/
theorem leaf_parts_tie : Generated.C18.leafParts = C18.leafParts := rfl
theorem doc_id_tie : Generated.C18.docIdIsEntityAndRevision = true := rfl

end Banyan.Tie.C18
