import Banyan.Model.C18
namespace Banyan.Tie.C18
end Banyan.Tie.C18
