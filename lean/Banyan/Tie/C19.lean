/- Tie obligations for C19: the snapshot procedures in /repo still have the step order the model mirrors.
   Regenerated facts (tools/extract.d/C19.py) must all be `true`; a changed shape breaks this file. -/
import Banyan.Generated.C19
import Banyan.Model.C19

namespace Banyan.Tie.C19
open Banyan

theorem copySegmentsTouchesNothing : Generated.C19.copySegmentsTouchesNothing = true := rfl
theorem dbErrorRemovesDst : Generated.C19.dbErrorRemovesDst = true := rfl
theorem dbStopsAtFirstError : Generated.C19.dbStopsAtFirstError = true := rfl
theorem dbUsesCopySegments : Generated.C19.dbUsesCopySegments = true := rfl
theorem measureCurrentSnapshotIncRefUnderRLock : Generated.C19.measureCurrentSnapshotIncRefUnderRLock = true := rfl
theorem measureErrorRemovesDst : Generated.C19.measureErrorRemovesDst = true := rfl
theorem measureLinkErrorReturns : Generated.C19.measureLinkErrorReturns = true := rfl
theorem measureLoopSkipsMemParts : Generated.C19.measureLoopSkipsMemParts = true := rfl
theorem measureManifestAfterLinks : Generated.C19.measureManifestAfterLinks = true := rfl
theorem measureManifestNamedByEpoch : Generated.C19.measureManifestNamedByEpoch = true := rfl
theorem measureManifestNamesAllParts : Generated.C19.measureManifestNamesAllParts = true := rfl
theorem measureNilSnapshotReturnsErrNoCurrentSnapshot : Generated.C19.measureNilSnapshotReturnsErrNoCurrentSnapshot = true := rfl
theorem measureNoDiskPartsNoManifest : Generated.C19.measureNoDiskPartsNoManifest = true := rfl
theorem measurePartDirRemovedOnlyAtRefZeroAndRemovable : Generated.C19.measurePartDirRemovedOnlyAtRefZeroAndRemovable = true := rfl
theorem measurePinThenDeferUnpinBeforeLinks : Generated.C19.measurePinThenDeferUnpinBeforeLinks = true := rfl
theorem segCloseIfIdleRequiresRefZero : Generated.C19.segCloseIfIdleRequiresRefZero = true := rfl
theorem segClosedHardLinksWithFilter : Generated.C19.segClosedHardLinksWithFilter = true := rfl
theorem segClosedLinkedUnderLock : Generated.C19.segClosedLinkedUnderLock = true := rfl
theorem segDecRefDeletesAtLastRelease : Generated.C19.segDecRefDeletesAtLastRelease = true := rfl
theorem segDeletedSkipped : Generated.C19.segDeletedSkipped = true := rfl
theorem segLockFirst : Generated.C19.segLockFirst = true := rfl
theorem segOpenIteratesShardList : Generated.C19.segOpenIteratesShardList = true := rfl
theorem segOpenPinsWithoutReopen : Generated.C19.segOpenPinsWithoutReopen = true := rfl
theorem segOpenSkipsEmptyShard : Generated.C19.segOpenSkipsEmptyShard = true := rfl
theorem segSnapshotNeverReopens : Generated.C19.segSnapshotNeverReopens = true := rfl
theorem streamCurrentSnapshotIncRefUnderRLock : Generated.C19.streamCurrentSnapshotIncRefUnderRLock = true := rfl
theorem streamErrorRemovesDst : Generated.C19.streamErrorRemovesDst = true := rfl
theorem streamLinkErrorReturns : Generated.C19.streamLinkErrorReturns = true := rfl
theorem streamLoopSkipsMemParts : Generated.C19.streamLoopSkipsMemParts = true := rfl
theorem streamManifestAfterLinks : Generated.C19.streamManifestAfterLinks = true := rfl
theorem streamManifestNamedByEpoch : Generated.C19.streamManifestNamedByEpoch = true := rfl
theorem streamManifestNamesAllParts : Generated.C19.streamManifestNamesAllParts = true := rfl
theorem streamNilSnapshotReturnsErrNoCurrentSnapshot : Generated.C19.streamNilSnapshotReturnsErrNoCurrentSnapshot = true := rfl
theorem streamNoDiskPartsNoManifest : Generated.C19.streamNoDiskPartsNoManifest = true := rfl
theorem streamPartDirRemovedOnlyAtRefZeroAndRemovable : Generated.C19.streamPartDirRemovedOnlyAtRefZeroAndRemovable = true := rfl
theorem streamPinThenDeferUnpinBeforeLinks : Generated.C19.streamPinThenDeferUnpinBeforeLinks = true := rfl
theorem traceCurrentSnapshotIncRefUnderRLock : Generated.C19.traceCurrentSnapshotIncRefUnderRLock = true := rfl
theorem traceErrorRemovesDst : Generated.C19.traceErrorRemovesDst = true := rfl
theorem traceLinkErrorReturns : Generated.C19.traceLinkErrorReturns = true := rfl
theorem traceLoopSkipsMemParts : Generated.C19.traceLoopSkipsMemParts = true := rfl
theorem traceManifestAfterLinks : Generated.C19.traceManifestAfterLinks = true := rfl
theorem traceManifestNamedByEpoch : Generated.C19.traceManifestNamedByEpoch = true := rfl
theorem traceManifestNamesAllParts : Generated.C19.traceManifestNamesAllParts = true := rfl
theorem traceNilSnapshotReturnsErrNoCurrentSnapshot : Generated.C19.traceNilSnapshotReturnsErrNoCurrentSnapshot = true := rfl
theorem traceNoDiskPartsNoManifest : Generated.C19.traceNoDiskPartsNoManifest = true := rfl
theorem tracePartDirRemovedOnlyAtRefZeroAndRemovable : Generated.C19.tracePartDirRemovedOnlyAtRefZeroAndRemovable = true := rfl
theorem tracePinThenDeferUnpinBeforeLinks : Generated.C19.tracePinThenDeferUnpinBeforeLinks = true := rfl
theorem traceCorePinnedInsideFence : Generated.C19.traceCorePinnedInsideFence = true := rfl
theorem traceNilSnapshotReleasesFence : Generated.C19.traceNilSnapshotReleasesFence = true := rfl
theorem traceFenceReleasedOnlyByHelper : Generated.C19.traceFenceReleasedOnlyByHelper = true := rfl
theorem traceIndexLinkedInsideFence : Generated.C19.traceIndexLinkedInsideFence = true := rfl
theorem tracePublicationsHoldFenceExclusively : Generated.C19.tracePublicationsHoldFenceExclusively = true := rfl
theorem traceSinglePublicationSite : Generated.C19.traceSinglePublicationSite = true := rfl
theorem closedExcludes_tie : Generated.C19.closedExcludes = C19.closedExcludes := rfl

end Banyan.Tie.C19
