/- Tie obligations for C20: facts regenerated from /repo on every run must equal what the model uses. -/
import Banyan.Generated.C20
import Banyan.Model.C20
import Banyan.Lemmas.C20Reject

namespace Banyan.Tie.C20
open Banyan Banyan.C20


/-- a SELECT with a marker placeholder in every count/time/where position (marker = ParamIndex). -/
def sampleSelect : SelectStmt :=
  { hdr := [], topN := some (.param 1), time := some (.cmp [] (.param 2)),
    where_ := some (.one (.one (.compare [] [] (.param 3)))), mid := [], limit := some (.param 4),
    offset := some (.param 5) }

def sampleTopN : TopNStmt :=
  { hdr := [], n := .param 1, time := some (.cmp [] (.param 2)),
    where_ := some (.one (.compare [] [] (.param 3))), tail := [] }

/-- the model's walk order and count bounds for SELECT … -/
theorem select_walk : sampleSelect.holes =
    [.count (Generated.C20.bindSelTopN : Int) (.param 1), .time (.param 2), .scalar (.param 3),
     .count (Generated.C20.bindLimit : Int) (.param 4), .count (Generated.C20.bindOffset : Int) (.param 5)] := rfl

/-- … is the textual order of `binder.collect` and of `preparer.walkGrammar`. -/
theorem select_order : Generated.C20.bindSelectOrder = ["topN", "time", "where", "limit", "offset"] ∧
    Generated.C20.prepSelectOrder = Generated.C20.bindSelectOrder := ⟨rfl, rfl⟩

theorem topn_walk : sampleTopN.holes =
    [.count (Generated.C20.bindShowTopN : Int) (.param 1), .time (.param 2), .scalar (.param 3)] := rfl

theorem topn_order : Generated.C20.bindTopNOrder = ["n", "time", "where"] ∧ Generated.C20.prepTopNOrder = Generated.C20.bindTopNOrder := ⟨rfl, rfl⟩

/-- in-place binder, preparer and the literal guard use the same bound at each count position. -/
theorem bounds_agree :
    Generated.C20.prepSelTopN = Generated.C20.bindSelTopN ∧ Generated.C20.prepLimit = Generated.C20.bindLimit ∧ Generated.C20.prepOffset = Generated.C20.bindOffset ∧
    Generated.C20.prepShowTopN = Generated.C20.bindShowTopN ∧ Generated.C20.litSelTopN = Generated.C20.bindSelTopN ∧ Generated.C20.litLimit = Generated.C20.bindLimit ∧
    Generated.C20.litOffset = Generated.C20.bindOffset ∧ Generated.C20.litShowTopN = Generated.C20.bindShowTopN := ⟨rfl, rfl, rfl, rfl, rfl, rfl, rfl, rfl⟩

theorem bounds_model : (Generated.C20.bindSelTopN : Int) = maxI32 ∧ (Generated.C20.bindShowTopN : Int) = maxI32 ∧
    (Generated.C20.bindLimit : Int) = maxU32 ∧ (Generated.C20.bindOffset : Int) = maxU32 := ⟨rfl, rfl, rfl, rfl⟩

/-- the literal guard of the model reads the same positions with the same bounds. -/
theorem literal_guard_positions :
    validCounts (.select { sampleSelect with topN := some (.lit (Generated.C20.litSelTopN : Int)), limit := some (.lit (Generated.C20.litLimit : Int)),
                                             offset := some (.lit (Generated.C20.litOffset : Int)) }) = true ∧
    validCounts (.select { sampleSelect with topN := some (.lit ((Generated.C20.litSelTopN : Int) + 1)) }) = false ∧
    validCounts (.select { sampleSelect with limit := some (.lit ((Generated.C20.litLimit : Int) + 1)) }) = false ∧
    validCounts (.select { sampleSelect with offset := some (.lit ((Generated.C20.litOffset : Int) + 1)) }) = false ∧
    validCounts (.topN { sampleTopN with n := .lit (Generated.C20.litShowTopN : Int) }) = true ∧
    validCounts (.topN { sampleTopN with n := .lit ((Generated.C20.litShowTopN : Int) + 1) }) = false := by decide

/-- `validateCountValue` has the shape `value < 0 || value > maxValue` and the bound path calls it. -/
theorem count_guard_shape : Generated.C20.countGuardShape = true ∧ Generated.C20.boundPathUsesGuard = true := ⟨rfl, rfl⟩

/-- one representative per `TagValue` variant. -/
def variants : List (String × ParamVal) :=
  [("BinaryData", .bin []), ("Int", .int 0), ("IntArray", .intArr [0]), ("Null", .null), ("Str", .str []),
   ("StrArray", .strArr [[]]), ("Timestamp", .ts 0 0)]

def acceptedBy (k : SlotKind) : List String := (variants.filter fun v => accepts k v.2).map (·.1)

/-- the variants the model accepts per position kind are the `case` lists of the Go resolvers. -/
theorem scalar_types : acceptedBy .scalar = Generated.C20.scalarTypes := by decide
theorem time_types : acceptedBy .time = Generated.C20.timeTypes := by decide
theorem count_types : acceptedBy (.count maxU32) = Generated.C20.countTypes := by decide
theorem list_types : acceptedBy .list = ["Int", "IntArray", "Null", "Str", "StrArray"] ∧
    Generated.C20.listScalarTypes = Generated.C20.scalarTypes ∧ Generated.C20.bindListScalarTypes = Generated.C20.scalarTypes ∧
    Generated.C20.arrayTypes = ["IntArray", "StrArray"] := by decide

/-- `placeholderKind` numbering used by the Go driver when it prints specs. -/
theorem kind_codes : Generated.C20.phScalar = 0 ∧ Generated.C20.phList = 1 ∧ Generated.C20.phTime = 2 ∧ Generated.C20.phCount = 3 := ⟨rfl, rfl, rfl, rfl⟩

end Banyan.Tie.C20
