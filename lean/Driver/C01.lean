import Banyan.Model.C01
import Banyan.Generated.C02
open Banyan

/-- model driver for C01: same protocol and model as C02 (hooks/banyand/internal/verifdrv/mrw/main.go) -/
def main (args : List String) : IO Unit :=
  let legacy := if args.contains "legacy" then true else if args.contains "fixed" then false
                else !Generated.C02.initGuarded
  let batchLegacy := if args.contains "batchlegacy" then true else if args.contains "batchfixed" then false
                     else !Generated.C02.batchCutBetweenPoints
  runDriver (Store.Proto.handleWith { (if legacy then C01.cfgLegacy else C01.cfg) with batchFinishRun := !batchLegacy })
