import Banyan.Model.C02
import Banyan.Generated.C02
open Banyan

/-- model driver for C02 (protocol: hooks/banyand/internal/verifdrv/mrw/main.go).
    The model is instantiated with the shape of `mustInitFromDataPoints` found in the tree under test
    (`Generated.C02.initGuarded`), so that model and implementation correspond on the pinned code as
    well as on the repaired one; the theorems (and `Tie.C02.init_guard_tie`) are about the repaired one.
    The same holds for the batch cut of `mergeBatch` (`Generated.C02.batchCutBetweenPoints`, F57).
    An explicit argument `legacy` / `fixed` (`batchlegacy` / `batchfixed`) overrides. -/
def main (args : List String) : IO Unit :=
  let legacy := if args.contains "legacy" then true else if args.contains "fixed" then false
                else !Generated.C02.initGuarded
  let batchLegacy := if args.contains "batchlegacy" then true else if args.contains "batchfixed" then false
                     else !Generated.C02.batchCutBetweenPoints
  runDriver (Store.Proto.handleWith { (if legacy then C02.cfgLegacy else C02.cfg) with batchFinishRun := !batchLegacy })
