import Banyan.Model.C02
open Banyan

/-- model driver for C02 (protocol: hooks/banyand/internal/verifdrv/mrw/main.go).
    `legacy` as first argument runs `mustInitFromDataPoints` with the zero sentinels of the pinned commit. -/
def main (args : List String) : IO Unit :=
  runDriver (Store.Proto.handleWith (if args.contains "legacy" then C02.cfgLegacy else C02.cfg))
