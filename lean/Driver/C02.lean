import Banyan.Model.Util
open Banyan

/- stub: model driver for C02 not built yet -/
def main : IO Unit := runDriver fun _ => "bad-op"
