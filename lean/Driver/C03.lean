import Banyan.Model.C03
import Banyan.Generated.C02
open Banyan

/-- model driver for C03: same protocol and model as C02 (hooks/banyand/internal/verifdrv/mrw/main.go) -/
def main (args : List String) : IO Unit :=
  let legacy := if args.contains "legacy" then true else if args.contains "fixed" then false
                else !Generated.C02.initGuarded
  runDriver (Store.Proto.handleWith (if legacy then C03.cfgLegacy else C03.cfg))
