import Banyan.Model.C03
import Banyan.Generated.C02
import Banyan.Generated.C03
open Banyan

/-- model driver for C03: measure histories (same protocol and model as C02) and `sidx …` lines
    (thin multiset model of the ordered secondary index); see hooks/banyand/internal/verifdrv/mrw -/
def main (args : List String) : IO Unit :=
  let legacy := if args.contains "legacy" then true else if args.contains "fixed" then false
                else !Generated.C02.initGuarded
  let batchLegacy := if args.contains "batchlegacy" then true else if args.contains "batchfixed" then false
                     else !Generated.C02.batchCutBetweenPoints
  let sxLegacy := if args.contains "sxlegacy" then true else if args.contains "sxfixed" then false
                  else !Generated.C03.sidxHullAllOrNone
  runDriver fun line =>
    if line.startsWith "sidx" then C03.sidxHandle sxLegacy line
    else Store.Proto.handleWith { (if legacy then C03.cfgLegacy else C03.cfg) with batchFinishRun := !batchLegacy } line
