import Banyan.Model.C04
import Banyan.Model.C04Seg
open Banyan Banyan.FS Banyan.C04

/-!
Line protocol of the C04 model driver (names: `p<id>` part, `s<epoch>` manifest, real file names, `.tmp`
suffix, `junk<k>`, `zz<k>.snp`, `failed-parts`; ids decimal; paths joined by `/`).

  steps <fresh> <op>...                      step list of the history, one segment per op, segments joined by ` | `
  kill <cut> <fresh> <op>...                 volatile tree after `cut` steps + `recover` of it
  pendx <cut> | <step>; <step>; ...          the same for an explicit step list (a recorded syscall trace)
  powerx <cut> <mask> <data> | <step>; ...   the same for an explicit step list
  pend <cut> <fresh> <op>...                 pending directory operations and un-fsynced inodes after `cut` steps
  power <cut> <mask> <data> <fresh> <op>...  durable tree + the pending ops whose bit in `mask` is 1, data choice
                                             `<ino>:<len>,...` (`-` none) + `recover` of it
  rec <entry>...                             `recover` || `recoverLegacy` of an explicit tree (entries `path/` or `path=<tok.tok..>`)
  reclegacy <entry>...                       the same with `initTSTable` as written
  segsteps <atomic 0|1> <k>                  segment level: step list of `k` segment creations (+ table), joined by `; `
  segrec <entry>...                          `openSegs` of an explicit tree
  segstatesx <cut> | <step>; <step>; ...     the same for an explicit step list (a recorded trace)
  segstates <atomic 0|1> <k> <cut>           every crash outcome after `cut` steps: `K|P <tree> => <openSegs>` joined by ` ## `
-/

def pfileName (f : PFile) : String := f.fileName

def showName : Name → String
  | .part id => s!"p{id}"
  | .snp e => s!"s{e}"
  | .pf f => pfileName f
  | .tmp n => showName n ++ ".tmp"
  | .junk k => s!"junk{k}"
  | .junkSnp k => s!"zz{k}.snp"
  | .failedParts => "failed-parts"

def showPath (p : Path) : String := if p.isEmpty then "." else "/".intercalate (p.map showName)

def allPFiles : List PFile := [.mt, .primary, .timestamps, .fv, .tf, .tfm, .tagType, .metadata]

partial def parseName (s : String) : Option Name :=
  if s.endsWith ".tmp" then (parseName (String.ofList (s.toList.take (s.length - 4)))).map Name.tmp
  else if s == "failed-parts" then some .failedParts
  else match allPFiles.find? (fun f => pfileName f == s) with
  | some f => some (.pf f)
  | none =>
    match s.toList with
    | 'p' :: r => (String.ofList r).toNat?.map Name.part
    | 's' :: r => (String.ofList r).toNat?.map Name.snp
    | 'j' :: 'u' :: 'n' :: 'k' :: r => (String.ofList r).toNat?.map Name.junk
    | 'z' :: 'z' :: r =>
      let r' := String.ofList r
      if r'.endsWith ".snp" then (String.ofList (r.take (r.length - 4))).toNat?.map Name.junkSnp else none
    | _ => none

def parsePath (s : String) : Option Path :=
  if s == "." then some [] else (s.splitOn "/").mapM parseName

def showToks (c : Content) : String := if c.isEmpty then "-" else ".".intercalate (c.map toString)

def parseToks (s : String) : Option Content :=
  if s == "-" then some [] else (s.splitOn ".").mapM (·.toNat?)

def showStep : Step → String
  | .mkdir p => s!"mkdir {showPath p}"
  | .create p => s!"create {showPath p}"
  | .write p c => s!"write {showPath p} {showToks c}"
  | .fsync p => s!"fsync {showPath p}"
  | .close p => s!"close {showPath p}"
  | .rename a b => s!"rename {showPath a} {showPath b}"
  | .fsyncdir d => s!"fsyncdir {showPath d}"
  | .unlink p => s!"unlink {showPath p}"
  | .rmdir p => s!"rmdir {showPath p}"
  | .link a b => s!"link {showPath a} {showPath b}"

def parseSel (s : String) : Option (List Nat) :=
  if s.isEmpty then some [] else (s.splitOn ",").mapM (·.toNat?)

def parseOp (s : String) : Option Op :=
  match s.toList with
  | 'B' :: r => (String.ofList r).toNat?.map Op.batch
  | ['F'] => some .flush
  | ['G'] => some .mergeMem
  | ['R'] => some .release
  | 'M' :: r => (parseSel (String.ofList r)).map (fun l => Op.merge l false)
  | 'H' :: r => (parseSel (String.ofList r)).map (fun l => Op.merge l true)
  | _ => none

def parseHist (ws : List String) : Option (Tbl × List Op) :=
  match ws with
  | fresh :: ops => do
    let e ← fresh.toNat?
    let os ← ops.mapM parseOp
    pure ({ epoch := e }, os)
  | [] => none

def insertStr (x : String) : List String → List String
  | [] => [x]
  | y :: ys => if x ≤ y then x :: y :: ys else y :: insertStr x ys

def sortStr (xs : List String) : List String := xs.foldr insertStr []

/-- entries of a resolved name space; files carry their tokens and (when known) inode -/
def showTreeIno (ns : NS Name) (data : Nat → Content) : String :=
  let t := resolve ns data
  let es := (reachable t).filterMap (fun kv =>
    match Map.get ns kv.1 with
    | some .dir => some (showPath kv.1 ++ "/")
    | some (.file i) => some s!"{showPath kv.1}={showToks (data i)}@{i}"
    | none => none)
  " ".intercalate (sortStr es.eraseDups)

def showTreeNames (t : Tree) : String :=
  let es := (reachable t).map (fun kv =>
    match kv.2 with
    | .dir => showPath kv.1 ++ "/"
    | .file _ => showPath kv.1)
  ",".intercalate (sortStr es.eraseDups)

def showRec : RecResult → String
  | .panic w => s!"PANIC {w}"
  | .ok r =>
    let e := match r.epoch with | some e => toString e | none => "-"
    let ps := ";".intercalate (r.parts.map (fun p => s!"{p.1}:{",".intercalate (p.2.map toString)}"))
    s!"OK epoch={e} parts={ps} tree={showTreeNames r.tree}"

def parseEntry (s : String) : Option (Path × TNode) :=
  if s.endsWith "/" then (parsePath (String.ofList (s.toList.take (s.length - 1)))).map (fun p => (p, TNode.dir))
  else match s.splitOn "=" with
  | [p, c] => do
    let p' ← parsePath p
    let c' ← parseToks ((c.splitOn "@").headD "")
    pure (p', TNode.file c')
  | _ => none

def parseDataChoice (s : String) : Option (List (Nat × Nat)) :=
  if s == "-" then some [] else (s.splitOn ",").mapM (fun kv =>
    match kv.splitOn ":" with
    | [a, b] => do pure ((← a.toNat?), (← b.toNat?))
    | _ => none)

def showDOp : DOp Name → String
  | .add p .dir => s!"add {showPath p}/"
  | .add p (.file i) => s!"add {showPath p}@{i}"
  | .del p => s!"del {showPath p}"
  | .ren a b => s!"ren {showPath a} {showPath b}"

def parseStep (s : String) : Option Step :=
  match words s with
  | ["mkdir", p] => (parsePath p).map Step.mkdir
  | ["create", p] => (parsePath p).map Step.create
  | ["write", p, c] => do pure (Step.write (← parsePath p) (← parseToks c))
  | ["fsync", p] => (parsePath p).map Step.fsync
  | ["close", p] => (parsePath p).map Step.close
  | ["rename", a, b] => do pure (Step.rename (← parsePath a) (← parsePath b))
  | ["fsyncdir", p] => (parsePath p).map Step.fsyncdir
  | ["unlink", p] => (parsePath p).map Step.unlink
  | ["rmdir", p] => (parsePath p).map Step.rmdir
  | _ => none

/-- explicit step lists: `<step>; <step>; ...` -/
def parseSteps (s : String) : Option (List Step) :=
  ((s.splitOn ";").filter (fun x => !(words x).isEmpty)).mapM parseStep

def pendLine (s : St) : String :=
  let inos := (List.range s.next).filter (fun i => s.ddataOf i != s.vdataOf i)
  let ds := ",".intercalate (inos.map (fun i => s!"{i}:{(s.ddataOf i).length}:{(s.vdataOf i).length}"))
  s!"{"; ".intercalate (s.pend.map showDOp)} || {if ds.isEmpty then "-" else ds}"

def powerLine (s : St) (mask : String) (choice : List (Nat × Nat)) : String :=
  let bits := mask.toList
  let sub := (s.pend.zip (bits ++ List.replicate s.pend.length '0')).filterMap
    (fun ob => if ob.2 == '1' then some ob.1 else none)
  let data := fun i => match choice.find? (·.1 == i) with
    | some (_, n) => (s.vdataOf i).take (max n (s.ddataOf i).length)
    | none => s.ddataOf i
  let ns := applyOps sub s.dur
  s!"{showTreeIno ns data} || {showRec (recover (resolve ns data))} || {showRec (recoverLegacy (resolve ns data))}"

/-! segment level (`Model/C04Seg.lean`) -/

def segShowName : C04Seg.SName → String
  | .seg i => s!"seg{i}"
  | .metadata => "metadata"
  | .metadataTmp => "metadata.tmp"
  | .shard => "shard-0"
  | .data => "data"

def segParseName (s : String) : Option C04Seg.SName :=
  if s == "metadata" then some .metadata
  else if s == "metadata.tmp" then some .metadataTmp
  else if s == "shard-0" then some .shard
  else if s == "data" then some .data
  else if s.startsWith "seg" then (String.ofList (s.toList.drop 3)).toNat?.map C04Seg.SName.seg
  else none

def segParseEntry (s : String) : Option (C04Seg.Path × TNode) :=
  if s.endsWith "/" then ((String.ofList (s.toList.take (s.length - 1))).splitOn "/").mapM segParseName |>.map (fun p => (p, TNode.dir))
  else match s.splitOn "=" with
  | [p, c] => do
    let p' ← (p.splitOn "/").mapM segParseName
    let c' ← parseToks c
    pure (p', TNode.file c')
  | _ => none

def segShowPath (p : C04Seg.Path) : String := if p.isEmpty then "." else "/".intercalate (p.map segShowName)

def segShowStep : C04Seg.Step → String
  | .mkdir p => s!"mkdir {segShowPath p}"
  | .create p => s!"create {segShowPath p}"
  | .write p c => s!"write {segShowPath p} {showToks c}"
  | .fsync p => s!"fsync {segShowPath p}"
  | .close p => s!"close {segShowPath p}"
  | .rename a b => s!"rename {segShowPath a} {segShowPath b}"
  | .fsyncdir d => s!"fsyncdir {segShowPath d}"
  | .unlink p => s!"unlink {segShowPath p}"
  | .rmdir p => s!"rmdir {segShowPath p}"
  | .link a b => s!"link {segShowPath a} {segShowPath b}"

def segParsePath (s : String) : Option C04Seg.Path :=
  if s == "." then some [] else (s.splitOn "/").mapM segParseName

def segParseStep (s : String) : Option C04Seg.Step :=
  match (s.trimAscii.toString.splitOn " ").filter (· ≠ "") with
  | ["mkdir", p] => (segParsePath p).map .mkdir
  | ["create", p] => (segParsePath p).map .create
  | ["write", p, c] => do pure (.write (← segParsePath p) (← parseToks c))
  | ["fsync", p] => (segParsePath p).map .fsync
  | ["close", p] => (segParsePath p).map .close
  | ["rename", a, b] => do pure (.rename (← segParsePath a) (← segParsePath b))
  | ["fsyncdir", p] => (segParsePath p).map .fsyncdir
  | ["unlink", p] => (segParsePath p).map .unlink
  | ["rmdir", p] => (segParsePath p).map .rmdir
  | _ => none

def segShowTree (t : C04Seg.Tree) : String :=
  let es := t.map (fun kv =>
    match kv.2 with
    | .dir => segShowPath kv.1 ++ "/"
    | .file c => s!"{segShowPath kv.1}={showToks c}")
  " ".intercalate (sortStr es.eraseDups)

def segShowRec : C04Seg.SegRec → String
  | .err w => s!"ERR {w}"
  | .ok loaded t => s!"OK {",".intercalate (loaded.map toString)} | {segShowTree t}"

def handle (line : String) : String :=
  match words line with
  | "steps" :: rest =>
    match parseHist rest with
    | some (t, os) => " | ".intercalate ((histSegments t os).map (fun seg => "; ".intercalate (seg.map showStep)))
    | none => "bad-op"
  | "kill" :: cut :: rest =>
    match cut.toNat?, parseHist rest with
    | some k, some (t, os) =>
      let s := run ({} : St) ((histSteps t os).take k)
      s!"{showTreeIno s.vol s.vdataOf} || {showRec (recover (crashKill s))} || {showRec (recoverLegacy (crashKill s))}"
    | _, _ => "bad-op"
  | "pend" :: cut :: rest =>
    match cut.toNat?, parseHist rest with
    | some k, some (t, os) =>
      let s := run ({} : St) ((histSteps t os).take k)
      let inos := (List.range s.next).filter (fun i => s.ddataOf i != s.vdataOf i)
      let ds := ",".intercalate (inos.map (fun i => s!"{i}:{(s.ddataOf i).length}:{(s.vdataOf i).length}"))
      s!"{"; ".intercalate (s.pend.map showDOp)} || {if ds.isEmpty then "-" else ds}"
    | _, _ => "bad-op"
  | "power" :: cut :: mask :: dc :: rest =>
    match cut.toNat?, parseDataChoice dc, parseHist rest with
    | some k, some choice, some (t, os) =>
      let s := run ({} : St) ((histSteps t os).take k)
      let bits := mask.toList
      let sub := (s.pend.zip (bits ++ List.replicate s.pend.length '0')).filterMap
        (fun ob => if ob.2 == '1' then some ob.1 else none)
      let data := fun i => match choice.find? (·.1 == i) with
        | some (_, n) => (s.vdataOf i).take (max n (s.ddataOf i).length)
        | none => s.ddataOf i
      let ns := applyOps sub s.dur
      s!"{showTreeIno ns data} || {showRec (recover (resolve ns data))} || {showRec (recoverLegacy (resolve ns data))}"
    | _, _, _ => "bad-op"
  | "pendx" :: cut :: _ =>
    -- `pendx <cut> | <steps>`: the same on an explicit step list (a recorded trace)
    match cut.toNat?, parseSteps ((line.splitOn "|").getD 1 "") with
    | some k, some steps => pendLine (run ({} : St) (steps.take k))
    | _, _ => "bad-op"
  | "powerx" :: cut :: mask :: dc :: _ =>
    match cut.toNat?, parseDataChoice dc, parseSteps ((line.splitOn "|").getD 1 "") with
    | some k, some choice, some steps => powerLine (run ({} : St) (steps.take k)) mask choice
    | _, _, _ => "bad-op"
  | ["segsteps", a, k] =>
    match k.toNat? with
    | some k => "; ".intercalate ((C04Seg.history (a == "1") k).map segShowStep)
    | none => "bad-op"
  | ["segstates", a, k, cut] =>
    match k.toNat?, cut.toNat? with
    | some k, some c =>
      let ts := C04Seg.crashTrees (a == "1") k c
      " ## ".intercalate ((ts.zip (List.range ts.length)).map (fun ti =>
        s!"{if ti.2 == 0 then "K" else "P"} {segShowTree ti.1} => {segShowRec (C04Seg.openSegs ti.1)}"))
    | _, _ => "bad-op"
  | "segstatesx" :: cut :: _ =>
    -- every crash outcome after `cut` steps of an explicit step list (a recorded trace)
    match cut.toNat?, (((line.splitOn "|").getD 1 "").splitOn ";").mapM segParseStep with
    | some c, some steps =>
      let st := run ({} : C04Seg.St) (steps.take c)
      let ts := crashKill st :: C04Seg.powerTrees st
      " ## ".intercalate ((ts.zip (List.range ts.length)).map (fun ti =>
        s!"{if ti.2 == 0 then "K" else "P"} {segShowTree ti.1} => {segShowRec (C04Seg.openSegs ti.1)}"))
    | _, _ => "bad-op"
  | "segrec" :: es =>
    match es.mapM segParseEntry with
    | some t => segShowRec (C04Seg.openSegs t)
    | none => "bad-op"
  | "rec" :: es =>
    match es.mapM parseEntry with
    | some t => s!"{showRec (recover t)} || {showRec (recoverLegacy t)}"
    | none => "bad-op"
  | "reclegacy" :: es =>
    match es.mapM parseEntry with
    | some t => showRec (recoverLegacy t)
    | none => "bad-op"
  | _ => "bad-op"

def main : IO Unit := runDriver handle
