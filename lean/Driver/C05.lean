import Banyan.Model.C05
open Banyan Banyan.C05

/-! Model driver for C05: same line protocol as hooks/banyand/internal/verifdrv/c05. -/

def insertBy {α : Type} (lt : α → α → Bool) (a : α) : List α → List α
  | [] => [a]
  | b :: l => if lt a b then a :: b :: l else b :: insertBy lt a l

def sortBy {α : Type} (lt : α → α → Bool) (l : List α) : List α := l.foldr (insertBy lt) []

def kindStr (mem : Bool) : String := if mem then "m" else "f"

def rmStr (b : Bool) : String := if b then "1" else "0"

def showPart (st : State) (w : Nat) : String := s!"{(st.P w).pid}{kindStr (st.P w).mem}"

def showList (st : State) (s : Nat) : String :=
  "[" ++ ",".intercalate ((st.S s).parts.map (showPart st)) ++ "]"

/-- "ord x rows" per batch ordinal, 4 rows per occurrence -/
def showOrds (l : List Nat) : String :=
  let sorted := sortBy (fun a b => a < b) l
  let rec grp : List Nat → List (Nat × Nat)
    | [] => []
    | a :: r =>
      match grp r with
      | (b, n) :: rest => if a = b then (b, n + 1) :: rest else (a, 1) :: (b, n) :: rest
      | [] => [(a, 1)]
  let g := grp sorted
  if g.isEmpty then "-" else "+".intercalate (g.map fun e => s!"{e.1}x{4 * e.2}")

def showQuery (st : State) (s : Nat) : String :=
  let per := (st.S s).parts.map fun w => s!"{showPart st w}={showOrds (st.P w).src}"
  ",".intercalate per ++ "/" ++ showOrds (view st s)

def dump (st : State) : String :=
  let c := match st.cur with
    | none => "C=-"
    | some c => s!"C={(st.S c).epoch}:{(st.S c).ref}:{showList st c}"
  let ws := sortBy (fun a b => (st.P a).pid < (st.P b).pid || ((st.P a).pid == (st.P b).pid && (st.P a).mem && !(st.P b).mem))
    (List.range st.nP)
  let w := ",".intercalate (ws.map fun i => s!"{showPart st i}:{(st.P i).ref}:{rmStr (st.P i).removable}")
  let hs := sortBy (fun a b => a.1 < b.1) (st.holders.filter fun e => e.1 ≠ 0)
  let h := ";".intercalate (hs.map fun e => s!"{e.1 - 1}:{(st.S e.2).epoch}:{(st.S e.2).ref}:{showList st e.2}")
  let q := ";".intercalate (hs.map fun e => s!"{e.1 - 1}:{showQuery st e.2}")
  let dirs := sortBy (fun a b => a < b) (((List.range st.nP).filter (dirExists st)).map fun i => (st.P i).pid)
  let d := ",".intercalate (dirs.map toString)
  let t := match st.cur with
    | none => "-"
    | some c => showQuery st c
  s!"{c} W={w} H={h} D={d} Q={q} T={t}"

def parseIds (s : String) : Option (List Nat) :=
  ((s.splitOn ",").filter (· ≠ "")).mapM String.toNat?

/-- one op token → (prefix printed by the Go driver, new state) -/
def applyTok (st : State) (tok : String) : Option (String × State) :=
  let closedPfx := if st.tblClosed then "closed " else ""
  if tok == "b" then some (closedPfx, step st .batch)
  else if tok == "fa" then some (closedPfx, step st (.flush none))
  else if tok == "c" then some (closedPfx, step st .close)
  else if tok.startsWith "f:" then (parseIds (tok.drop 2).toString).map fun ids => (closedPfx, step st (.flush (some ids)))
  else if tok.startsWith "m:" then (parseIds (tok.drop 2).toString).map fun ids => (closedPfx, step st (.merge ids))
  else if tok.startsWith "s:" then (parseIds (tok.drop 2).toString).map fun ids => (closedPfx, step st (.syncRemove ids))
  else if tok.startsWith "a" then
    (tok.drop 1).toString.toNat?.map fun k =>
      let fails := (findHolder (k + 1) st.holders).isSome || st.cur.isNone
      (if fails then "nil " else "", step st (.acquire k))
  else if tok.startsWith "r" then
    (tok.drop 1).toString.toNat?.map fun k =>
      ((if (findHolder (k + 1) st.holders).isNone then "nil " else ""), step st (.release k))
  else none

def runMs (toks : List String) : String :=
  let rec go (st : State) (acc : List String) : List String → Option (List String)
    | [] => some acc.reverse
    | t :: ts =>
      match applyTok st t with
      | none => none
      | some (pfx, st') => go st' ((pfx ++ dump st') :: acc) ts
  match go init [] toks with
  | none => "bad-op"
  | some l => " | ".intercalate l

/-! ### tx -/

structure TxSt where
  w : Txn.World
  txns : List (Txn.Transaction × Bool)   -- (transaction, dead)

def txInit : TxSt :=
  { w := { ref := fun j => if j < 2 then 1 else 0, nSnap := 2,
           cur := fun m => if m = 0 then some 0 else if m = 1 then some 1 else none },
    txns := [] }

def txDump (s : TxSt) : String :=
  let c := ",".intercalate ((List.range 3).map fun m => match s.w.cur m with | none => "-" | some i => toString i)
  let r := ",".intercalate ((List.range s.w.nSnap).map fun i => toString (s.w.ref i))
  s!"cur={c} refs={r}"

def parseJM (s : String) : Option (Nat × Nat) :=
  match s.splitOn ":" with
  | [j] => j.toNat?.map fun a => (a, 0)
  | [j, m] => match j.toNat?, m.toNat? with
    | some a, some b => some (a, b)
    | _, _ => none
  | _ => none

def setTxn (l : List (Txn.Transaction × Bool)) (j : Nat) (v : Txn.Transaction × Bool) : List (Txn.Transaction × Bool) :=
  l.set j v

def txApply (s : TxSt) (tok : String) : Option (String × TxSt) :=
  let c := tok.front
  let rest := (tok.drop 1).toString
  if tok == "N" then some ("", { s with txns := s.txns ++ [({ ts := [], finalized := false }, false)] })
  else if c == 'T' || c == 'Z' then
    (parseJM rest).map fun (j, m) =>
      match s.txns[j]? with
      | some (x, false) =>
        if m ≥ 3 then ("skip ", s)
        else
          let r := Txn.addTransition s.w x m (c == 'Z')
          ("", { w := r.1, txns := setTxn s.txns j (r.2, false) })
      | _ => ("skip ", s)
  else if c == 'C' || c == 'R' || c == 'L' then
    (parseJM rest).map fun (j, _) =>
      match s.txns[j]? with
      | some (x, false) =>
        if c == 'C' then
          let r := Txn.commit s.w x
          let ord := if x.finalized then [] else (x.ts.filter fun t => !t.committed).map fun t => toString t.mgr
          let o := if ord.isEmpty then "-" else ",".intercalate ord
          (s!"ord={o} ", { w := r.1, txns := setTxn s.txns j (r.2, false) })
        else if c == 'R' then
          let r := Txn.rollback s.w x
          ("", { w := r.1, txns := setTxn s.txns j (r.2, false) })
        else
          let r := Txn.releaseAll s.w x.ts
          ("", { w := r.1, txns := setTxn s.txns j ({ x with ts := r.2 }, true) })
      | _ => ("skip ", s)
  else none

def runTx (toks : List String) : String :=
  let rec go (s : TxSt) (acc : List String) : List String → Option (List String)
    | [] => some acc.reverse
    | t :: ts =>
      match txApply s t with
      | none => none
      | some (pfx, s') => go s' ((pfx ++ txDump s') :: acc) ts
  match go txInit [] toks with
  | none => "bad-op"
  | some l => " | ".intercalate l

def handle (line : String) : String :=
  match words line with
  | "ms" :: toks => runMs toks
  | "tx" :: toks => runTx toks
  | "sx" :: _ => "abstain"   -- real sidx: oracle only (shape covered by `query_unaffected_by_prepare` etc.)
  | "ss" :: _ => "abstain"   -- real stream table: oracle only
  | "tq" :: _ => "abstain"   -- real trace table + query pipeline: oracle only
  | _ => "bad-op"

def main : IO Unit := runDriver handle
