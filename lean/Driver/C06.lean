import Banyan.Model.C07Wire
open Banyan

/- model driver for C06 (shares the `seg` line protocol with C07) -/
def main : IO Unit := runDriver SegWire.handle
