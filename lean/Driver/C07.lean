import Banyan.Model.C07Wire
open Banyan

/- model driver for C07 (shares the `seg` line protocol with C06) -/
def main : IO Unit := runDriver SegWire.handle
