import Banyan.Model.C08
open Banyan Banyan.C08

/-! Line-protocol driver of the C08 model (same lines as hooks/banyand/internal/verifdrv/c08). -/

def b01 (b : Bool) : String := if b then "1" else "0"

def splitOn1 (s : String) (sep : String) : List String := s.splitOn sep

def parseI64 (s : String) : Option I64 := s.toInt?.map (BitVec.ofInt 64)

def parseHexList (s : String) : Option (List Bytes) :=
  if s == "_" then some [] else (s.splitOn ",").mapM bytesOfHex

/-- value token: N | S<hex> | I<dec> | A<hex,..> | J<dec,..>; `M` (nil value) is `none`. -/
def parseVal (s : String) : Option (Option Val) :=
  match s.toList with
  | ['M'] => some none
  | ['N'] => some (some .null)
  | 'S' :: r => (bytesOfHex (String.ofList r)).map fun b => some (.str b)
  | 'I' :: r => (parseI64 (String.ofList r)).map fun v => some (.int v)
  | ['A'] => some (some (.strArr []))
  | 'A' :: r => ((String.ofList r).splitOn ",").mapM bytesOfHex |>.map fun a => some (.strArr a)
  | ['J'] => some (some (.intArr []))
  | 'J' :: r => ((String.ofList r).splitOn ",").mapM parseI64 |>.map fun a => some (.intArr a)
  | _ => none

def tagIndex (s : String) : Nat :=
  match s with
  | "s" => 0 | "t" => 1 | "i" => 2 | "k" => 3 | "a" => 4 | "j" => 5
  | _ => 99

def schema : List TagType := [.str, .str, .int, .int, .strArr, .intArr]

def tagVT (t : Nat) : VT :=
  match t with
  | 0 | 1 => .str
  | 2 | 3 => .int
  | 4 => .strArr
  | _ => .intArr

def parseOp (s : String) : Option Op :=
  match s with
  | "eq" => some .eq | "ne" => some .ne | "lt" => some .lt | "le" => some .le
  | "gt" => some .gt | "ge" => some .ge | "in" => some .in_ | "nin" => some .notIn
  | "hav" => some .having | "nhav" => some .notHaving | "match" => some .match_
  | _ => none

/-- prefix notation; fuel = number of tokens -/
def parseCrit : Nat → List String → Option (Criteria × List String)
  | 0, _ => none
  | fuel + 1, toks =>
    match toks with
    | "and" :: rest => do
      let (l, r1) ← parseCrit fuel rest
      let (r, r2) ← parseCrit fuel r1
      pure (.and l r, r2)
    | "or" :: rest => do
      let (l, r1) ← parseCrit fuel rest
      let (r, r2) ← parseCrit fuel r1
      pure (.or l r, r2)
    | op :: tag :: v :: rest => do
      let o ← parseOp op
      let lit ← parseVal v
      let l ← lit
      pure (.leaf o (tagIndex tag) l, rest)
    | _ => none

def criteriaOf (toks : List String) : Option Criteria :=
  match parseCrit (toks.length + 1) toks with
  | some (c, []) => some c
  | _ => none

def splitBar (toks : List String) : List String × List String :=
  (toks.takeWhile (· != "|"), (toks.dropWhile (· != "|")).drop 1)

/-- MATCH without an analyzer is `Contains`. -/
def mtDefault : Val → Val → Bool := valContains

def parseRowVals (toks : List String) : Option Row :=
  (toks.takeWhile (· != "X")).mapM parseVal

def errName : BuildErr → String
  | .tag => "ERR:tag" | .op => "ERR:op"

/-- scan-predicate verdicts of a list of rows: 1 / 0 / E, or "B" when the filter does not build. -/
def tfBits (c : Criteria) (rows : List Row) : String :=
  match buildCheck schema c with
  | some _ => "B"
  | none =>
    if rows.isEmpty then "-" else
    String.ofList (rows.map fun r => match eval mtDefault c r with
      | some true => '1' | some false => '0' | none => 'E')

/-! ### bloom -/

def wordHex (bits : List Bool) : String :=
  -- 64 bits, bit j = 2^j
  let n := (List.range 64).foldl (fun acc j => if bits[j]? == some true then acc + 2 ^ j else acc) 0
  hexOfBytes (beBytes 8 n)

def wordsHex : Nat → List Bool → List String
  | 0, _ => []
  | f + 1, bits => if bits.isEmpty then [] else wordHex (bits.take 64) :: wordsHex f (bits.drop 64)

def bitsStr (l : List Bool) : String := if l.isEmpty then "-" else String.ofList (l.map fun b => if b then '1' else '0')

def doBloom (n : Nat) (adds qs : List Bytes) : String :=
  let bf0 := Bloom.new n
  let (bf, isNew) := adds.foldl (fun (acc : Bloom × List Bool) a =>
      (acc.1.add xxh64 a, acc.2 ++ [acc.1.addIsNew xxh64 a])) (bf0, [])
  let r := qs.map (bf.mightContain xxh64)
  let nw := bf.bits.length / 64
  s!"{nw} {",".intercalate (wordsHex (nw + 1) bf.bits)} {bitsStr isNew} {bitsStr r} {bitsStr r} {b01 (bf.containsAll xxh64 qs)}"

/-! ### dictionary -/

def parseVT (s : String) : Option VT :=
  match s with
  | "str" => some .str | "int" => some .int | "strarr" => some .strArr | "intarr" => some .intArr
  | _ => none

def parseDictValue (vt : VT) (v : String) : Option Bytes :=
  match vt with
  | .strArr => (parseHexList v).map marshalStrArr
  | .intArr => if v == "_" then some [] else ((v.splitOn ",").mapM parseI64).map fun l => (l.map encI64).flatten
  | .int => (parseI64 v).map encI64
  | .str => bytesOfHex v

def parseDictValues (vt : VT) (s : String) : Option (List Bytes) :=
  if s == "~" then some [] else (s.splitOn ";").mapM (parseDictValue vt)

def parseItems (vt : VT) (s : String) : Option (List Bytes) :=
  if s == "_" || s == "" then some []
  else match vt with
    | .int | .intArr => ((s.splitOn ",").mapM parseI64).map fun l => l.map encI64
    | _ => (s.splitOn ",").mapM bytesOfHex

def doDict (vt : VT) (vals : List Bytes) (queries : List String) : Option String := do
  let d : Dict := ⟨vt, vals⟩
  let rs ← queries.mapM fun q =>
    match q.toList with
    | 'm' :: r => (parseItems vt (String.ofList r)).map fun it => d.mightContain (it.headD [])
    | 'c' :: r => (parseItems vt (String.ofList r)).map fun it => d.containsAll it
    | _ => none
  let after := if vals.isEmpty then "_" else ";".intercalate (vals.map hexOrDash)
  pure s!"{String.ofList (rs.map fun b => if b then '1' else '0')} {after}"

/-! ### summaries -/

def parseCfg (s : String) : List Cfg :=
  s.toList.map fun c => match c with
    | 'v' => Cfg.inverted | 'k' => Cfg.skipping | _ => Cfg.none

def optHex (s : String) : Option Bytes := if s == "-" then some [] else bytesOfHex s

def parseSummary (tok : String) : Option (Option (Nat × TagSummary)) :=
  match tok.splitOn "=" with
  | [name, body] =>
    let tag := tagIndex name
    let vt := tagVT tag
    match body.splitOn "/" with
    | "absent" :: _ => some none
    | [kind, mn, mx, payload] => do
      let mnb ← optHex mn
      let mxb ← optHex mx
      let f ← match kind with
        | "none" => some FilterS.none
        | "bloom" =>
          match payload.splitOn ":" with
          | [n, items] => do
            let its ← parseHexList items
            pure (FilterS.bloom ((Bloom.new n.toNat!).addAll xxh64 its))
          | _ => none
        | "dict" => (parseDictValues vt payload).map fun vs => FilterS.dict ⟨vt, vs⟩
        | _ => none
      pure (some (tag, ⟨f, mnb, mxb, vt⟩))
    | _ => none
  | _ => none

def showSkip (e : Engine) : Compiled SFilter → (SFilter → String) → String
  | .err x, _ => "C" ++ errName x
  | .panic, _ => if e == .stream then "CPANIC" else "PANIC"
  | .ok f, k => k f

def doSkip (e : Engine) (cfg : List Cfg) (sums : BlockSummary) (rows : List Row) (c : Criteria) : String :=
  let bits := tfBits c rows
  let comp := match e with
    | .stream => compileStream schema cfg c
    | .trace => compileTrace schema c
  let v := showSkip e comp fun f =>
    if e == .stream && f.isNever then "never"
    else match shouldSkip xxh64 e sums f with
      | some b => b01 b
      | none => "SERR:range-type"
  s!"{v} {bits}"

/-! ### rows `sid:ts:v:v:v:v:v:v[...]` -/

def parseDocRow (tok : String) : Option Row :=
  let t := (tok.splitOn "*").headD ""
  match t.splitOn ":" with
  | _ :: _ :: vals => (vals.take 6).mapM parseVal
  | _ => none

def rowCount (tok : String) : Nat :=
  match tok.splitOn "*" with
  | [_, n] => n.toNat!
  | _ => 1

def doInv (cfg : List Cfg) (rows : List Row) (c : Criteria) : String :=
  let bits := tfBits c rows
  let docs : List Doc := (List.range rows.length).zipWith (fun i r => (i + 1, r)) rows
  let v := match compileInv schema cfg c with
    | .err x => "C" ++ errName x
    | .panic => "CPANIC"
    | .ok f =>
      if f.isEnode then "all"
      else match exec cfg docs f with
        | .bypass => "all"
        | .ids l => if l.isEmpty then "-" else ",".intercalate (l.map toString)
  s!"{v} {bits}"

def handleInv (toks : List String) : String :=
  match toks with
  | cfg :: rest =>
    let (l, cr) := splitBar rest
    match l.mapM parseDocRow, criteriaOf cr with
    | some rows, some c =>
      let rows := (l.zip rows).flatMap fun (t, r) => List.replicate (rowCount t) r
      doInv (parseCfg cfg) rows c
    | _, _ => "bad-op"
  | _ => "bad-op"

def handle (line : String) : String :=
  let toks := words line
  match toks with
  | ["bloom", _, n, adds, qs] =>
    match parseHexList adds, parseHexList qs with
    | some a, some q => doBloom n.toNat! a q
    | _, _ => "bad-op"
  | ["dict", vt, vals, qs] =>
    match parseVT vt with
    | some t =>
      match parseDictValues t vals with
      | some vs => (doDict t vs (qs.splitOn ";")).getD "bad-op"
      | none => "bad-op"
    | none => "bad-op"
  | "tf" :: rest =>
    let (l, cr) := splitBar rest
    match parseRowVals l, criteriaOf cr with
    | some row, some c =>
      match buildCheck schema c with
      | some e => "B" ++ errName e
      | none => match eval mtDefault c row with
        | some b => b01 b
        | none => "MERR:tag"
    | _, _ => "bad-op"
  | "skip" :: eng :: cfg :: nsum :: rest =>
    let (l, cr) := splitBar rest
    let n := nsum.toNat!
    let e := if eng == "stream" then Engine.stream else Engine.trace
    match (l.take n).mapM parseSummary, (l.drop n).mapM (fun t => (t.splitOn ":").mapM parseVal), criteriaOf cr with
    | some sums, some rows, some c => doSkip e (parseCfg cfg) (sums.filterMap id) rows c
    | _, _, _ => "bad-op"
  | "invx" :: rest => handleInv rest
  | "inv" :: rest => handleInv rest
  | "bnd" :: tag :: rest =>
    let (l, cr) := splitBar rest
    match l.mapM (fun t => (t.splitOn ":").mapM parseVal), criteriaOf cr with
    | some rows, some c =>
      let bits := tfBits c rows
      match buildCheck schema c with
      | some e => s!"C{errName e} {bits}"
      | none =>
        let b := keyBounds (tagIndex tag) c
        s!"{b.1} {b.2} {bits}"
    | _, _ => "bad-op"
  | "mpart" :: _ => "-"
  | "e2e" :: _ => "-"
  | "sq" :: _ => "-"
  | "part" :: _ => "-"
  | "partx" :: _ => "-"
  | "sum" :: _ => "-"
  | _ => "bad-op"

def main : IO Unit := runDriver handle
