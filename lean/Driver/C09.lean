import Banyan.Model.C09
open Banyan Banyan.C09

/-! Line-protocol driver of the C09 model; formats mirror hooks/banyand/internal/verifdrv/c09/main.go. -/

def joinOr (dash : String) (sep : String) (l : List String) : String :=
  if l.isEmpty then dash else sep.intercalate l

-- ---------------------------------------------------------------- sort

def parseItem (s : String) : Option (List Byte × String) :=
  match s.splitOn ":" with
  | [k, id] => (bytesOfHex k).map fun b => (b, id)
  | _ => none

def parseIter (s : String) : Option (List (List Byte × String)) :=
  if s == "-" then some [] else (s.splitOn ",").mapM parseItem

def doSort (dir spec : String) : String :=
  match (spec.splitOn "|").mapM parseIter with
  | none => "bad-op"
  | some iters =>
    let out := kmerge (fun a b => bytesLt (dir == "desc") a.1 b.1) iters
    joinOr "-" "," (out.map fun (k, id) => hexOrDash k ++ ":" ++ id)

-- ---------------------------------------------------------------- sidx

def parseElem (s : String) : Option Elem :=
  match s.splitOn ":" with
  | [sid, key, data] =>
    match sid.toNat?, key.toInt? with
    | some a, some k => some { sid := a, key := k, data := data }
    | _, _ => none
  | _ => none

def parseIds (s : String) : Option (List Nat) := (s.splitOn "+").mapM (·.toNat?)

def parseOp (s : String) : Option Op :=
  match s.toList with
  | 'W' :: r =>
    match (String.ofList r).splitOn "=" with
    | [pid, es] =>
      match pid.toNat?, (es.splitOn ",").mapM parseElem with
      | some p, some l => some (.write p l)
      | _, _ => none
    | _ => none
  | 'F' :: r => (parseIds (String.ofList r)).map .flush
  | 'M' :: r =>
    match (String.ofList r).splitOn "=" with
    | [nid, ids] =>
      match nid.toNat?, parseIds ids with
      | some n, some l => some (.merge n l)
      | _, _ => none
    | _ => none
  | _ => none

def parseBound (s : String) : Option (Option Int) :=
  if s == "*" then some none else s.toInt?.map some

def parseReq (s : String) : Option Req :=
  match s.splitOn ";" with
  | [dir, mbs, lo, hi, sids] =>
    match mbs.toNat?, parseBound lo, parseBound hi, parseIds sids with
    | some m, some l, some h, some ss =>
      some { sids := ss, minKey := l, maxKey := h, asc := dir != "desc", maxBatch := m }
    | _, _, _, _ => none
  | _ => none

def showLayout (snap : List Part) : String :=
  " ".intercalate (snap.map fun p =>
    toString p.id ++ "[" ++ ";".intercalate (p.blocks.map fun b =>
      s!"{b.sid}:{b.lo}:{b.hi}:{b.elems.length}") ++ "]")

def showBatches (bs : List (List Elem)) : String :=
  joinOr "-" "/" (bs.map fun b => joinOr "_" "," (b.map fun e => s!"{e.key}:{e.data}:{e.sid}"))

def doSidx (fields : List String) : String :=
  let ops := fields.takeWhile (· ≠ "Q")
  let qs := (fields.dropWhile (· ≠ "Q")).drop 1
  match ops.mapM parseOp, qs.mapM parseReq with
  | some os, some rs =>
    let snap := applyOps os
    " | ".intercalate (("L " ++ showLayout snap) :: rs.map fun r =>
      "S " ++ showBatches (streamingQuery r snap) ++ " Y " ++ showBatches (querySync r snap))
  | _, _ => "bad-op"

-- ---------------------------------------------------------------- measure merge, stream merge, top queue

def parseDP (s : String) : Option DP :=
  match s.splitOn ":" with
  | [ts, sid, ver, val] =>
    match ts.toNat?, sid.toNat?, ver.toInt?, val.toInt? with
    | some a, some b, some c, some d => some { ts := a, sid := b, ver := c, val := d }
    | _, _, _, _ => none
  | _ => none

def parseNode (s : String) : Option (List DP) :=
  if s == "-" then some [] else (s.splitOn ",").mapM parseDP

def doMMerge (dir off lim spec : String) : String :=
  match off.toNat?, lim.toNat?, (spec.splitOn "|").mapM parseNode with
  | some o, some l, some nodes =>
    joinOr "-" "," ((mmerge (dir == "desc") o l nodes).map fun d => s!"{d.ts}:{d.sid}:{d.ver}:{d.val}")
  | _, _, _ => "bad-op"

def parseSE (s : String) : Option (Nat × String) :=
  match s.splitOn ":" with
  | [ts, id] => ts.toNat?.map fun t => (t, id)
  | _ => none

def parseGroup (s : String) : Option (List (Nat × String)) :=
  if s == "-" then some [] else (s.splitOn ",").mapM parseSE

def doSMerge (dir spec : String) : String :=
  match (spec.splitOn "|").mapM parseGroup with
  | some gs =>
    let desc := dir == "desc"
    let out := kmerge (fun (a b : Nat × String) => if desc then decide (a.1 > b.1) else decide (a.1 < b.1)) gs
    joinOr "-" "," (out.map fun (t, id) => s!"{t}:{id}")
  | none => "bad-op"

def doTopQ (n kind vals : String) : String :=
  match n.toNat?, (if vals == "-" then some [] else (vals.splitOn ",").mapM (·.toInt?)) with
  | some k, some xs =>
    let rev := kind == "bot"
    match topRun k rev xs ([], []) with
    | none => "PANIC"
    | some (acc, h) =>
      joinOr "-" "" (acc.map fun b => if b then "1" else "0") ++ " " ++
        joinOr "-" "," ((topElements rev h).map toString)
  | _, _ => "bad-op"

def parseMRow (s : String) : Option MRow :=
  match s.splitOn ":" with
  | [sid, ts, ver, val] =>
    match sid.toNat?, ts.toInt?, ver.toInt?, val.toInt? with
    | some a, some b, some c, some d => some { sid := a, ts := b, ver := c, val := d }
    | _, _, _, _ => none
  | _ => none

def showGroups (r : List (List MRow)) : String :=
  if r.isEmpty then "-" else "/".intercalate (r.map fun g =>
    s!"{(g.head?.map (·.sid)).getD 0}=" ++ ",".intercalate (g.map fun e => s!"{e.ts}:{e.ver}:{e.val}"))

def doMQR (ord dir lo hi sids spec : String) : String :=
  match lo.toInt?, hi.toInt?, (sids.splitOn "+").mapM (·.toNat?),
        (spec.splitOn "|").mapM (fun p => (p.splitOn ",").mapM parseMRow) with
  | some a, some b, some ss, some parts => showGroups (measureQuery parts ss a b (ord == "ts") (dir != "desc"))
  | _, _, _, _ => "bad-op"


def parseKT (s : String) : Option Elem :=
  match s.splitOn ":" with
  | [k, id] => k.toInt?.map fun key => { sid := 1, key := key, data := id }
  | _ => none

def parseInstance (s : String) : Option (List (List Elem)) :=
  if s == "-" then some [] else (s.splitOn ";").mapM fun p => (p.splitOn ",").mapM parseKT

def parseDir (s : String) : Option SortDir :=
  match s with
  | "asc" => some .asc | "desc" => some .desc | "unspec" => some .unspec | "nil" => some .none | _ => none

def doTSidx (dir mbs mt spec : String) : String :=
  match parseDir dir, mbs.toNat?, mt.toNat?, (spec.splitOn "|").mapM parseInstance with
  | some d, some m, some t, some insts =>
    joinOr "-" "/" ((traceStreamSIDX d m t insts).map fun b => joinOr "_" "," (b.map fun e => s!"{e.key}:{e.data}"))
  | _, _, _, _ => "bad-op"

def doSLimit (off lim spec : String) : String :=
  match off.toNat?, lim.toNat?, (spec.splitOn "|").mapM (fun p => if p == "-" then some [] else (p.splitOn ",").mapM (·.toInt?)) with
  | some o, some l, some pulls => joinOr "-" "," ((streamLimit o l pulls).map toString)
  | _, _, _ => "bad-op"


def parseRange (i : Nat) (s : String) : Option TRange :=
  match s.splitOn ":" with
  | [a, b] => match a.toInt?, b.toInt? with
    | some lo, some hi => some { id := i + 1, lo := lo, hi := hi }
    | _, _ => none
  | _ => none

def doDJP (dir spec : String) : String :=
  match ((spec.splitOn ",").zipIdx).mapM (fun (s, i) => parseRange i s) with
  | some rs => joinOr "-" "/" ((disjointGroups TRange.rg rs (dir != "desc")).map fun g => ",".intercalate (g.map fun r => toString r.id))
  | none => "bad-op"

def parseRow (s : String) : Option (Nat × Int) :=
  match s.splitOn ":" with
  | [a, b] => match a.toNat?, b.toInt? with
    | some sid, some ts => some (sid, ts)
    | _, _ => none
  | _ => none

def doSQuery (dir lo hi sids spec : String) : String :=
  match lo.toInt?, hi.toInt?, parseIds sids, (spec.splitOn "|").mapM (fun p => (p.splitOn ",").mapM parseRow) with
  | some a, some b, some ss, some parts =>
    let ps := (parts.zipIdx).map fun (rows, i) => ({ id := i + 1, rows := rows } : SPart)
    joinOr "-" "," ((streamTsQuery ps ss a b (dir != "desc")).map toString)
  | _, _, _, _ => "bad-op"

def parseKV (s : String) : Option (String × Int) :=
  match s.splitOn ":" with
  | [n, v] => v.toInt?.map fun x => (n, x)
  | _ => none

def doMIQ (dir kind spec : String) : String :=
  match (spec.splitOn "|").mapM (fun p => (p.splitOn ",").mapM parseKV) with
  | some segs =>
    joinOr "-" "," ((indexSortQuery (dir == "desc") segs).map fun (n, v) =>
      if kind == "fld" then s!"{n}:{v}:{v * 3 + 1}" else s!"{n}:{v}")
  | none => "bad-op"


def parseIElem (s : String) : Option IElem :=
  match s.splitOn ":" with
  | [a, b, c] => match a.toNat?, b.toInt?, c.toNat? with
    | some sid, some ts, some id => some { sid := sid, ts := ts, id := id }
    | _, _, _ => none
  | _ => none

def doSIdxQ (mx iter spec : String) : String :=
  match mx.toNat?, (iter.splitOn ",").mapM parseIElem, (spec.splitOn "|").mapM (fun p => (p.splitOn ",").mapM parseIElem) with
  | some m, some it, some parts =>
    joinOr "-" "/" ((idxQuery m parts it).map fun pg => ",".intercalate (pg.map toString))
  | _, _, _ => "bad-op"

def doDQ (kind order nodes rows limit offset seed : String) : String :=
  match nodes.toNat?, rows.toNat?, limit.toNat?, offset.toNat?, seed.toNat? with
  | some n, some r, some l, some o, some sd =>
    let dflt := if kind == "trace" then 20 else 100
    let own := (List.range n).map fun k => ((List.range r).filter fun i => ((i * 2654435761 + sd) % 7919) % n == k).map Int.ofNat
    let got := distributedWindow dflt l o (order == "desc") own
    s!"pushed={pushedLimit dflt l o}+0 got=" ++ joinOr "-" "," (got.map toString)
  | _, _, _, _, _ => "bad-op"

def handle (line : String) : String :=
  match words line with
  | ["sort", dir, spec] => doSort dir spec
  | "sidx" :: rest => doSidx rest
  | "sidxdup" :: rest => doSidx rest
  | "sidxf11" :: rest => doSidx rest
  | ["mmerge", dir, off, lim, spec] => doMMerge dir off lim spec
  | ["smerge", dir, spec] => doSMerge dir spec
  | ["topq", n, kind, vals] => doTopQ n kind vals
  | ["mqr", ord, dir, lo, hi, sids, spec] => doMQR ord dir lo hi sids spec
  | ["tsidx", dir, mbs, mt, spec] => doTSidx dir mbs mt spec
  | ["djp", _, dir, spec] => doDJP dir spec
  | ["sidxq", mx, iter, spec] => doSIdxQ mx iter spec
  | ["dq", kind, order, nodes, rows, limit, offset, seed] => doDQ kind order nodes rows limit offset seed
  | ["squery", dir, lo, hi, _, sids, spec] => doSQuery dir lo hi sids spec
  | ["miq", dir, kind, spec] => doMIQ dir kind spec
  | ["slimit", _, off, lim, spec] => doSLimit off lim spec
  | _ => "bad-op"

def main : IO Unit := runDriver handle
