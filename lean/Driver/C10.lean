import Banyan.Model.C10
open Banyan Banyan.C10

/-! Line-protocol driver of the C10 model; same lines and outputs as hooks/banyand/internal/verifdrv/c10. -/

def parseFn : String → Option Fn
  | "sum" => some .sum
  | "count" => some .count
  | "min" => some .min
  | "max" => some .max
  | "mean" => some .mean
  | _ => none

def parseI64 (s : String) : Option I64 := s.toInt?.map (BitVec.ofInt 64)

def parseInts (s : String) : Option (List I64) :=
  if s == "-" || s == "" then some [] else (s.splitOn ",").mapM parseI64

def showI (v : I64) : String := toString v.toInt

def dash (s : String) : String := if s.isEmpty then "-" else s

def b01 (b : Bool) : String := if b then "1" else "0"

def doFn (fnS form parts : String) : String :=
  match parseFn fnS, (parts.splitOn "|").mapM parseInts with
  | some fn, some ps =>
    let whole := (mapAll fn ps.flatten).val
    let partials := ps.map fun p => (mapAll fn p).partial
    let sent : List Partial := ps.filterMap fun p =>
      if p.isEmpty && form == "s" then none
      else if p.isEmpty && form == "z" then some (fieldValuesToPartial fn [])
      else some (fieldValuesToPartial fn (partialToFieldValues fn (mapAll fn p).partial))
    let red := (reduceAll fn sent).val
    s!"whole={showI whole} parts={";".intercalate (partials.map fun p => s!"{showI p.value}:{showI p.count}")} red={showI red}"
  | _, _ => "bad-op"

def doTop (nS dir vals : String) : String :=
  match nS.toNat?, parseInts vals with
  | some n, some vs =>
    let q : TopQ Unit := TopQ.new n (dir == "a")
    match q.insertAll (vs.map fun v => (v.toInt, ())) with
    | none => "PANIC"
    | some (q', acc) =>
      s!"acc={dash (String.join (acc.map b01))} out={dash (",".intercalate (q'.elements.map fun e => toString e.1))}"
  | _, _ => "bad-op"

def untag (s : String) : String := if s == "_" then "" else s
def entag (s : String) : String := if s.isEmpty then "_" else s

def parseMask (s : String) : Option (List Bool) :=
  -- an optional suffix `pXYZ` (tag projection order of the row-path request) does not change the semantics
  if s.length ≥ 3 then some ((s.toList.take 3).map (· == '1')) else none

def splitLimit (s : String) : String × Option Nat :=
  match s.splitOn "@" with
  | [t, l] => (t, l.toNat?)
  | _ => (s, none)

def parseTop (s : String) : Option (Option (Nat × Bool)) :=
  if s == "0" then some none
  else match s.splitOn ":" with
    | [n, d] => n.toNat?.map fun k => some (k, d == "a")
    | _ => none

def parseNodes (s : String) : Option (List (List Nat)) :=
  (s.splitOn "/").mapM fun n =>
    if n == "-" then some [] else (n.splitOn "+").mapM String.toNat?

def parseRow (s : String) : Option Row :=
  match s.splitOn "." with
  | [sh, a, b, c, v] =>
    match sh.toNat?, parseI64 v with
    | some shard, some val => some ⟨shard, [untag a, untag b, untag c], val⟩
    | _, _ => none
  | _ => none

def parseRows (s : String) : Option (List Row) :=
  if s == "-" then some [] else (s.splitOn ",").mapM parseRow

def keyOf (mask : List Bool) (tags : List String) : String :=
  match selectTags mask tags with
  | [] => "*"
  | ks => ".".intercalate (ks.map entag)

def showFinal (mask : List Bool) (rs : List Resp) : String :=
  dash (";".intercalate (rs.map fun r =>
    keyOf mask r.tags ++ "=" ++ (match r.fields with | [v] => showI v | _ => "?")))

def showPartials (mask : List Bool) (nodes : List (List Resp)) : String :=
  dash ("/".intercalate (nodes.map fun rs =>
    dash (";".intercalate (rs.map fun r =>
      s!"{r.shard}~{keyOf mask r.tags}~{":".intercalate (r.fields.map showI)}"))))

def doScenario (path : Path) (ws : List String) : String :=
  match ws with
  | fnS :: maskS :: topS :: nodesS :: rest =>
    let rowsS := rest.headD "-"
    let (topS, lim) := splitLimit topS
    let lim := if path == .row then lim else none      -- the vectorized operators driven here have no limit stage
    match parseFn fnS, parseMask maskS, parseTop topS, parseNodes nodesS, parseRows rowsS with
    | some fn, some mask, some top, some nodes, some rows =>
      let sc : Scenario := ⟨fn, mask, top, nodes, rows⟩
      match sc.local path .exact, sc.distributed path .exact with
      | some l, some d =>
        s!"L={showFinal mask (limitOf lim l)} D={showFinal mask (limitOf lim d)} R={showPartials mask (sc.answers path .exact)}"
      | _, _ => "PANIC"
    | _, _, _, _, _ => "bad-op"
  | _ => "bad-op"

def parseTnItem (s : String) : Option TnItem :=
  match s.splitOn "." with
  | [t, k, v, ver] =>
    match t.toNat?, v.toInt?, ver.toInt? with
    | some ts, some val, some vr => some ⟨ts, k, val, vr⟩
    | _, _, _ => none
  | _ => none

def parseTnResps (s : String) : Option (List TnItem) :=
  ((s.splitOn "/").mapM fun r =>
    if r == "-" then some [] else (r.splitOn ",").mapM parseTnItem).map List.flatten

def doTnp (nS dir aggS resps : String) : String :=
  match nS.toNat?, parseTnResps resps with
  | some n, some items =>
    let asc := dir == "a"
    let tls := tnRun n asc items
    if items.isEmpty then "E"
    else if aggS == "none" then
      "T=" ++ ";".intercalate ((tnVal asc tls).map fun (t, tl) =>
        s!"{t}:" ++ ",".intercalate (tl.map fun e => s!"{e.2.1}={e.1}"))
    else match parseFn aggS with
      | some fn => "A=" ++ dash (",".intercalate ((tnFlush fn n asc tls).map fun e => s!"{e.2}={e.1}"))
      | none => "bad-op"
  | _, _ => "bad-op"

def handle (line : String) : String :=
  match words line with
  | ["fn", f, parts] => doFn f "p" parts
  | ["fns", f, parts] => doFn f "s" parts
  | ["fnz", f, parts] => doFn f "z" parts
  | "ff" :: _ => "-"                      -- float accumulators are not modelled (oracle only)
  | ["top", n, dir, vals] => doTop n dir vals
  | ["tnp", n, dir, agg, _mode, resps] => doTnp n dir agg resps
  | "row" :: rest => doScenario .row rest
  | "vec" :: rest => doScenario .vec rest
  | _ => "bad-op"

def main : IO Unit := runDriver handle
