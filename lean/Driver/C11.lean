import Banyan.Model.C11
import Std.Data.HashMap
open Banyan Banyan.C11

/-! Line-protocol driver for the C11 model. Everything after a `;` field is parameter data:
    `Z<compressed>=<plain|!>` (zstd pair), `T<bits>=<d>:<e>|!` (floatToDecimal),
    `D<v>:<e>=<bits>` (decimal → float). -/

structure Toks where
  z : List (List Byte × Option (List Byte)) := []
  t : Std.HashMap Nat (Option (Int × Int)) := {}
  d : Std.HashMap (Int × Int) Nat := {}

def splitAt1 (s : String) (c : Char) : Option (String × String) :=
  match s.splitOn (String.singleton c) with
  | [a, b] => some (a, b)
  | _ => none

def hexNat (s : String) : Option Nat := (bytesOfHexChars s.toList).map ofBE

def parseTok (tk : Toks) (s : String) : Toks :=
  match s.toList with
  | 'Z' :: r =>
    match splitAt1 (String.ofList r) '=' with
    | some (c, p) =>
      match bytesOfHex c with
      | some cb => { tk with z := (cb, if p == "!" then none else bytesOfHex p) :: tk.z }
      | none => tk
    | none => tk
  | 'T' :: r =>
    match splitAt1 (String.ofList r) '=' with
    | some (b, v) =>
      match hexNat b with
      | some bits =>
        if v == "!" then { tk with t := tk.t.insert bits none }
        else
          match splitAt1 v ':' with
          | some (d, e) =>
            match d.toInt?, e.toInt? with
            | some d, some e => { tk with t := tk.t.insert bits (some (d, e)) }
            | _, _ => tk
          | none => tk
      | none => tk
    | none => tk
  | 'D' :: r =>
    match splitAt1 (String.ofList r) '=' with
    | some (k, b) =>
      match splitAt1 k ':', hexNat b with
      | some (v, e), some bits =>
        match v.toInt?, e.toInt? with
        | some v, some e => { tk with d := tk.d.insert (v, e) bits }
        | _, _ => tk
      | _, _ => tk
    | none => tk
  | _ => tk

/-- zstd parameter instantiated from the tokens; `dflt` is what an unknown compressed block
    decompresses to (used twice to detect that a token was needed but absent). -/
def mkZ (tk : Toks) (dflt : Option (List Byte)) : Zstd where
  comp := fun p =>
    match tk.z.find? (fun e => e.2 == some p) with
    | some e => e.1
    | none => [70000]
  decomp := fun c =>
    match tk.z.find? (fun e => e.1 == c) with
    | some e => e.2
    | none => dflt

def mkF (tk : Toks) : FloatDec where
  toDec := fun b =>
    match tk.t[b.toNat]? with
    | some (some (d, e)) => some (BitVec.ofInt 64 d, BitVec.ofInt 16 e)
    | _ => none
  fromDec := fun v e =>
    match tk.d[(v.toInt, e.toInt)]? with
    | some x => BitVec.ofNat 64 x
    | none => 0xdeadbeefdeadbeef#64

def parseItem (s : String) : Option Item :=
  if s == "n" then some none
  else if s == "-" then some (some [])
  else (bytesOfHexChars s.toList).map some

def showItem : Item → String
  | none => "n"
  | some b => hexOrDash b

def showList {α : Type} (f : α → String) (l : List α) : String :=
  if l.isEmpty then "[]" else " ".intercalate (l.map f)

def showItems (l : List Item) : String := showList showItem l
def showI64s (l : List I64) : String := showList (fun v => toString v.toInt) l
def showNats (l : List Nat) : String := showList toString l
def hex64 (v : BitVec 64) : String := hexOfBytes (beBytes 8 v.toNat)

def parseI64s (l : List String) : Option (List I64) := l.mapM fun s => s.toInt?.map (BitVec.ofInt 64)
def parseNats (l : List String) : Option (List Nat) := l.mapM String.toNat?
def parseItems (l : List String) : Option (List Item) := l.mapM parseItem

def parseVT (s : String) : Option VType :=
  if s == "I" then some .int64 else if s == "F" then some .float64 else if s == "S" then some .other else none

def resStr {α : Type} (r : Res α) (f : α → String) : String :=
  match r with
  | .ok a => "ok " ++ f a
  | .err => "ERR"
  | .panic => "PANIC"

/-- round-trip tail: `=` when equal, else the decoded list. -/
def rt {α : Type} [DecidableEq α] (r : Res (List α)) (orig : List α) (sh : List α → String) : String :=
  match r with
  | .ok xs => if xs = orig then "=" else "NE " ++ sh xs
  | .err => "ERR"
  | .panic => "PANIC"

def vaDecodeAll : Nat → List Byte → Nat → List String
  | 0, _, _ => []
  | fuel + 1, buf, idx =>
    if idx < buf.length then
      match unmarshalVarArray buf idx with
      | .ok (v, next) => hexOrDash v :: vaDecodeAll fuel buf next
      | _ => ["ERR"]
    else []

def firstRefused : Dict → List Item → Nat → Option Nat
  | _, [], _ => none
  | d, v :: vs, i =>
    match d.add v with
    | some d' => firstRefused d' vs (i + 1)
    | none => some i

def run (z : Zstd) (fd : FloatDec) (f : List String) : String :=
  match f with
  | "vi64" :: a =>
    match parseI64s a with
    | some vs =>
      let enc := varInt64ListToBytes vs
      hexOrDash enc ++ " " ++
        (match bytesToVarInt64List vs.length enc with
         | .ok (xs, tail) => if xs = vs ∧ tail = [] then "=" else s!"NE {showI64s xs} tail={tail.length}"
         | _ => "ERR")
    | none => "bad-op"
  | "vu64" :: a =>
    match parseNats a with
    | some us =>
      let enc := varUint64sToBytes us
      hexOrDash enc ++ " " ++
        (match bytesToVarUint64s us.length enc with
         | .ok (xs, tail) => if xs = us ∧ tail = [] then "=" else s!"NE {showNats xs} tail={tail.length}"
         | _ => "ERR")
    | none => "bad-op"
  | ["vu1", a] =>
    match a.toNat? with
    | some u =>
      let enc := varUint64ToBytes u
      let (v, tail) := bytesToVarUint64 enc
      s!"{hexOrDash enc} {v} {tail.length}"
    | none => "bad-op"
  | ["vi1", a] =>
    match a.toInt? with
    | some i =>
      let enc := varInt64ToBytes (BitVec.ofInt 64 i)
      match readVarI64 enc with
      | .ok (d, tail) => s!"{hexOrDash enc} {d.toInt} {tail.length}"
      | _ => hexOrDash enc ++ " ERR"
    | none => "bad-op"
  | ["fx64", a] =>
    match a.toInt? with
    | some i =>
      let enc := C12.encInt64ToBytes (BitVec.ofInt 64 i)
      s!"{hexOrDash enc} {(C12.encBytesToInt64 enc).toInt}"
    | none => "bad-op"
  | "i64l" :: a =>
    match parseI64s a with
    | some vs =>
      match int64ListToBytes vs with
      | .ok (enc, mt, first) =>
        s!"{hexOrDash enc} {mt} {first.toInt} " ++ rt (bytesToInt64List enc mt first vs.length) vs showI64s
      | .err => "ERR"
      | .panic => "PANIC"
    | none => "bad-op"
  | "u64b" :: a =>
    match parseNats a with
    | some us =>
      let enc := encodeUint64Block z us
      hexOrDash enc ++ " " ++
        (match decodeUint64Block z enc us.length with
         | .ok (xs, tail) => if xs = us ∧ tail = [] then "=" else s!"NE {showNats xs} tail={tail.length}"
         | _ => "ERR")
    | none => "bad-op"
  | ["cblk", a] =>
    match parseItem a with
    | some it =>
      let p := itemBytes it
      let enc := compressBlock z p
      hexOrDash enc ++ " " ++
        (match decompressBlock z enc with
         | .ok (d, tail) => if d = p ∧ tail = [] then "=" else s!"NE {hexOrDash d} tail={tail.length}"
         | _ => "ERR")
    | none => "bad-op"
  | ["bytes", a] =>
    match parseItem a with
    | some it =>
      let enc := encodeBytes (itemBytes it)
      match decodeBytes enc with
      | .ok (tail, v) => s!"{hexOrDash enc} {hexOrDash v} {tail.length}"
      | _ => hexOrDash enc ++ " ERR"
    | none => "bad-op"
  | "bb" :: a =>
    match parseItems a with
    | some its =>
      let enc := encodeBytesBlock z its
      hexOrDash enc ++ " " ++ rt (decodeBytesBlock z enc its.length) its showItems
    | none => "bad-op"
  | "tv" :: eng :: typ :: a =>
    let own := eng != "t"
    let tv : Option TagVal :=
      match typ, a with
      | "str", [h] => (bytesOfHex h).map .str
      | "bin", [h] => (bytesOfHex h).map .bin
      | "int", [i] => i.toInt?.map fun i => .int (BitVec.ofInt 64 i)
      | "sarr", hs => (hs.mapM bytesOfHex).map .strArr
      | "iarr", is => (parseI64s is).map .intArr
      | "ts", [s, n] => match s.toInt?, n.toInt? with
        | some s, some n => some (.ts s n)
        | _, _ => none
      | "null", [_] => some .null
      | _, _ => none
    let vt : Option TVType :=
      match (if typ == "null" then a.headD "" else typ) with
      | "str" => some .str | "bin" => some .bin | "int" => some .int | "sarr" => some .strArr
      | "iarr" => some .intArr | "ts" => some .ts | _ => none
    match tv, vt with
    | some tv, some vt =>
      let raw := engineMarshal tv
      showItem raw ++ " " ++
        (match engineDecode own vt raw with
         | .ok .null => "N"
         | .ok (.str s) => "S" ++ hexOrDash s
         | .ok (.bin s) => "B" ++ hexOrDash s
         | .ok (.int v) => "I" ++ toString v.toInt
         | .ok (.strArr l) => " ".intercalate ("SA" :: l.map hexOrDash)
         | .ok (.intArr l) => " ".intercalate ("IA" :: l.map fun v => toString v.toInt)
         | .ok (.ts s n) => s!"T{s}:{n}"
         | .err => "ERR"
         | .panic => "PANIC")
    | _, _ => "bad-op"
  | "col" :: t :: a =>
    match parseVT t, parseItems a with
    | some vt, some its =>
      match encodeColumn z fd its vt with
      | .ok enc =>
        (match decodeColumn z fd enc vt its.length with
         | .ok xs => hexOrDash enc ++ " " ++ (if xs = its then "=" else "NE " ++ showItems xs)
         | .err => "ERR"
         | .panic => "PANIC")
      | .err => "ERR"
      | .panic => "PANIC"
    | _, _ => "bad-op"
  | "bbt" :: t :: a =>
    match bytesOfHex t, parseItems a with
    | some tailIn, some its =>
      let enc := encodeBytesBlock z its
      hexOrDash enc ++ " " ++
        (match decodeBytesBlockWithTail z (enc ++ tailIn) its.length with
         | .ok (xs, tail) => if xs = its ∧ tail = tailIn then "=" else s!"NE {showItems xs} tail={hexOrDash tail}"
         | _ => "ERR")
    | _, _ => "bad-op"
  | "rle" :: a =>
    match parseNats a with
    | some us => showNats (encodeRLE us)
    | none => "bad-op"
  | "bp" :: a =>
    match parseNats a with
    | some us =>
      let enc := encodeBitPacking us
      hexOrDash enc ++ " " ++ rt (decodeBitPacking enc) us showNats
    | none => "bad-op"
  | "dict" :: a =>
    match parseItems a with
    | some its =>
      match Dict.addAll Dict.empty its with
      | none => s!"REFUSED {(firstRefused Dict.empty its 0).getD 0}"
      | some d =>
        let enc := d.encode z
        hexOrDash enc ++ " " ++ rt (Dict.decode z enc its.length) its showItems
    | none => "bad-op"
  | "va" :: a =>
    match parseItems a with
    | some its =>
      let enc := its.flatMap fun it => marshalVarArray (itemBytes it)
      hexOrDash enc ++ " " ++ " ".intercalate (vaDecodeAll (enc.length + 1) enc 0)
    | none => "bad-op"
  | "tag" :: t :: a =>
    match parseVT t, parseItems a with
    | some vt, some its =>
      match encodeTagValues z fd its vt with
      | .ok (enc, et) => s!"{et} {hexOrDash enc} " ++ rt (decodeTagValues z fd enc vt its.length) its showItems
      | .err => "ERR"
      | .panic => "PANIC"
    | _, _ => "bad-op"
  | "f64" :: a =>
    match a.mapM hexNat with
    | some bs =>
      let src := bs.map (BitVec.ofNat 64)
      match float64ListToDecimalIntList fd src with
      | .ok (ds, e) => s!"{e.toInt} {showI64s ds} " ++ rt (.ok (decimalIntListToFloat64List fd ds e)) src (showList hex64)
      | _ => "REFUSED"
    | none => "bad-op"
  | ["mp10", v, n] =>
    match v.toInt?, n.toInt? with
    | some v, some n =>
      match mulPow10Fast (BitVec.ofInt 64 v) (BitVec.ofInt 16 n) with
      | some r => toString r.toInt
      | none => "REFUSED"
    | _, _ => "bad-op"
  -- decoders on arbitrary bytes
  | ["dec-vi64", h, n] =>
    match bytesOfHex h, n.toNat? with
    | some bs, some n => resStr (bytesToVarInt64List n bs) fun (xs, tail) => s!"{showI64s xs} tail={tail.length}"
    | _, _ => "bad-op"
  | ["dec-vu64", h, n] =>
    match bytesOfHex h, n.toNat? with
    | some bs, some n => resStr (bytesToVarUint64s n bs) fun (xs, tail) => s!"{showNats xs} tail={tail.length}"
    | _, _ => "bad-op"
  | ["dec-vu1", h] =>
    match bytesOfHex h with
    | some bs => let (v, tail) := bytesToVarUint64 bs; s!"ok {v} tail={tail.length}"
    | none => "bad-op"
  | ["dec-bytes", h] =>
    match bytesOfHex h with
    | some bs => resStr (decodeBytes bs) fun (tail, v) => s!"{hexOrDash v} tail={tail.length}"
    | none => "bad-op"
  | ["dec-i64l", h, mt, first, n] =>
    match bytesOfHex h, mt.toNat?, first.toInt?, n.toNat? with
    | some bs, some mt, some first, some n => resStr (bytesToInt64List bs mt (BitVec.ofInt 64 first) n) showI64s
    | _, _, _, _ => "bad-op"
  | ["dec-u64b", h, n] =>
    match bytesOfHex h, n.toNat? with
    | some bs, some n => resStr (decodeUint64Block z bs n) fun (xs, tail) => s!"{showNats xs} tail={tail.length}"
    | _, _ => "bad-op"
  | ["dec-cblk", h] =>
    match bytesOfHex h with
    | some bs => resStr (decompressBlock z bs) fun (d, tail) => s!"{hexOrDash d} tail={tail.length}"
    | none => "bad-op"
  | ["dec-bb", h, n] =>
    match bytesOfHex h, n.toNat? with
    | some bs, some n => resStr (decodeBytesBlock z bs n) showItems
    | _, _ => "bad-op"
  | ["dec-bbt", h, n] =>
    match bytesOfHex h, n.toNat? with
    | some bs, some n => resStr (decodeBytesBlockWithTail z bs n) fun (xs, tail) => s!"{showItems xs} tail={tail.length}"
    | _, _ => "bad-op"
  | ["dec-bp", h] =>
    match bytesOfHex h with
    | some bs => resStr (decodeBitPacking bs) showNats
    | none => "bad-op"
  | ["dec-dict", h, n] =>
    match bytesOfHex h, n.toNat? with
    | some bs, some n => resStr (Dict.decode z bs n) showItems
    | _, _ => "bad-op"
  | ["dec-dictv", h] =>
    match bytesOfHex h with
    | some bs => resStr (decodeDictionaryValues z bs) showItems
    | none => "bad-op"
  | ["dec-va", h, i] =>
    match bytesOfHex h, i.toNat? with
    | some bs, some i => resStr (unmarshalVarArray bs i) fun (v, next) => s!"{hexOrDash v} next={next}"
    | _, _ => "bad-op"
  | ["dec-tag", t, h, n] =>
    match parseVT t, bytesOfHex h, n.toNat? with
    | some vt, some bs, some n => resStr (decodeTagValues z fd bs vt n) showItems
    | _, _, _ => "bad-op"
  | _ => "bad-op"

def handle (line : String) : String :=
  let ws := words line
  let (f, toks) := ws.span (· ≠ ";")
  let tk := (toks.drop 1).foldl parseTok {}
  let fd := mkF tk
  let r1 := run (mkZ tk none) fd f
  let usesZ := ["u64b", "cblk", "bb", "bbt", "col", "dict", "tag", "dec-u64b", "dec-cblk", "dec-bb", "dec-bbt", "dec-dict",
    "dec-dictv", "dec-tag"].contains (f.headD "")
  if usesZ then
    let r2 := run (mkZ tk (some [])) fd f
    if r1 == r2 then r1 else "NOTOKEN"
  else r1

def main : IO Unit := runDriver handle
