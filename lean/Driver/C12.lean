import Banyan.Model.C12
open Banyan Banyan.C12

def b2s (b : Bool) : String := if b then "1" else "0"

def hex64 (v : BitVec 64) : String := hexOfBytes (beBytes 8 v.toNat)

def parseTV (s : String) : Option TagValue :=
  match s.toList with
  | ['N'] => some .null
  | 'S' :: r => (bytesOfHex (String.ofList r)).map .str
  | 'B' :: r => (bytesOfHex (String.ofList r)).map .bin
  | 'I' :: r => (String.ofList r).toInt?.map fun i => .int (BitVec.ofInt 64 i)
  | _ => none

def showTV : TagValue → String
  | .null => "N"
  | .str s => "S" ++ hexOrDash s
  | .bin s => "B" ++ hexOrDash s
  | .int v => "I" ++ toString v.toInt

def showSeries (s : Series) : String :=
  " ".intercalate (hexOrDash s.subject :: s.values.map showTV)

def handle (line : String) : String :=
  match words line with
  | ["i64", a, b] =>
    match a.toInt?, b.toInt? with
    | some x, some y =>
      let ea := int64ToBytes (BitVec.ofInt 64 x)
      let eb := int64ToBytes (BitVec.ofInt 64 y)
      s!"{hexOfBytes ea} {hexOfBytes eb} {b2s (lexLt ea eb)} {(bytesToInt64 ea).toInt}"
    | _, _ => "bad-op"
  | ["i32", a, b] =>
    match a.toInt?, b.toInt? with
    | some x, some y =>
      let ea := int32ToBytes (BitVec.ofInt 32 x)
      let eb := int32ToBytes (BitVec.ofInt 32 y)
      s!"{hexOfBytes ea} {hexOfBytes eb} {b2s (lexLt ea eb)} {(uToInt32 (BitVec.ofNat 32 (ofBE ea))).toInt}"
    | _, _ => "bad-op"
  | ["sk", _, a, b] =>
    match a.toInt?, b.toInt? with
    | some x, some y =>
      let ea := int64ToBytes (BitVec.ofInt 64 x)
      let eb := int64ToBytes (BitVec.ofInt 64 y)
      s!"{hexOfBytes ea} {hexOfBytes eb} {b2s (lexLt ea eb)}"
    | _, _ => "bad-op"
  | ["skts", sa, na, sb, nb] =>
    match sa.toInt?, na.toInt?, sb.toInt?, nb.toInt? with
    | some x, some xn, some y, some yn =>
      let ea := timestampSortKey x xn
      let eb := timestampSortKey y yn
      s!"{hexOfBytes ea} {hexOfBytes eb} {b2s (lexLt ea eb)}"
    | _, _, _, _ => "bad-op"
  | ["i16", a] =>
    match a.toInt? with
    | some x =>
      let ea := int16ToBytes (BitVec.ofInt 16 x)
      s!"{hexOfBytes ea} {(bytesToInt16 ea).toInt}"
    | none => "bad-op"
  | ["f64", a, b] =>
    match bytesOfHex a, bytesOfHex b with
    | some x, some y =>
      let ba := BitVec.ofNat 64 (ofBE x)
      let bb := BitVec.ofNat 64 (ofBE y)
      let ea := floatToOrderedBytes ba
      let eb := floatToOrderedBytes bb
      s!"{hexOfBytes ea} {hexOfBytes eb} {b2s (lexLt ea eb)} {hex64 (orderedUToFloat (BitVec.ofNat 64 (ofBE ea)))}"
    | _, _ => "bad-op"
  | "ser" :: subj :: tvs =>
    match bytesOfHex subj, tvs.mapM parseTV with
    | some sb, some vs =>
      let s : Series := { subject := sb, values := vs }
      let m := s.marshal
      let u := match Series.unmarshal m with
        | some s' => showSeries s'
        | none => "ERR"
      s!"{hexOfBytes m} {u}"
    | _, _ => "bad-op"
  | _ => "bad-op"

def main : IO Unit := runDriver handle
