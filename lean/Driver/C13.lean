import Banyan.Model.C13
open Banyan Banyan.C13

/-! Line-protocol driver for the C13 model (same protocol as hooks/banyand/trace/zz_verif_c13*.go). -/

def b01 (b : Bool) : String := if b then "1" else "0"

def splitOn' (s : String) (sep : String) : List String :=
  if s == "-" || s == "" then [] else s.splitOn sep

def kv (tok : String) : String × String :=
  match tok.splitOn "=" with
  | [k] => (k, "")
  | k :: rest => (k, "=".intercalate rest)
  | [] => ("", "")

def int! (s : String) : Int := s.toInt?.getD 0
def nat! (s : String) : Nat := s.toNat?.getD 0

def sortStrings (l : List String) : List String := l.mergeSort fun a b => !(b < a)

/-! ### guard scripts -/

def filterOfTable (table : String) : String → Lookup := fun tid =>
  let idx := match tid.toList with
    | c :: _ => c.toNat - '0'.toNat
    | [] => 0
  let cs := table.toList
  let c := match cs[idx]? with
    | some c => c
    | none => cs.getLast?.getD 'U'
  match c with
  | 'A' => .ok .absent
  | 'M' => .ok .maybe
  | 'U' => .ok .unknown
  | 'E' => .err
  | 'e' => .err
  | _ => .ok .other

def parseGParts (spec : String) : List GPart :=
  (splitOn' spec ";").map fun ps =>
    match ps.splitOn "," with
    | [a, b, k, f] =>
      { min := int! a, max := int! b, known := k == "1", filter := if f == "n" then none else some (filterOfTable f) }
    | _ => { min := 0, max := 0, known := false, filter := none }

def parseBlocks (spec : String) : List GBlock :=
  (splitOn' spec "/").map fun bs =>
    match bs.splitOn "," with
    | [a, b, k] => { min := int! a, max := int! b, known := k == "1" }
    | _ => { min := 0, max := 0, known := false }

def actionOf (n : Nat) : SamplerAction :=
  match n with
  | 0 => .unknown | 1 => .keep | 2 => .drop | _ => .other

def cancelOf (s : String) : Option Nat := if s == "-" then none else s.toNat?

def charAt (s : String) (i : Nat) : Char := (s.toList[i]?).getD '0'

structure GuardSetup where
  cfg : GConfig := { grace := 0, maxProbes := 0, maxDrops := 0 }
  cat : GCatalog := { pinned := false, parts := [], baseEpoch := 0, covMin := 0, covMax := 0, gap := 0,
                      complete := false, covKnown := false, temporal := 0 }

def applySetup (g : GuardSetup) (tok : String) : Option GuardSetup :=
  let (k, v) := kv tok
  match k with
  | "G" => some { g with cfg := { g.cfg with grace := int! v } }
  | "P" => some { g with cfg := { g.cfg with maxProbes := int! v } }
  | "D" => some { g with cfg := { g.cfg with maxDrops := int! v } }
  | "cat" => some { g with cat := { g.cat with complete := charAt v 0 == '1', pinned := charAt v 1 == '1', covKnown := charAt v 2 == '1' } }
  | "cov" => match v.splitOn "," with
    | [a, b] => some { g with cat := { g.cat with covMin := int! a, covMax := int! b } }
    | _ => none
  | "ts" => some { g with cat := { g.cat with temporal := nat! v } }
  | "gap" => some { g with cat := { g.cat with gap := int! v } }
  | "be" => some { g with cat := { g.cat with baseEpoch := nat! v } }
  | "parts" => some { g with cat := { g.cat with parts := parseGParts v } }
  | _ => none

def guardSteps (g : GuardSetup) : List String → GState → List String → Option (List String)
  | [], _, out => some out
  | tok :: rest, st, out =>
    match tok.splitOn ":" with
    | ["R", tid, comp, blocks, act, cancel] =>
      let tr : GTrace := { id := if tid == "-" then "" else tid, blocks := parseBlocks blocks, complete := comp == "1" }
      let (d, st) := resolve g.cfg g.cat st tr (actionOf (nat! act)) (cancelOf cancel)
      let cd := match d.confirmed with
        | some c => s!"{c.id},{c.min},{c.max},{b01 c.known}"
        | none => "-"
      guardSteps g rest st (out ++ [s!"R {d.action.code} {d.reason.str} {d.candidates} {d.probes} {cd} {d.baseEpoch}"])
    | ["V", delta, epoch, flags, cancel] =>
      let req : RevalReq := { delta := parseGParts delta, epoch := nat! epoch, deltaComplete := charAt flags 0 == '1',
                              owner := charAt flags 1 == '1', selected := charAt flags 2 == '1', fence := charAt flags 3 == '1' }
      let (r, st) := revalidate g.cfg g.cat st req (cancelOf cancel)
      guardSteps g rest st (out ++ [s!"V {b01 r.publish} {r.reason.str} {r.rechecked} {r.probes} {r.epoch}"])
    | ["C"] =>
      let st := closeGuard st
      guardSteps g rest st (out ++ [s!"C {st.releases}"])
    | _ => none

partial def guardCase (toks : List String) (g : GuardSetup) : String :=
  match toks with
  | tok :: rest =>
    match applySetup g tok with
    | some g' => guardCase rest g'
    | none =>
      match guardSteps g toks { pinned := g.cat.pinned } [] with
      | some out => " | ".intercalate out
      | none => "bad-op"
  | [] => ""

/-! ### drop set / tracker -/

def dropSetCase (toks : List String) : String :=
  let rec go : List String → DropSet → String → String
    | [], s, acc => s!"{acc} len={s.ids.length}"
    | tok :: rest, s, acc =>
      match tok.splitOn ":" with
      | ["a", h] =>
        match bytesOfHex h with
        | some id =>
          match s.add id with
          | .ok s' => go rest s' (acc ++ "a")
          | .panic msg => "PANIC " ++ msg
        | none => "bad-op"
      | ["k", h] =>
        match bytesOfHex h with
        | some data =>
          let (k, s') := s.keepEncoded data
          go rest s' (acc ++ b01 k)
        | none => "bad-op"
      | _ => "bad-op"
  go toks {} ""

def trackerCase (toks : List String) : String :=
  match toks with
  | b :: ids =>
    let rec go : List String → Tracker → String → String
      | [], t, acc =>
        s!"{if acc.isEmpty then "-" else acc} len={t.exact.ids.length} max={t.maxIDs} full={b01 t.full}"
      | h :: rest, t, acc =>
        match bytesOfHex h with
        | some id =>
          let (ok, t) := t.canAccept
          if ok then
            match t.record id with
            | some t' => go rest t' (acc ++ "1")
            | none => "PANIC dropped trace IDs must be added in ascending order"
          else go rest t (acc ++ "0")
        | none => "bad-op"
    go ids { budget := nat! b } ""
  | [] => "bad-op"

/-! ### chain -/

def maskStr (m : List Bool) : String := if m.isEmpty then "-" else String.join (m.map b01)

def parseLink (s : String) : Option LinkOutcome :=
  match s.toList with
  | 'm' :: bits => some (.mask (bits.map (· == '1')))
  | 'l' :: k => some (.mask (List.replicate (nat! (String.ofList k)) false))
  | [c] => if c == 'e' then some .err else if c == 'p' then some .panic else if c == 't' then some .block else none
  | _ => none

def chainCase (toks : List String) : String :=
  match toks with
  | [n, mode, cb, rounds, specs] =>
    let n := nat! n
    let links := (splitOn' specs ";").map parseLink
    if mode == "eval" then
      let (m, log) := evaluateChain n links
      let byp := if log.isEmpty then "-" else ",".intercalate (log.map fun (i, r) => s!"{i}:{r}")
      s!"{maskStr m} {byp}"
    else
      let active := links.filterMap id
      let rec go : Nat → ChainState → List String → List String
        | 0, _, out => out
        | k + 1, st, out =>
          let (m, e, st) := executeChain n (nat! cb) active st
          go k st (out ++ [s!"{maskStr m}:{e}"])
      " ".intercalate (go (nat! rounds) {} [])
  | _ => "bad-op"

/-! ### table -/

def parseSpans (spec : String) : List Span :=
  (splitOn' spec ",").filterMap fun s =>
    match s.splitOn "." with
    | [tid, sid, ts] => some { tid := tid, sid := sid, ts := int! ts }
    | _ => none

def rowOf (s : Span) : String := s!"{s.tid}/{s.sid}/{s.tid}.{s.sid}.{s.ts}"

def dumpTable (t : Table) (univ : List String) : String :=
  let parts := sortPartsById t.parts
  let ps := parts.map fun p =>
    s!"P{p.id}{if p.mem then "m" else "f"}[{p.min},{p.max},{p.count},g{p.gen}](" ++
      ",".intercalate (sortStrings (p.spans.map rowOf)) ++ ") "
  let qs := (sortStrings univ).map fun tid =>
    tid ++ ":" ++ ",".intercalate (sortStrings ((queryById exactFilter t.parts minI64 maxI64 tid).map rowOf)) ++ " "
  let xs := sortStrings (t.sidx.flatMap fun (id, es) => es.map fun e => s!"{e.key}/{e.tid}/{e.series}/p{id}")
  "S{" ++ String.join ps ++ "} Q{" ++ String.join qs ++ "} X{" ++ ",".intercalate xs ++ "} B{}"

def parseSel (s : String) : Sel :=
  if s == "*" then .all else if s == "f*" then .files else if s == "m*" then .mems
  else .idx ((splitOn' s "+").map fun x => nat! (String.ofList (x.toList.drop 1)))

def parseTab (s : String) : SamplerTable :=
  let entries := (splitOn' s ".").map fun e => let (k, v) := kv e; (k, charAt v 0)
  fun tid => match entries.find? (·.1 == tid) with
    | some (_, c) => c
    | none => 'K'

def parseLate (s : String) : Option Late :=
  if s == "-" then none else
  match s.splitOn "!" with
  | [k, spans] => some { atDecide := k.startsWith "d", flush := k.endsWith "F", spans := parseSpans spans }
  | _ => none

def addUniverse (u : List String) (t : Table) : List String :=
  (t.parts.flatMap fun p => p.spans.map (·.tid)).foldl (fun acc x => if acc.contains x then acc else acc ++ [x]) u

def tableOps : List String → Table → List String → List String → Option (List String × Table × List String)
  | [], t, u, out => some (out, t, u)
  | op :: rest, t, u, out =>
    match op.splitOn ":" with
    | ["W", spans] =>
      let t := t.write (parseSpans spans)
      tableOps rest t (addUniverse u t) (out ++ [s!"W{t.curPartID}"])
    | ["F"] => tableOps rest t.flush u (out ++ ["F"])
    | ["I", fl] => tableOps rest { t with inclStart := charAt fl 0 == '1', inclEnd := charAt fl 1 == '1' } u (out ++ ["I"])
    | ["O"] => tableOps rest t u (out ++ [dumpTable t u])
    | "M" :: mode :: sel :: now :: bm :: dsb :: tab :: late :: fg =>
      let req : MergeReq := { mode := charAt mode 0, now := int! now, eachBatch := bm == "e", dropSetBudget := nat! dsb,
                              tab := parseTab tab, late := parseLate late,
                              finalizeGrace := match fg with | [g] => int! g | _ => 0 }
      let r := mergeOp exactFilter t (parseSel sel) req
      tableOps rest r.table (addUniverse u r.table) (out ++ [r.text])
    | _ => none

def tableCase (toks : List String) : String :=
  match toks with
  | s :: e :: g :: ops =>
    let t : Table := { segMin := int! s, segMax := int! e, grace := int! g }
    match tableOps ops t [] [] with
    | some (out, t, u) => " ".intercalate (out ++ [dumpTable t u])
    | none => "bad-op"
  | _ => "bad-op"

/-! ### part iterator -/

def searchCase (toks : List String) : String :=
  match toks with
  | [tid, ids] =>
    match searchPBM ((splitOn' ids ",").map nat!) (nat! tid) with
    | some k => toString k
    | none => "PANIC"
  | _ => "bad-op"

def parsePBlocks (s : String) : List (List PBlock) :=
  (splitOn' s "|").map fun pb => (splitOn' pb ",").map fun b =>
    match b.splitOn ":" with
    | [t, c] => (nat! t, nat! c)
    | _ => (0, 0)

def partCase (toks : List String) : String :=
  match toks with
  | [q, layout] =>
    let (out, panicked) := readPart (parsePBlocks layout) ((splitOn' q ",").map nat!)
    if panicked then "PANIC"
    else if out.isEmpty then "-" else ",".intercalate (out.map fun (t, c) => s!"{t}:{c}")
  | _ => "bad-op"

/-! ### segment coverage -/

def coverageCase (toks : List String) : String :=
  match toks with
  | [st, en, fl, g, tmin, tmax] =>
    let r : SegRange := { start := int! st, end_ := int! en, inclStart := charAt fl 0 == '1', inclEnd := charAt fl 1 == '1',
                          startZero := st == "z", endZero := en == "z" }
    let (mn, mx, known) := coverageOf r
    let grace := int! g
    let interior := coverageHasInterior mn mx grace
    let head := s!"cov={mn},{mx},{b01 known} int={b01 interior}"
    if known && interior then
      let cfg : GConfig := { grace := grace, maxProbes := 8, maxDrops := 8 }
      let cat : GCatalog := { pinned := true, parts := [], baseEpoch := 1, covMin := mn, covMax := mx, gap := grace,
                              complete := true, covKnown := true, temporal := 1 }
      let tr : GTrace := { id := "t", complete := true, blocks := [{ min := int! tmin, max := int! tmax, known := true }] }
      let (d, _) := resolve cfg cat { pinned := true } tr .drop none
      s!"{head} R {d.action.code} {d.reason.str}"
    else s!"{head} nosession"
  | _ => "bad-op"

/-! ### stager bounds -/

def stagerCase (toks : List String) : String :=
  match toks with
  | fr :: blocks =>
    let bs := blocks.filterMap fun b =>
      match b.splitOn ":" with
      | [t, mn, mx, k] => some ({ tid := nat! t, min := int! mn, max := int! mx, known := k == "1" } : SBlock)
      | _ => none
    let st := bs.foldl StagerState.stage {}
    let gs := st.groups.reverse.map fun g =>
      s!"{g.tid}[{g.minTS},{g.maxTS},{b01 g.valid},{b01 (g.eligible (int! fr))}]"
    s!"{" ".intercalate gs} ord={b01 st.invalidOrder} meta={b01 st.invalidMetadata}"
  | _ => "bad-op"

def handle (line : String) : String :=
  match words line with
  | "gr" :: rest => guardCase rest {}
  | "ds" :: rest => dropSetCase rest
  | "dt" :: rest => trackerCase rest
  | "ch" :: rest => chainCase rest
  | "tb" :: rest => tableCase rest
  | "sp" :: rest => searchCase rest
  | "pb" :: rest => partCase rest
  | "cv" :: rest => coverageCase rest
  | "sg" :: rest => stagerCase rest
  | _ => "bad-op"

def main : IO Unit := runDriver handle
