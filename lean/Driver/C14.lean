import Banyan.Model.Util
import Banyan.Model.C14
open Banyan Banyan.C14

/-!
Model driver for C14.  Every op of the case line is executed by *running the atomic-step programs
of `Banyan.C14.tstep` to completion* (`State.call`), one after the other – the op-granularity
sequential differential of DESIGN.md 6/C14 (ii).  Controller-level procedures (select, segments,
remove, …) are the control flow of segment.go over several single-segment states.

`drv_c14` models the callers AS WRITTEN at HEAD: pin-if-active followed by an unconditional DecRef
(known finding F14a, `stray = true`) and `segments(ctx,true)` with unwinding (fix F14b).
`drv_c14 --repaired` models the proposed repair of F14a (nobody DecRefs what he did not pin);
`drv_c14 --legacy` additionally models `segments(ctx,true)` before fix F14b (no unwinding).
-/

namespace C14Drv

def nClients : Nat := 10
def sys : Tid := 10
/-- the goroutine of a racing delete (`D` hook) -/
def sys2 : Tid := 11

structure World where
  segs : Array State
  listed : Array Bool
  fail : Array Nat
  held : Array (Array Nat)                      -- client → segment → count
  peeked : Array (Option (List (Nat × Bool)))   -- client → last stats peek (segment, pinned)
  closed : Bool := false
  expiredBelow : Nat := 0                       -- segments with index < this are past the TTL deadline
  hook : Option (Nat × Nat) := none             -- armed: client, segment
  hookRes : String := ""
  hookD : Option Nat := none                    -- armed: delete segment i while it is being reopened
  legacy : Bool := true                         -- F14a as written: unconditional DecRef after a conditional pin
  legacyTick : Bool := false                    -- F14b before its fix: segments(true) without unwinding
  broken : Bool := false                        -- a model call was not enabled (driver bug)

def b01 (b : Bool) : String := if b then "1" else "0"

def World.k (w : World) : Nat := w.segs.size

def World.seg (w : World) (i : Nat) : State := w.segs[i]!

def World.setSeg (w : World) (i : Nat) (s : State) : World := { w with segs := w.segs.set! i s }

def World.th (w : World) (i : Nat) (t : Tid) : Th := (w.seg i).ts[t]!

/-- call procedure `p` of segment `i` on thread `t`, to completion -/
def World.call (w : World) (i : Nat) (t : Tid) (p : Proc) : World :=
  let ok := (w.fail[i]!) == 0
  match (w.seg i).call t p ok with
  | some s => w.setSeg i s
  | none => { w with broken := true }

def resTok : Res → String
  | .ok => "ok" | .closedErr => "closed" | .initErr => "ierr" | .none => "none"

def World.dump (w : World) : String :=
  ",".intercalate <| (List.range w.k).map fun i =>
    let sh := (w.seg i).sh
    s!"{sh.rc}.{b01 sh.isOpen}.{b01 sh.mbd}.{b01 sh.dir}.{b01 (!w.closed && w.listed[i]!)}"

def World.listedIdx (w : World) : List Nat := (List.range w.k).filter fun i => w.listed[i]!

def World.addHeld (w : World) (c i : Nat) : World :=
  { w with held := w.held.set! c ((w.held[c]!).set! i ((w.held[c]!)[i]! + 1)) }

def World.subHeld (w : World) (c i : Nat) : World :=
  { w with held := w.held.set! c ((w.held[c]!).set! i ((w.held[c]!)[i]! - 1)) }

/-- `DecRef` as issued by a caller that believes it pinned: owned if the thread really owns a
reference, stray otherwise (only possible for legacy callers) -/
def World.decRefAny (w : World) (t : Tid) (i : Nat) : World :=
  if (w.th i t).holds > 0 then w.call i t .decRef else w.call i t .decRefStray

/-- run thread `t` of state `s` until it is idle again or blocked on the mutex -/
def runT (s : State) (t : Tid) (ok : Bool) : Nat → State
  | 0 => s
  | n + 1 =>
    match s.ts[t]? with
    | none => s
    | some th =>
      if th.pc == .idle then s
      else match s.step (.step t .incRef ok) with
        | none => s
        | some s' => runT s' t ok n

/-- `incRef` of thread `t` racing a delete of the same segment: the deleting thread (`delThread`)
runs `delete()` – store the flag, load refCount, block on the mutex – at the moment `t` is inside
`initialize` (pc `aqInit`, index closed, mutex held); then `t` finishes, then the deleter. -/
def incRefRaced (s : State) (t delThread : Tid) (ok : Bool) : State × Bool := Id.run do
  let some s1 := s.step (.step t .incRef ok) | return (s, false)
  let mut s := s1
  let mut fired := false
  for _ in [0:24] do
    let some th := s.ts[t]? | break
    if th.pc == .idle then break
    if !fired && th.pc == .aqInit && !s.sh.isOpen then
      fired := true
      match s.step (.step delThread .delete ok) with
      | some s' => s := runT s' delThread ok 24
      | none => pure ()
    match s.step (.step t .incRef ok) with
    | some s' => s := s'
    | none => break
  if fired then s := runT s delThread ok 24
  return (s, fired)

/-- `segment.incRef` by thread `t`; returns success -/
def World.incRef (w : World) (t : Tid) (i : Nat) : World × Bool :=
  if w.hookD == some i then
    let (s, fired) := incRefRaced (w.seg i) t sys2 ((w.fail[i]!) == 0)
    let w := w.setSeg i s
    let w := if fired then
        { w with hookD := none, hookRes := w.hookRes ++ "+D:done", listed := w.listed.set! i false }
      else w
    let okRes := (w.th i t).res == .ok
    -- as written, the racing `deleteExpiredSegments` ends with `s.DecRef()` on a segment it never pinned
    let w := if fired && w.legacy then w.decRefAny sys2 i else w
    (w, okRes)
  else
    let w := w.call i t .incRef
    (w, (w.th i t).res == .ok)

/-- run thread `t` of segment `i` through procedure `p`, firing the armed hook (another thread's
incRef on another segment) right after the step that closes open resources – the moment the real
`TSTable.Close` runs inside `closeResourcesLocked`. -/
def World.callHooked (w : World) (i : Nat) (t : Tid) (p : Proc) : World := Id.run do
  match w.hook with
  | none => return w.call i t p
  | some (hc, hi) =>
    let ok := (w.fail[i]!) == 0
    let some s1 := (w.seg i).step (.step t p ok) | return { w with broken := true }
    let mut w := w.setSeg i s1
    for _ in [0:24] do
      let s := w.seg i
      let some th := s.ts[t]? | break
      if th.pc == .idle then break
      let closing := (th.pc == .pdClose || th.pc == .ciClose || th.pc == .clClose) && s.sh.isOpen
      match s.step (.step t .incRef ok) with
      | none => break
      | some s' =>
        w := w.setSeg i s'
        if closing && w.hook.isSome then
          -- the intermediate state is published; now the other thread runs its incRef.  On the same
          -- segment only the lock-free fast path can complete (the closer holds the mutex).
          w := { w with hook := none }
          let okh := (w.fail[hi]!) == 0
          match (w.seg hi).step (.step hc .incRef okh) with
          | none => w := { w with hookRes := "+h:blocked" }
          | some sh1 =>
            let sh2 := runT sh1 hc okh 24
            w := w.setSeg hi sh2
            let thh := sh2.ts[hc]!
            if thh.pc == .idle then
              w := if thh.res == .ok then w.addHeld hc hi else w
              w := { w with hookRes := "+h:" ++ resTok thh.res }
            else
              w := { w with hookRes := "+h:blocked" }
    return w

def World.delete (w : World) (i : Nat) : World :=
  let w := w.callHooked i sys .delete
  { w with listed := w.listed.set! i false }

/-- `remove` / `deleteExpiredSegments` / `getExpiredSegmentsTimeRange`: `victims` are deleted.
legacy: `segments(false)` pins the active ones first and DecRefs every segment afterwards. -/
def World.sweep (w : World) (victims : List Nat) : World := Id.run do
  let lst := w.listedIdx
  let mut w := w
  if w.legacy then
    for i in lst do
      w := w.call i sys .peek
  for i in lst do
    if victims.contains i then
      w := w.delete i
    if w.legacy then
      w := w.decRefAny sys i
  return w

def digit (c : Char) : Nat := c.toNat - 48

def World.releaseAll (w : World) (c : Nat) : World := Id.run do
  let mut w := w
  match w.peeked[c]! with
  | some l =>
    for (i, pinned) in l do
      if w.legacy then w := w.decRefAny c i
      else if pinned then w := w.callHooked i c .decRef
    w := { w with peeked := w.peeked.set! c none }
  | none => pure ()
  for i in [0:w.k] do
    for _ in [0:(w.held[c]!)[i]!] do
      w := w.callHooked i c .decRef
      w := w.subHeld c i
  return w

def World.op (w : World) (o : String) : World × String :=
  match o.toList with
  | ['a', c, i] =>
    let (c, i) := (digit c, digit i)
    let (w, ok) := w.incRef c i
    ((if ok then w.addHeld c i else w), resTok (w.th i c).res)
  | ['r', c, i] =>
    let (c, i) := (digit c, digit i)
    if (w.held[c]!)[i]! == 0 then (w, "-")
    else ((w.callHooked i c .decRef).subHeld c i, "ok")
  | ['u', c, i] =>
    let (c, i) := (digit c, digit i)
    if (w.held[c]!)[i]! == 0 then (w, "-")
    else (w, b01 ((w.seg i).sh.isOpen && (w.seg i).sh.dir))
  | ['s', c, lo, hi] =>
    let (c, lo, hi) := (digit c, digit lo, digit hi)
    if w.closed then (w, "ok:") else
    let ids := (w.listedIdx.filter fun i => lo ≤ i && i ≤ hi).reverse
    let r := selectLoop (fun w i => w.incRef c i) (fun w i => w.callHooked i c .decRef)
      (fun w i => w.call i c (.touch 2)) w ids []
    match r with
    | (w, some tt) =>
      -- database.SelectSegments: the TTL filter DecRefs and drops the fully expired ones
      let (w, kept) := filterLoop (fun w i => w.callHooked i c .decRef) (fun i => i < w.expiredBelow) w tt []
      let w := kept.foldl (fun w i => w.addHeld c i) w
      (w, "ok:" ++ String.join ((kept.reverse).map toString))
    | (w, none) =>
      -- report the error of the failing incRef
      let bad := ids.find? fun i => (w.th i c).res == .closedErr || (w.th i c).res == .initErr
      (w, match bad with | some i => resTok (w.th i c).res | none => "ierr")
  | ['p', c, lo, hi] =>
    let (c, lo, hi) := (digit c, digit lo, digit hi)
    if (w.peeked[c]!).isSome then (w, "-") else
    if w.closed then ({ w with peeked := w.peeked.set! c (some []) }, "ok:") else
    let ids := (w.listedIdx.filter fun i => lo ≤ i && i ≤ hi).reverse
    let (w, l) := ids.foldl (fun (acc : World × List (Nat × Bool)) i =>
      let w := acc.1.call i c .peek
      (w, acc.2 ++ [(i, (w.th i c).flag)])) (w, [])
    -- TTL filter: as written every expired one is DecRef'ed, pinned or not
    let (w, l) := l.foldl (fun (acc : World × List (Nat × Bool)) (ip : Nat × Bool) =>
      if ip.1 < acc.1.expiredBelow then
        let w := if acc.1.legacy then acc.1.decRefAny c ip.1
          else if ip.2 then acc.1.callHooked ip.1 c .decRef else acc.1
        (w, acc.2)
      else (acc.1, acc.2 ++ [ip])) (w, [])
    let shown := String.join (l.reverse.map fun (i, p) => toString i ++ (if p then "+" else "-"))
    ({ w with peeked := w.peeked.set! c (some l) }, "ok:" ++ shown)
  | ['q', c] =>
    let c := digit c
    match w.peeked[c]! with
    | none => (w, "-")
    | some l =>
      let w := l.foldl (fun w (ip : Nat × Bool) =>
        if w.legacy then w.decRefAny c ip.1
        else if ip.2 then w.callHooked ip.1 c .decRef else w) w
      ({ w with peeked := w.peeked.set! c none }, "ok")
  | ['g', i] =>
    let i := digit i
    let s := w.seg i
    (w.setSeg i { s with sh := { s.sh with la := 0 } }, "ok")
  | ['G'] =>
    ((List.range w.k).foldl (fun w i =>
      let s := w.seg i
      w.setSeg i { s with sh := { s.sh with la := 0 } }) w, "ok")
  | ['i'] =>
    let (w, n) := w.listedIdx.foldl (fun (acc : World × Nat) i =>
      let w := acc.1.callHooked i sys (.closeIfIdle 1)
      (w, if (w.th i sys).flag then acc.2 + 1 else acc.2)) (w, 0)
    (w, toString n)
  | ['t', j] =>
    let j := digit j
    (w.sweep (w.listedIdx.filter (· < j)), "ok")
  | ['o'] =>
    if w.closed then (w, "0") else
    match w.listedIdx with
    | i :: _ :: _ => (w.delete i, "1")
    | _ => (w, "0")
  | ['x', i] =>
    let i := digit i
    let n := if w.listed[i]! then 1 else 0
    (w.sweep (if w.listed[i]! then [i] else []), toString n)
  | ['e'] => (w.sweep [], "ok")
  | ['n'] =>
    if w.closed then (w, "err") else
    if w.listedIdx.isEmpty then (w, "0") else
    let (w, any) := w.listedIdx.foldl (fun (acc : World × Bool) i =>
      let w := acc.1.callHooked i sys .snapshot
      (w, acc.2 || (w.th i sys).flag)) (w, false)
    (w, b01 any)
  | ['m'] =>
    if w.closed then (w, "0") else
    let (w, n) := w.listedIdx.foldl (fun (acc : World × Nat) i =>
      let w := acc.1.call i sys .read
      (w, if (w.th i sys).flag then acc.2 + 1 else acc.2)) (w, 0)
    (w, toString n)
  | ['k'] =>
    if w.closed then (w, "-") else
    let ids := w.listedIdx
    let inc := fun (w : World) i => w.incRef sys i
    let dec := fun (w : World) i => w.callHooked i sys .decRef
    let r := if w.legacyTick then segmentsLoop_legacy inc w ids [] else segmentsLoop inc dec w ids []
    match r with
    | (w, some tt) =>
      -- resetIndex on every segment that ended before the tick, then DecRef all
      let w := tt.foldl (fun w i => if i + 1 < w.k then w.call i sys .read else w) w
      let w := tt.foldl dec w
      (w, "ok:" ++ toString tt.length)
    | (w, none) =>
      let bad := ids.find? fun i => (w.th i sys).res == .closedErr || (w.th i sys).res == .initErr
      (w, match bad with | some i => resTok (w.th i sys).res | none => "ierr")
  | ['f', i, v] => ({ w with fail := w.fail.set! (digit i) (digit v) }, "ok")
  | ['c'] =>
    if w.closed then (w, "-") else
    let w := w.listedIdx.foldl (fun w i => w.callHooked i sys .close) w
    ({ w with closed := true, listed := w.listed.map fun _ => false }, "ok")
  | ['R'] => ((List.range nClients).foldl (fun w c => w.releaseAll c) w, "ok")
  | ['h', c, i] => ({ w with hook := some (digit c, digit i) }, "ok")
  | ['D', i] => ({ w with hookD := some (digit i) }, "ok")
  | ['T', j] => if w.closed then (w, "-") else ({ w with expiredBelow := digit j }, "ok")
  | _ => ({ w with broken := true }, "bad-op")

def freshSeg : State :=
  let s : State := { sh := Shared.init, ts := List.replicate (nClients + 2) Th.init }
  -- CreateSegmentIfNotExist: create (dormant), incRef, lastAccessed := now, caller DecRef
  let s := (s.call sys .incRef).getD s
  let s := (s.call sys (.touch 2)).getD s
  (s.call sys .decRef).getD s

def World.create (k : Nat) (legacy legacyTick : Bool) : World :=
  { segs := Array.replicate k freshSeg, listed := Array.replicate k true, fail := Array.replicate k 0,
    held := Array.replicate nClients (Array.replicate k 0), peeked := Array.replicate nClients none,
    legacy := legacy, legacyTick := legacyTick }

def validOp (k : Nat) (o : String) : Bool :=
  let dOk (c : Char) (m : Nat) := c.isDigit && digit c < m
  match o.toList with
  | ['a', c, i] | ['r', c, i] | ['u', c, i] | ['h', c, i] => dOk c 10 && dOk i k
  | ['s', c, lo, hi] | ['p', c, lo, hi] => dOk c 10 && dOk lo k && dOk hi k
  | ['q', c] => dOk c 10
  | ['g', i] | ['x', i] | ['D', i] => dOk i k
  | ['t', j] => dOk j (k + 1)
  | ['T', j] => dOk j k
  | ['f', i, v] => dOk i k && dOk v 3
  | ['G'] | ['i'] | ['o'] | ['e'] | ['n'] | ['m'] | ['k'] | ['c'] | ['R'] => true
  | _ => false

def handle (legacy legacyTick : Bool) (line : String) : String :=
  match words line with
  | "stress" :: _ => "-"
  | _ :: k :: ops =>
    match k.toNat? with
    | some k =>
      if k < 1 || k > 6 || !(ops.all (validOp k)) then "bad-op" else
      let w := World.create k legacy legacyTick
      let (w, out) := ops.foldl (fun (acc : World × List String) o =>
        let (w, r) := acc.1.op o
        -- the hook is armed for the op that follows `h` only
        let (w, r) := if o.startsWith "h" || o.startsWith "D" then (w, r)
          else ({ w with hook := none, hookD := none, hookRes := "" }, r ++ w.hookRes)
        (w, acc.2 ++ [r ++ "=" ++ w.dump])) (w, ["init=" ++ w.dump])
      if w.broken then "MODEL-STUCK " ++ " ".intercalate out else " ".intercalate out
    | none => "bad-op"
  | _ => "bad-op"

end C14Drv

def main (args : List String) : IO Unit :=
  runDriver (C14Drv.handle (!args.contains "--repaired") (args.contains "--legacy"))
