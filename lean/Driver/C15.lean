import Banyan.Model.C15
open Banyan Banyan.C15

/-! Line protocol of the C15 model driver (same lines as hooks/banyand/internal/verifdrv/c15):

    frame-enc <codec> <len> <sel> <col>...     encode then decode
    frame-dec <codec> x<hex>                   decode arbitrary bytes
    dispatch  E<0|1> S=.. F=.. R=.. EN=.. tp=.. fp=.. ob=.. gb=.. agg=.. top=..
    par / dist ...                             not modelled (two Go pipelines are compared with each other): "skip"
-/

def codecOf : String → Option Codec
  | "m" => some measureCodec
  | "s" => some streamCodec
  | _ => none

def errName : Err → String
  | .trunc => "trunc" | .magic => "magic" | .version => "version" | .type => "type"
  | .role => "role" | .proto => "proto" | .nilBatch => "nil"

def splitC (s : String) (c : Char) : List String := s.splitOn (String.singleton c)

def hexBytes (s : String) : Option (List Byte) := bytesOfHexChars s.toList

def parseCell (k : Kind) (isFloat : Bool) (s : String) : Option Cell :=
  match s.toList with
  | tag :: p =>
    let null := tag == 'n'
    let ps := String.ofList p
    match k with
    | .fixed =>
      if isFloat then (hexBytes ps).map fun bs => ⟨null, .fixed (ofBE bs)⟩
      else ps.toInt?.map fun i => ⟨null, .fixed (i % (W64 : Int)).toNat⟩
    | .var => (hexBytes ps).map fun bs => ⟨null, .var bs⟩
    | .ptr => if ps == "~" then some ⟨null, .ptr none⟩ else (hexBytes ps).map fun bs => ⟨null, .ptr (some bs)⟩
    | .array => none
  | [] => none

def parseCol (s : String) : Option (ColDef × Column) :=
  match splitC s ':' with
  | [r, dt, ct, nm, fm, cells] => do
    let role ← r.toNat? >>= Role.ofCode
    let dtyp ← dt.toNat? >>= ColType.ofCode
    let ctyp ← ct.toNat? >>= ColType.ofCode
    let name ← hexBytes nm
    let fam ← hexBytes fm
    let cs ← if cells == "-" then some [] else (splitC cells ',').mapM (parseCell ctyp.kind (ctyp == .float64))
    pure (⟨role, dtyp, name, fam⟩, ⟨ctyp, cs⟩)
  | _ => none

def parseSel (s : String) : Option (Option (List Nat)) :=
  if s == "-" then some none
  else if s == "e" then some (some [])
  else ((splitC s ',').mapM String.toNat?).map some

def showInt64 (u : Nat) : String :=
  if u < W64 / 2 then toString u else "-" ++ toString (W64 - u)

def showCell (t : ColType) (c : Cell) : String :=
  if c.null then "n" else
  match c.val with
  | .fixed u => if t == .float64 then "v" ++ hexOfBytes (beBytes 8 u) else "v" ++ showInt64 u
  | .var bs => "v" ++ hexOfBytes bs
  | .ptr (some bs) => "v" ++ hexOfBytes bs
  | .ptr none => "v~"

def showBatch (b : Batch) : String :=
  let cols := (b.defs.zip b.cols).map fun (d, c) =>
    let cells := if c.cells.isEmpty then "-" else ",".intercalate (c.cells.map (showCell c.typ))
    s!"{d.role.toCode}:{c.typ.toCode}:{hexOfBytes d.name}:{hexOfBytes d.family}:{cells}"
  " ".intercalate (s!"ok {b.len}" :: cols)

def showDec (r : Res Batch) : String :=
  match r with
  | .ok b => showBatch b
  | .err e => "ERR " ++ errName e
  | .panic => "PANIC"

def frameEnc (f : List String) : String :=
  match f with
  | _ :: cs :: ln :: sel :: cols =>
    match codecOf cs, ln.toNat?, parseSel sel, cols.mapM parseCol with
    | some cd, some n, some s, some dc =>
      let b : Batch := ⟨dc.map (·.1), dc.map (·.2), s, n⟩
      match encode cd b with
      | .ok bytes => hexOfBytes bytes ++ " " ++ showDec (decode cd (fun _ => true) bytes)
      | .err e => "ERR " ++ errName e
      | .panic => "PANIC"
    | _, _, _, _ => "bad-op"
  | _ => "bad-op"

def frameDec (f : List String) : String :=
  match f with
  | [_, cs, hx] =>
    match codecOf cs, hexBytes (String.ofList (hx.toList.drop 1)) with
    | some cd, some bytes => showDec (decode cd (fun _ => true) bytes)
    | _, _ => "bad-op"
  | _ => "bad-op"

/-! dispatch -/

def parseFams (s : String) : List (String × List String) :=
  if s == "" then [] else
  (splitC s ';').map fun f =>
    match splitC f ':' with
    | [n, tags] => (n, if tags == "" then [] else splitC tags ',')
    | [n] => (n, [])
    | _ => (f, [])

def stripType (s : String) : String := (splitC s '.').headD s

def kvOf (f : List String) (k : String) : String :=
  match f.find? (fun t => t.startsWith (k ++ "=")) with
  | some t => String.ofList (t.toList.drop (k.length + 1))
  | none => "-"

def aggFnOf : String → Option AggFn
  | "SUM" => some .sum | "COUNT" => some .count | "MIN" => some .min | "MAX" => some .max | "MEAN" => some .mean
  | "UNSPEC" => some .unspecified | _ => none

def showReject : Reject → String
  | .ctx => "ctx" | .tag n => "tag:" ++ n | .field n => "field:" ++ n | .order => "order" | .crit => "crit"
  | .gbNoFamily => "gb-nofamily" | .gbMultiFamily => "gb-multifamily" | .gbNoTags => "gb-notags"
  | .gbFamily => "gb-family" | .gbTag => "gb-tag" | .aggField => "agg-field" | .storage => "storage"
  | .aggFn => "agg-fn" | .topField => "top-field"

def dispatchLine (f : List String) : String :=
  let enabled := f.contains "E1"
  let fams := (parseFams (kvOf f "S")).map fun (n, tags) => (n, tags.map stripType)
  let fields := let v := kvOf f "F"; if v == "-" || v == "" then [] else (splitC v ',').map stripType
  let rules := let v := kvOf f "R"; if v == "-" || v == "" then [] else (splitC v ',').filterMap fun r =>
    match splitC r ':' with
    | [n, _, ns] => some (n, ns == "1")
    | _ => none
  let s : DSchema := ⟨fams, fields, rules⟩
  let tp := let v := kvOf f "tp"; if v == "-" then none else some (parseFams v)
  let fp := let v := kvOf f "fp"; if v == "-" then none else some (if v == "" then [] else splitC v ',')
  let ob := let v := kvOf f "ob"; if v == "-" || v == "" then none else if v == "@time" then some "" else some v
  let gb := let v := kvOf f "gb"; if v == "-" || v == "" then none else if v == "@empty" then some [] else some (parseFams v)
  let agg := let v := kvOf f "agg"; if v == "-" || v == "" then some none else
    match splitC v ':' with
    | [fn, fld] => (aggFnOf fn).map fun a => some (a, fld)
    | _ => none
  let top := let v := kvOf f "top"; if v == "-" || v == "" then none else
    match splitC v ':' with
    | [_, fld] => some fld
    | _ => none
  match agg with
  | none => "bad-op"
  | some agg =>
    match dispatch ⟨enabled, true, true, true⟩ s ⟨tp, fp, ob, gb, agg, top⟩ with
    | .fallthrough => "fallthrough"
    | .accept => "accept"
    | .reject r => "reject " ++ showReject r

def handle (line : String) : String :=
  let f := words line
  match f with
  | "frame-enc" :: _ => frameEnc f
  | "frame-dec" :: _ => frameDec f
  | "dispatch" :: _ => dispatchLine f
  | "par" :: _ => "skip"
  | "dist" :: _ => "skip"
  | "smerge" :: _ => "skip"
  | "spar" :: _ => "skip"
  | "tpar" :: _ => "skip"
  | "sresp" :: _ => "skip"
  | "fbt" :: _ => "skip"
  | "splan" :: _ => "skip"
  | _ => "bad-op"

def main : IO Unit := runDriver handle
