import Banyan.Model.C16
open Banyan Banyan.C16

def toBytes (s : String) : List Byte := s.toUTF8.toList.map (·.toNat)
def ofBytes (bs : List Byte) : String := String.ofList (bs.map Char.ofNat)

def hex16 (n : Nat) : String := hexOfBytes (beBytes 8 n)

/-- `g:n:r`, `~g:n:r`, `!g` -/
def parseGroup (tok : String) : Option GroupSpec :=
  let (catOk, tok) := if tok.startsWith "~" then (false, (tok.drop 1).toString) else (true, tok)
  if tok.startsWith "!" then some { name := toBytes (tok.drop 1).toString, valid := false, shardNum := 0, replicas := 0 }
  else match tok.splitOn ":" with
    | [g, n, r] => do
      let n ← n.toNat?
      let r ← r.toNat?
      pure { name := toBytes g, valid := catOk, shardNum := n, replicas := r }
    | _ => none

def parseEvent (withSel : Bool) (tok : String) : Option Event :=
  let rest := (tok.drop 1).toString
  match tok.toList.head? with
  | some '+' => some (.addNode (toBytes rest) true)
  | some '*' => some (.addNode (toBytes rest) (!withSel))
  | some '-' => some (.removeNode (toBytes rest))
  | some '^' => some (.delete (toBytes rest) true)
  | some '&' => some (.delete (toBytes rest) false)
  | some '%' => (parseGroup rest).map fun g => .addOrUpdate g.name false g.shardNum g.replicas
  | some '@' =>
    if tok == "@-" then some (.init []) else (rest.splitOn ",").mapM parseGroup |>.map .init
  | some _ => (parseGroup tok).map fun g => .addOrUpdate g.name g.valid g.shardNum g.replicas
  | none => none

/-- group names and shard counts mentioned by a token (mirrors the Go driver's query-set construction) -/
def tokenSpecs (tok : String) : List String :=
  match tok.toList.head? with
  | some '+' | some '-' | some '*' | some '|' => []
  | some '@' => if tok == "@-" then [] else ((tok.drop 1).toString.splitOn ",")
  | _ => [tok]

def specName (sp : String) : String :=
  let s := String.ofList (sp.toList.dropWhile fun c => c == '~' || c == '!' || c == '%' || c == '^' || c == '&')
  (s.splitOn ":").headD ""

def specShards (sp : String) : Nat :=
  match sp.splitOn ":" with
  | [_, n, _] => n.toNat?.getD 0
  | _ => 0

def showPick : PickResult → String
  | .node n => ofBytes n
  | .noNodes => "N"
  | .unknown => "U"

def pairLt (a b : List Byte × String) : Bool := lexLt a.1 b.1

def showSel (st : Sel) (groups : List Name) (maxShard : Nat) : String :=
  let picks := groups.flatMap fun g =>
    (List.range (maxShard + 1)).map fun s =>
      let la := match locateAll st g s 3 with
        | .ok ns => "+".intercalate (ns.map ofBytes)
        | .error e => showPick e
      s!"{ofBytes g}:{s}=" ++ ",".intercalate ((List.range 4).map fun r => showPick (pick st g s r)) ++ "/" ++ la
  let entries := (describe st).map fun (g, s, i, p) =>
    let k := s!"{ofBytes g}-{s}-{i}"
    (toBytes k, k ++ ">" ++ showPick p)
  let sorted := sortBy pairLt entries
  let str := if sorted.isEmpty then "-" else ";".intercalate (sorted.map (·.2))
  " ".intercalate (picks ++ ["S=" ++ str])

def splitSeqs : List String → List String → List (List String)
  | [], cur => [cur.reverse]
  | t :: ts, cur => if t == "|" then cur.reverse :: splitSeqs ts [] else splitSeqs ts (t :: cur)

def parseTV (s : String) : Option C12.TagValue :=
  match s.toList with
  | ['N'] => some .null
  | 'S' :: r => (bytesOfHex (String.ofList r)).map .str
  | 'B' :: r => (bytesOfHex (String.ofList r)).map .bin
  | 'I' :: r => (String.ofList r).toInt?.map fun i => .int (BitVec.ofInt 64 i)
  | _ => none

def parseFams (s : String) : Option (List FamSpec) :=
  (s.splitOn "/").mapM fun fam =>
    match fam.splitOn ":" with
    | [n, ts] => some { name := toBytes n, tags := if ts == "" then [] else (ts.splitOn ",").map toBytes }
    | _ => none

def parseWrite (s : String) : Option (List (List C12.TagValue)) :=
  (s.splitOn "/").mapM fun fam => if fam == "." then some [] else (fam.splitOn ",").mapM parseTV

def showTV : C12.TagValue → String
  | .null => "N"
  | .str s => "S" ++ hexOrDash s
  | .bin s => "B" ++ hexOrDash s
  | .int v => "I" ++ toString v.toInt

def showNav : Option (List C12.TagValue × Nat) → String
  | none => "ERR -"
  | some (evs, s) => s!"{s} " ++ (if evs.isEmpty then "-" else ",".intercalate (evs.map showTV))

def handleSpec : List String → String
  | [_, n, name, schema, entity, sk, spec, sw, rw] =>
    match n.toNat?, parseFams schema, parseWrite sw, parseWrite rw with
    | some n, some schema, some sw, some rw =>
      let entity := (entity.splitOn ",").map toBytes
      let sk := if sk == "-" then none else some ((sk.splitOn ",").map toBytes)
      let subj := toBytes name
      let spec? : Option (Option (List FamSpec)) :=
        if spec == "-" then some none else if spec == "." then some (some []) else (parseFams spec).map some
      match spec? with
      | none => "bad-op"
      | some spec =>
        let a := match spec with
          | none => schemaNavigate xxhash64 schema entity sk subj sw n
          | some sp => specNavigate xxhash64 schema sp entity sk subj sw n
        showNav a ++ " " ++ showNav (schemaNavigate xxhash64 schema entity sk subj rw n)
    | _, _, _, _ => "bad-op"
  | _ => "bad-op"

def showShard : Option Nat → String
  | some s => toString s
  | none => "ERR"

def handle (line : String) : String :=
  match words line with
  | "spec" :: rest => handleSpec rest
  | "shard" :: n :: key :: [] =>
    match n.toNat?, bytesOfHex key with
    | some n, some key =>
      let h := xxhash64 key
      s!"{hex16 h} {showShard (shardID h n)} {traceShardID h n}"
    | _, _ => "bad-op"
  | "loc" :: n :: k :: subj :: tvs =>
    match n.toNat?, bytesOfHex subj, tvs.mapM parseTV with
    | some n, some subj, some vals =>
      let k? := if k == "-" then some none else k.toNat?.map some
      match k? with
      | some k =>
        if (k.getD 0) > vals.length then "bad-op" else
        let r := showShard (applyLocators xxhash64 subj vals k n)
        s!"{hexOrDash (entityKey subj vals)} {r} {r} {r}"
      | none => "bad-op"
    | _, _, _ => "bad-op"
  | op :: toks =>
    if op == "sel" || op == "sels" then
      let withSel := op == "sels"
      let specs := toks.flatMap tokenSpecs
      let groups := sortBy lexLt (dedup (toBytes "zz" :: (specs.map fun sp => toBytes (specName sp))))
      let maxShard := (specs.map specShards).foldl max 0
      let outs := (splitSeqs toks []).map fun sq =>
        match sq.mapM (parseEvent withSel) with
        | some es => showSel (run (es.flatMap svcEvent)) groups maxShard
        | none => "bad-op"
      " | ".intercalate outs
    else "bad-op"
  | _ => "bad-op"

def main : IO Unit := runDriver handle
