import Banyan.Model.C17
open Banyan Banyan.C17

/-! Line protocol of the C17 model driver (same lines as hooks/banyand/internal/verifdrv/c17):

  rec.<kind>  reorder maxBuf maxGap chunkSize k eager layout script     fixed receiver (fixes/F17A.diff)
  recL.<kind> …                                                          receiver as written at the pinned commit
  chunks.<kind> chunkSize k eager layout                                 the sender's chunking
  snd.<kind>  …                                                          liaison queue model (see checks/C17.py)
-/

def genContent (seed : Nat) (size : Nat) : List Byte :=
  let x0 := (seed * 2654435761 + 12345) % 2147483648
  let rec go : Nat → Nat → List Byte → List Byte
    | 0, _, acc => acc.reverse
    | n + 1, x, acc =>
      let x' := (x * 1103515245 + 12345) % 2147483648
      go n x' (((x' >>> 16) % 256) :: acc)
  go size x0 []

def parseFile (s : String) : Option SFile :=
  match s.splitOn "=" with
  | [n, sz, sd] => do
    let size ← sz.toNat?
    let seed ← sd.toNat?
    pure ⟨n, genContent seed size⟩
  | _ => none

def parsePart (s : String) : Option SPart :=
  -- header and file list are separated by the first ':' (file names may contain ':')
  let cs := s.toList
  let hd := String.ofList (cs.takeWhile (· != ':'))
  let rest := String.ofList ((cs.dropWhile (· != ':')).drop 1)
  let files : Option (List SFile) := if rest.isEmpty then some [] else (rest.splitOn ",").mapM parseFile
  match hd.splitOn ".", files with
  | [ids, pt], some fs => ids.toNat?.map fun id => ⟨id, pt, fs⟩
  | _, _ => none

def parseLayout (s : String) : Option (List SPart) :=
  if s == "-" then some [] else (s.splitOn "/").mapM parsePart

def flipBit (bs : List Byte) (bit : Nat) : List Byte :=
  if bs.isEmpty then bs else
  let b := bit % (bs.length * 8)
  bs.set (b / 8) ((bs.getD (b / 8) 0) ^^^ (1 <<< (b % 8)))

def corruptChecksum (s : String) (pos : Nat) : String :=
  if s.isEmpty then "1" else
  let cs := s.toList
  let p := pos % cs.length
  String.ofList (cs.set p (Char.ofNat ((cs.getD p '0').toNat ^^^ 1)))

def parseTok (cs : List Chunk) (comp : Option Msg) (tok : String) : Option (List Msg) :=
  if tok == "C" then some (match comp with | some m => [m] | none => []) else
  let ds := tok.toList.takeWhile Char.isDigit
  let rest := tok.toList.dropWhile Char.isDigit
  match (String.ofList ds).toNat? with
  | none => none
  | some i =>
    match cs[i]? with
    | none => none
    | some c =>
      match rest with
      | [] => some [Msg.chunk c]
      | 'd' :: a => some [Msg.chunk { c with data := flipBit c.data ((String.ofList a).toNat?.getD 0) }]
      | 'c' :: a => some [Msg.chunk { c with checksum := corruptChecksum c.checksum ((String.ofList a).toNat?.getD 0) }]
      | ['v'] => some [Msg.chunk { c with versionOk := false }]
      | _ => none

def parseScript (cs : List Chunk) (comp : Option Msg) (s : String) : Option (List Msg) :=
  if s == "-" || s.isEmpty then some [] else
  ((s.splitOn ",").mapM (parseTok cs comp)).map List.flatten

def hex8 (n : Nat) : String :=
  let d := Nat.toDigits 16 n
  String.ofList (List.replicate (8 - d.length) '0' ++ d)

def showIPart (p : IPart) : String :=
  let fs := p.files.map fun (k, v) => s!"{k.1}/{k.2}:{v.length}:{hex8 (crc32 v)}"
  s!"{p.id}[{" ".intercalate fs}]"

def showInstalled (l : List IPart) : String :=
  if l.isEmpty then "-" else ";".intercalate (l.map showIPart)

def showAcks (l : List Nat) : String :=
  if l.isEmpty then "-" else String.join (l.map toString)

def b01 (b : Bool) : String := if b then "1" else "0"

def showRes : Option SyncResult → String
  | none => "-"
  | some r => s!"{b01 r.success}:{r.totalBytes}:{r.chunks}:{r.parts}"

def runRec (legacy : Bool) (f : List String) : String :=
  match f with
  | [ro, mb, mg, cs, k, eg, lay, script] =>
    match mb.toNat?, mg.toNat?, cs.toNat?, k.toNat?, parseLayout lay with
    | some maxBuf, some maxGap, some cap, some kk, some parts =>
      let r : Reader := ⟨kk, eg == "1"⟩
      let chunks := senderChunks cap r parts
      let comp := if chunks.isEmpty then none else some (Msg.completion chunks.length (totalBytes chunks))
      match parseScript chunks comp script with
      | none => "bad-op"
      | some ms =>
        let cfg : Cfg := { reorder := ro == "1", maxBuf := maxBuf, maxGap := maxGap, legacy := legacy }
        let o := recv cfg ms
        let lg := if o.log.isEmpty then "-" else ",".intercalate o.log
        s!"n={chunks.length} acks={showAcks o.acks} ret={if o.ok then "ok" else "err"} res={showRes o.result} log={lg} inst={showInstalled o.core.installed} leak=0 disc={o.core.discarded}"
    | _, _, _, _, _ => "bad-op"
  | _ => "bad-op"

def showChunk (c : Chunk) : String :=
  let ps := c.parts.map fun p =>
    let fs := p.files.map fun fi => s!"{fi.name}@{fi.offset}+{fi.size}"
    s!"{p.id}.{p.ptype}({",".intercalate fs})"
  s!"{c.index}:{c.checksum}:{c.data.length}:{b01 c.hasMeta}:{"|".intercalate ps}"

def runChunks (f : List String) : String :=
  match f with
  | [cs, k, eg, lay] =>
    match cs.toNat?, k.toNat?, parseLayout lay with
    | some cap, some kk, some parts =>
      let chunks := senderChunks cap ⟨kk, eg == "1"⟩ parts
      let comp := if chunks.isEmpty then "-" else s!"{totalBytes chunks}:{parts.length}:{chunks.length}"
      let body := if chunks.isEmpty then "-" else " ".intercalate (chunks.map showChunk)
      s!"n={chunks.length} comp={comp} {body}"
    | _, _, _ => "bad-op"
  | _ => "bad-op"

/-- snd.<kind> nodes scripts quota seed series points shape   (same line as the Go driver; shape = mem parts per
    time segment in one flush window: every segment group ends up as one part of the batch)
      scripts = per node the outcome of its k-th call (S ok, E error, F every part reported failed; the last
                letter repeats), nodes joined by ','
      quota   = 1: the copy into failed-parts/ fails
    The parts of the batch are numbered 1..nparts. -/
def outcomeAt (script : String) (k : Nat) : Char :=
  let cs := script.toList
  if cs.isEmpty then 'S' else cs.getD (min k (cs.length - 1)) 'S'

def runSnd (f : List String) : String :=
  match f with
  | [nodesS, scriptsS, quotaS, _, _, _, npartsS] =>
    let nn := nodesS.toNat?.getD 0
    let nparts := (npartsS.splitOn "+").length
    let batch := (List.range nparts).map (· + 1)
    let nodes := (List.range nn).map fun i => s!"n{i}"
    let scripts := scriptsS.splitOn ","
    let scriptOf (n : String) : String :=
      match nodes.idxOf? n with
      | none => "S"
      | some i => let t := scripts.getD i "S"; if t == "-" || t.isEmpty then "S" else t
    let initial (n : String) : SyncAttempt :=
      match outcomeAt (scriptOf n) 0 with
      | 'E' => .err
      | 'F' => .done batch
      | _ => .done []
    let retryFails (n : String) (_id attempt : Nat) : Bool := outcomeAt (scriptOf n) attempt != 'S'
    let env : SyncEnv := ⟨nodes, initial, retryFails, fun _ => quotaS != "1"⟩
    let l : Liaison := ⟨batch, []⟩
    let delivered := !nodes.isEmpty && batch.all fun id => partFate env batch id == .delivered
    match syncSnapshot env l batch with
    | none => s!"left={batch.length} failed=0 delivered={b01 false} ret=err"
    | some l' => s!"left={l'.snapshot.length} failed={l'.failedDir.length} delivered={b01 delivered} ret=ok"
  | _ => "bad-op"

def handle (line : String) : String :=
  match words line with
  | [] => "bad-op"
  | op :: rest =>
    match (op.splitOn ".").head! with
    | "rec" => runRec false rest
    | "recL" => runRec true rest
    | "chunks" => runChunks rest
    | "snd" => runSnd rest
    | "syn" => runSnd (rest ++ ["1"])
    | _ => "skip"

def main : IO Unit := runDriver handle
