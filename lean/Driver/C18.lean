import Banyan.Model.C18
open Banyan Banyan.C18

/-! Line protocol: see hooks/banyand/internal/verifdrv/c18/main.go -/

def b01 (b : Bool) : String := if b then "1" else "0"

def insertBy {α : Type} (lt : α → α → Bool) (x : α) : List α → List α
  | [] => [x]
  | y :: ys => if lt x y then x :: y :: ys else y :: insertBy lt x ys

def sortBy {α : Type} (lt : α → α → Bool) (l : List α) : List α := l.foldl (fun acc x => insertBy lt x acc) []

def dedupStr (l : List String) : List String := l.foldl (fun acc x => if acc.contains x then acc else acc ++ [x]) []

def showTags (t : Tags) : String :=
  if t.isEmpty then "-" else ",".intercalate (t.map fun (k, v) => k ++ ":" ++ v)

def parseTags (s : String) : Tags :=
  if s == "-" then [] else
  (s.splitOn ",").filterMap fun kv =>
    match kv.splitOn ":" with
    | k :: rest => some (k, ":".intercalate rest)
    | _ => none

def dl (d : Nat) : String := if d > 0 then "D" else "L"

def showDoc (d : Doc) : String := s!"{d.rev}/{dl d.del}/{d.created}/{showTags d.tags}"

def showState (c : Cluster) (keys : List String) : String :=
  let ks := sortBy (fun a b => a < b) keys
  let rec go (reps : List Shard) (i : Nat) : List String :=
    match reps with
    | [] => []
    | s :: rest =>
      let parts := ks.map fun k =>
        let docs := sortBy (fun a b => a.rev < b.rev) (docsOf s k)
        k ++ "=" ++ (if docs.isEmpty then "-" else "+".intercalate (docs.map showDoc))
      (s!"S{i}:" ++ ";".intercalate parts) :: go rest (i + 1)
  " ".intercalate (go c.reps 0)

def parseDown (s : String) : Nat → Bool :=
  if s == "-" then fun _ => true
  else
    let ds := s.toList.map fun ch => ch.toNat - 48
    fun i => !ds.contains i

def showProps (ps : List Doc) (keep : Bool) : String :=
  let parts := ps.map fun d => s!"{d.key}={d.rev}/{d.created}/{showTags d.tags}"
  let parts := if keep then parts else sortBy (fun a b => a < b) parts
  if parts.isEmpty then "-" else ";".intercalate parts

def stateEq (a b : Shard) (keys : List String) : Bool := keys.all fun k => topLast a k == topLast b k

def leafCount (s : Shard) (keys : List String) : Nat := (keys.filter fun k => (top s k).isSome).length

/-- property name of a key "group/name/id" (a key without '/' is g0/p0/<key>). -/
def keyName (k : String) : String :=
  match k.splitOn "/" with
  | [_, n, _] => n
  | _ => "p0"

structure St where
  c : Cluster
  keys : List String

def addKey (st : St) (k : String) : St := { st with keys := if st.keys.contains k then st.keys else st.keys ++ [k] }

def runOp (st : St) (f : List String) : St × String :=
  match f with
  | [kind, k, strat, tags, ts, down] =>
    if kind == "A" || kind == "T" then
      let st := addKey st k
      match ts.toNat? with
      | some now =>
        let (c', r) := applyOp st.c (parseDown down) k (if strat == "R" then .replace else .merge) (parseTags tags) now
        ({ st with c := c' }, match r with
          | .err => kind ++ ":ERR"
          | .ok cr n => s!"{kind}:c{b01 cr},n{n}")
      | none => (st, "bad-op")
    else (st, "bad-op")
  | ["D", k, down] =>
    let st := addKey st k
    let (c', r) := deleteOp st.c (parseDown down) k
    ({ st with c := c' }, match r with
      | .err => "D:ERR"
      | .ok d => "D:" ++ b01 d)
  | ["Q", down, rr] =>
    -- one QueryRequest per property name (a request carries one name)
    if st.keys.isEmpty then (st, "Q:-,rq0") else
    let names := sortBy (fun a b => a < b) (dedupStr (st.keys.map keyName))
    let (c', props, tasks) := names.foldl (fun (acc : Cluster × List Doc × Nat) n =>
      let (c1, r) := queryOp acc.1 (parseDown down) (st.keys.filter fun k => keyName k == n) (rr == "1")
      (c1, acc.2.1 ++ r.props, acc.2.2 + r.tasks)) (st.c, [], 0)
    ({ st with c := c' }, s!"Q:{showProps props false},rq{tasks}")
  | ["O", name, tag, dir, down] =>
    let ks := st.keys.filter fun k => keyName k == name
    if ks.isEmpty then (st, "O:-,rq0") else
    let (c', r) := queryOrderedOp st.c (parseDown down) ks tag (dir == "d")
    ({ st with c := c' }, s!"O:{showProps r.props true},rq{r.tasks}")
  | ["R", src, dst, k] =>
    let st := addKey st k
    match src.toNat?, dst.toNat? with
    | some s, some d =>
      let (c', r) := repairFrom st.c s d k
      ({ st with c := c' }, match r with
        | none => "R:-"
        | some (u, none) => "R:u" ++ b01 u
        | some (u, some n) => s!"R:u{b01 u},n{n.rev}{dl n.del}")
    | _, _ => (st, "bad-op")
  | ["G", cl, sv, k] =>
    let st := addKey st k
    match cl.toNat?, sv.toNat? with
    | some a, some b =>
      let (c', tr) := gossipOp st.c a b k
      ({ st with c := c' }, "G:" ++ tr)
    | _, _ => (st, "bad-op")
  | ["E"] => (st, "E:")
  | ["F"] => (st, "F:")
  | ["M", a, b] =>
    match a.toNat?, b.toNat? with
    | some i, some j =>
      match st.c.reps[i]?, st.c.reps[j]? with
      | some x, some y =>
        let e := stateEq x y st.keys
        (st, s!"M:root{b01 e},state{b01 e},leaves{leafCount x st.keys}/{leafCount y st.keys}")
      | _, _ => (st, "bad-op")
    | _, _ => (st, "bad-op")
  | _ => (st, "bad-op")

def splitOps (toks : List String) : List (List String) :=
  let rec go (toks : List String) (cur : List String) (acc : List (List String)) : List (List String) :=
    match toks with
    | [] => if cur.isEmpty then acc else acc ++ [cur]
    | t :: rest => if t == "|" then go rest [] (if cur.isEmpty then acc else acc ++ [cur]) else go rest (cur ++ [t]) acc
  go toks [] []

def history (n : Nat) (toks : List String) : String :=
  let st0 : St := { c := { reps := List.replicate n [], clk := 1 }, keys := [] }
  let (_, outs) := (splitOps toks).foldl (fun (acc : St × List String) op =>
    let (st', r) := runOp acc.1 op
    (st', acc.2 ++ [r ++ " ~ " ++ showState st'.c st'.keys])) (st0, [])
  if outs.isEmpty then "-" else " | ".intercalate outs

/-! DD lines -/

def parseItems (tok : String) : Option (List (Nat × Doc × Option String)) :=
  match tok.splitOn ":" with
  | [node, items] =>
    match (node.drop 1).toNat? with
    | none => none
    | some n =>
      if items == "" then some [] else
      (items.splitOn ";").mapM fun it =>
        match it.splitOn "," with
        | [k, rev, del, sv] =>
          match rev.toNat?, del.toNat? with
          | some r, some d => some (n, { key := k, rev := r, created := 0, tags := [], del := d }, some sv)
          | _, _ => none
        | _ => none
  | _ => none

def showWinners (ws : List Entry) (keep : Bool) : String :=
  let parts := ws.map fun e =>
    let ns := sortBy (fun a b => a < b) e.nodes
    s!"{e.doc.key},{e.doc.rev},{dl e.doc.del}," ++ "+".intercalate (ns.map fun n => s!"n{n}")
  let parts := if keep then parts else sortBy (fun a b => a < b) parts
  if parts.isEmpty then "-" else ";".intercalate parts

def dedupLine (dir : String) (toks : List String) : String :=
  match toks.mapM parseItems with
  | none => "bad-op"
  | some lists =>
    let items := lists.flatten
    let desc := dir == "d"
    let simple := simpleDedup (items.map fun (n, d, _) => (n, d))
    let sorted := sortedDedup desc (arrival desc items)
    s!"simple={showWinners simple false} sorted={showWinners sorted true}"

def handle (line : String) : String :=
  match words line with
  | "DD" :: dir :: rest => dedupLine dir rest
  | ["LE", g, n, i] =>
    match bytesOfHex g, bytesOfHex n, bytesOfHex i with
    | some g, some n, some i =>
      let e := buildLeaf g n i
      match parseLeaf e with
      | some (a, b, c) => s!"{hexOrDash e} {hexOrDash a} {hexOrDash b} {hexOrDash c}"
      | none => s!"{hexOrDash e} ERR"
    | _, _, _ => "bad-op"
  | h :: n :: rest =>
    if h.startsWith "H" then
      match n.toNat? with
      | some k => if k ≥ 1 && k ≤ 3 then history k rest else "bad-op"
      | none => "bad-op"
    else "bad-op"
  | _ => "bad-op"

def main : IO Unit := runDriver handle
