import Banyan.Model.C19
open Banyan Banyan.C19

/-! Line-protocol driver of the C19 model; the protocol is documented in
    hooks/banyand/internal/verifdrv/c19/main.go. -/

def joinOr (l : List String) (sep : String) : String :=
  if l.isEmpty then "-" else sep.intercalate l

def showIds (l : List Nat) : String := joinOr (l.map toString) ","

def insertSorted (le : α → α → Bool) (a : α) : List α → List α
  | [] => [a]
  | b :: bs => if le a b then a :: b :: bs else b :: insertSorted le a bs

def sortBy (le : α → α → Bool) (l : List α) : List α := l.foldr (insertSorted le) []

def sortNat (l : List Nat) : List Nat := sortBy (fun a b => a ≤ b) l

/-- rows of batch `k`: (series, timestamp offset, value). -/
def rowsOf (k : Nat) : List (Nat × Nat × Nat) :=
  (List.range (1 + k % 3)).map fun j => (1 + (k + j) % 4, k * 8 + j, k * 1000 + j)

def showRows (batches : List Nat) : String :=
  let rows := sortBy (fun (a b : Nat × Nat × Nat) => a.1 < b.1 || (a.1 == b.1 && a.2.1 ≤ b.2.1)) (batches.flatMap rowsOf)
  joinOr (rows.map fun r => s!"{r.1}.{r.2.1}.{r.2.2}") ","

def showParts (t : Table) : String :=
  match t.cur with
  | none => "-"
  | some s => joinOr (s.parts.map fun pw => toString pw.id ++ (if pw.mem then "m" else "")) ","

def dedup [BEq α] (l : List α) : List α :=
  l.foldl (fun acc a => if acc.contains a then acc else acc ++ [a]) []

def showRefs (t : Table) : String :=
  let pws := dedup (t.live.flatMap (·.parts))
  let pws := sortBy (fun (a b : PW) => a.id < b.id || (a.id == b.id && (a.mem || !b.mem))) pws
  joinOr (pws.map fun pw =>
    toString pw.id ++ (if pw.mem then "m" else "") ++ ":" ++ toString (t.refPW pw) ++
      (if !pw.mem && t.removable.contains pw.id then "x" else "") ++
      (if !pw.mem && !(t.disk.any (·.id == pw.id)) then "!" else "")) ","

def allBatches (t : Table) : List Nat :=
  match t.cur with
  | none => []
  | some s => s.parts.flatMap (·.batches)

/-! ### token parsing -/

def parsePositions (s : String) : List Nat := (s.splitOn "+").filterMap (·.toNat?)

structure SnapSpec where
  hooks : List (Nat × String) := []
  failAt : Option Nat := none

/-- split "@0=b@1=m0+1!2" into items with their leading marker. -/
def splitItems (cs : List Char) : List (Char × String) :=
  let rec go (cs : List Char) (cur : Option (Char × List Char)) (acc : List (Char × String)) : List (Char × String) :=
    match cs with
    | [] => match cur with
      | none => acc.reverse
      | some (m, b) => ((m, String.ofList b.reverse) :: acc).reverse
    | c :: rest =>
      if c == '@' || c == '!' then
        match cur with
        | none => go rest (some (c, [])) acc
        | some (m, b) => go rest (some (c, [])) ((m, String.ofList b.reverse) :: acc)
      else
        match cur with
        | none => go rest none acc
        | some (m, b) => go rest (some (m, c :: b)) acc
  go cs none []

def parseSnap (tok : String) : SnapSpec :=
  (splitItems (tok.toList.drop 1)).foldl (fun sp (m, body) =>
    if m == '@' then
      match body.splitOn "=" with
      | [p, op] => match p.toNat? with
        | some n => { sp with hooks := sp.hooks ++ [(n, op)] }
        | none => sp
      | _ => sp
    else
      match body.toNat? with
      | some n => { sp with failAt := some n }
      | none => sp) {}

/-! ### tbl -/

structure TS where
  t : Table := {}
  next : Nat := 0
  fired : List Nat := []
  hookOut : List String := []

def tsLens : Lens TS := ⟨fun s => s.t, fun s t => { s with t := t }⟩

def tblMaint (s : TS) (op : String) : TS :=
  match op.toList with
  | ['b'] => { s with next := s.next + 1, t := s.t.introduce (s.next + 1) }
  | ['f'] => { s with t := s.t.flush }
  | 'm' :: r => { s with t := s.t.merge (parsePositions (String.ofList r)) }
  | _ => s

def tblHook (sp : SnapSpec) (p : Nat) (s : TS) : TS :=
  let s := { s with fired := s.fired ++ [p],
                    hookOut := s.hookOut ++ [s!"{p}:snap={s.t.refCur};refs={showRefs s.t}"] }
  (sp.hooks.filter (·.1 == p)).foldl (fun s h => tblMaint s h.2) s

def showDst (d : Option Dst) : String :=
  match d with
  | none => "dst=0 man=none dirs=- inc=- other=0 open=none oparts=- rows=-"
  | some d =>
    let man := match d.manifest with | none => "none" | some m => showIds (sortNat m)
    let inc := (d.parts.filter (!·.complete)).map (·.id)
    let rec_ := recover d
    s!"dst=1 man={man} dirs={showIds (sortNat (d.parts.map (·.id)))} inc={showIds (sortNat inc)} other=0 " ++
    s!"open=ok oparts={showIds (sortNat (rec_.map (·.id)))} rows={showRows (content rec_)}"

/-- `stream = true`: the stream engine's `TakeFileSnapshot` first snapshots the element index into `<dst>/idx`
    (the destination directory exists beforehand, as the shard directory does under a segment), and reports
    success also when the table has no file part — the copy then holds the index only. -/
def tblSnapshot (stream : Bool) (s : TS) (tok : String) : TS × String :=
  let sp := parseSnap tok
  let pin := showParts s.t
  let s0 := { s with fired := [], hookOut := [] }
  let (s1, ret, _) := takeFileSnapshot tsLens (tblHook sp) sp.failAt (if stream then some {} else none) 0 s0
  let r := match ret.status with
    | .noSnapshot => "N"
    | .noDisk => if stream then "T" else "F"
    | .err => "E"
    | .ok => "T"
  let d := ret.dst
  (s1, s!"S ret={r} fired={showIds s1.fired} pin={pin} hooks={joinOr s1.hookOut "/"} {showDst d}")

/-! ### ttb: the trace engine (core parts + one secondary index whose parts mirror the core parts by id)

Modelled as the *repaired* procedure: the core snapshot is pinned and the secondary index is hard-linked inside one
publication critical section, so environment operations arriving at the first `n+1` file-system calls
(`mkdir <dst>/sidx/<name>`, then one link per index part) wait and run when the section ends, i.e. immediately
before the first core link (or after the call when it ends earlier). The rest is the table model:
real call `q + n + 1` = model call `q`. The copy's index parts are the ids of the linked core parts and the index
entries recovered on open are those of the recovered core parts. -/

def valsOf (batches : List Nat) : List Nat := sortNat ((batches.flatMap rowsOf).map (·.2.2))

def ttbHook (n : Nat) (sp : SnapSpec) (q : Nat) (s : TS) : TS :=
  let real := q + n + 1
  let s := { s with fired := s.fired ++ [real],
                    hookOut := s.hookOut ++ [s!"{real}:snap={s.t.refCur};refs={showRefs s.t}"] }
  let early := if q == 0 then (sortBy (fun (a b : Nat × String) => a.1 ≤ b.1) (sp.hooks.filter (·.1 ≤ n))) else []
  (early ++ sp.hooks.filter (·.1 == real)).foldl (fun s h => tblMaint s h.2) s

def ttbSnapshot (s : TS) (tok : String) : TS × String :=
  let sp := parseSnap tok
  let pin := showParts s.t
  match s.t.cur with
  | none =>
    (s, s!"S ret=N fired=- pin={pin} hooks=- dst=0 man=none dirs=- inc=- other=0 open=none oparts=- rows=- ikeys=none")
  | some S =>
    let n := S.diskParts.length
    let preState := s!"snap={s.t.refCur + 1};refs={showRefs s.t}"
    let earlyOut := fun (upTo : Nat) => (List.range (upTo + 1)).map fun p => s!"{p}:{preState}"
    let runEarlyAfter := fun (s : TS) (upTo : Nat) =>
      (sortBy (fun (a b : Nat × String) => a.1 ≤ b.1) (sp.hooks.filter (·.1 ≤ upTo))).foldl (fun s h => tblMaint s h.2) s
    -- a failing index link (calls 1..n) aborts inside the critical section
    match sp.failAt with
    | some f =>
      if 1 ≤ f ∧ f ≤ n then
        let s1 := runEarlyAfter s f
        (s1, s!"S ret=E fired={showIds (List.range (f + 1))} pin={pin} hooks={joinOr (earlyOut f) "/"} " ++
             "dst=0 man=none dirs=- inc=- other=0 open=none oparts=- rows=- ikeys=none")
      else ttbCore s sp pin n preState (if f ≥ n + 1 then some (f - n - 1) else none)
    | none => ttbCore s sp pin n preState none
where
  ttbCore (s : TS) (sp : SnapSpec) (pin : String) (n : Nat) (preState : String) (failAt : Option Nat) : TS × String :=
    let earlyOut := (List.range (n + 1)).map fun p => s!"{p}:{preState}"
    if n == 0 then
      -- no file part: only the index directory is created; success is reported
      let s1 := (sp.hooks.filter (·.1 == 0)).foldl (fun s h => tblMaint s h.2) s
      (s1, s!"S ret=T fired=0 pin={pin} hooks={joinOr earlyOut "/"} dst=1 man=none dirs=- inc=- other=0 idx=- " ++
           "open=ok oparts=- rows=- ikeys=none")
    else
      let s0 := { s with fired := [], hookOut := [] }
      let (s1, ret, _) := takeFileSnapshot tsLens (ttbHook n sp) failAt none 0 s0
      let r := match ret.status with | .err => "E" | _ => "T"
      let fired := List.range (n + 1) ++ s1.fired
      let head := s!"S ret={r} fired={showIds fired} pin={pin} hooks={joinOr (earlyOut ++ s1.hookOut) "/"} "
      match ret.dst with
      | none => (s1, head ++ "dst=0 man=none dirs=- inc=- other=0 open=none oparts=- rows=- ikeys=none")
      | some d =>
        let man := match d.manifest with | none => "none" | some m => showIds (sortNat m)
        let rec_ := recover d
        let ids := showIds (sortNat (d.parts.map (·.id)))
        (s1, head ++ s!"dst=1 man={man} dirs={ids} inc=- other=0 idx={ids} " ++
             s!"open=ok oparts={showIds (sortNat (rec_.map (·.id)))} rows={showRows (content rec_)} " ++
             s!"ikeys={showIds (valsOf (content rec_))}")

/-- `sq=<op>`: the snapshot request lands while the publication of `<op>` is queued on the publication fence behind
    a reader; the queued writer goes first, so the repaired procedure snapshots the state after `<op>`. The record
    shows as `pin=` the state the driver saw when the request was issued (before the publication). -/
def ttbQueued (s : TS) (tok : String) : TS × String :=
  let before := showParts s.t
  let s1 := tblMaint s ((tok.drop 3).toString)
  let (s2, r) := ttbSnapshot s1 "s"
  (s2, r.replace s!" pin={showParts s1.t} " s!" pin={before} ")

def runTtb (ops : List String) : String :=
  let (s, recs) := ops.foldl (fun (acc : TS × List String) op =>
    if op.startsWith "sq=" then
      let (s', r) := ttbQueued acc.1 op
      (s', acc.2 ++ [r])
    else if op.startsWith "s" then
      let (s', r) := ttbSnapshot acc.1 op
      (s', acc.2 ++ [r])
    else (tblMaint acc.1 op, acc.2)) (({} : TS), [])
  let ik := if s.t.cur.isNone then "none" else showIds (valsOf (allBatches s.t))
  let fin := s!"F parts={showParts s.t} snap={s.t.refCur} refs={showRefs s.t} rows={showRows (allBatches s.t)} ikeys={ik}"
  " | ".intercalate (recs ++ [fin])

def runTbl (stream : Bool) (ops : List String) : String :=
  let (s, recs) := ops.foldl (fun (acc : TS × List String) op =>
    if op.startsWith "s" then
      let (s', r) := tblSnapshot stream acc.1 op
      (s', acc.2 ++ [r])
    else (tblMaint acc.1 op, acc.2)) (({} : TS), [])
  let fin := s!"F parts={showParts s.t} snap={s.t.refCur} refs={showRefs s.t} rows={showRows (allBatches s.t)}"
  " | ".intercalate (recs ++ [fin])


/-! ### db -/

structure DS where
  db : DB := {}
  next : Nat := 0
  dead : List Nat := []
  fired : List Nat := []

def dsLens : DLens DS := ⟨fun s => s.db, fun s d => { s with db := d }⟩

def digitOf (c : Char) : Nat := c.toNat - 48

def b01 (b : Bool) : String := if b then "1" else "0"

def dbMaint (s : DS) (op : String) : DS :=
  match op.toList with
  | ['r', d] => { s with db := s.db.step (.release (digitOf d)) }
  | [c, d] =>
    let d := digitOf d
    if s.dead.contains d then s else
    if c == 'c' then { s with db := s.db.step (.closeIdle d) }
    else if c == 'h' then { s with db := s.db.step (.hold d) }
    else if c == 'x' then (if (s.db.seg d).isSome then { s with dead := d :: s.dead, db := s.db.step (.remove d) } else s)
    else if c == 'X' then (if (s.db.seg d).isSome then { s with dead := d :: s.dead, db := s.db.step (.deleteFlag d) } else s)
    else s
  | [c, d, h] =>
    let d := digitOf d
    let h := digitOf h
    if s.dead.contains d then s else
    if c == 'w' then { s with next := s.next + 1, db := s.db.step (.write d h (s.next + 1)) }
    else if c == 'f' then { s with db := s.db.step (.flush d h) }
    else if c == 'm' then { s with db := s.db.step (.mergeAll d h) }
    else s
  | _ => s

def dbHook (sp : SnapSpec) (p : Nat) (s : DS) : DS :=
  let s := { s with fired := s.fired ++ [p] }
  (sp.hooks.filter (·.1 == p)).foldl (fun s h => dbMaint s h.2) s

def segStates (db : DB) : String :=
  joinOr (db.days.filterMap fun d => (db.seg d).map fun sg =>
    s!"{d}:{b01 sg.isOpen}{b01 sg.del}{b01 sg.dirExists}{sg.ref}") ","

def showTableDst (d : Dst) : String :=
  let man := match d.manifest with | none => "none" | some m => showIds (sortNat m)
  let inc := (d.parts.filter (!·.complete)).map (·.id)
  s!"man={man} dirs={showIds (sortNat (d.parts.map (·.id)))} inc={showIds (sortNat inc)} other=0"

def sortShardDsts (l : List (Nat × Dst)) : List (Nat × Dst) := sortBy (fun a b => a.1 ≤ b.1) l

def showCopy (segs : List (Nat × SegDst)) : String :=
  let one := fun (x : Nat × SegDst) =>
    let sh := (sortShardDsts x.2.shards).map fun (h, d) => s!"{h}\{{showTableDst d}}"
    s!"{x.1}[meta=1 sidx=1 junk=0 {" ".intercalate sh}]"
  ";".intercalate (segs.map one)

def showCopyQuery (segs : List (Nat × SegDst)) : String :=
  let qs := segs.flatMap fun x =>
    (sortShardDsts x.2.shards).map fun (h, d) =>
      let r := recover d
      s!"{x.1}.{h}:{showIds (sortNat (r.map (·.id)))}:{showRows (content r)}"
  joinOr qs ";"

def dbSnapshot (s : DS) (tok : String) : DS × String :=
  let sp := parseSnap tok
  let before := segStates s.db
  let s0 := { s with fired := [] }
  let (s1, ret) := snapshotDb dsLens (dbHook sp) sp.failAt s0
  let after := segStates s1.db
  let head := fun (r : String) (dst : String) => s!"S ret={r} fired={showIds s1.fired} before={before} after={after} dst={dst}"
  let r := match ret.status with
    | .nothing => "F"
    | .err => "E"
    | .ok => "T"
  match ret.dst with
  | none => (s1, head r "0" ++ " copy=none")
  | some segs => (s1, head r "1" ++ s!" copy={showCopy segs} open=ok q={showCopyQuery segs} bk=same")

def showLive (db : DB) : String :=
  let qs := db.days.flatMap fun d =>
    match db.seg d with
    | none => []
    | some sg =>
      if !sg.isOpen then [] else
      (sortNat sg.order).filterMap fun h => (sg.tab h).map fun t =>
        s!"{d}.{h}:{showParts t}:{showRows (allBatches t)}"
  joinOr qs ";"

def runDb (ops : List String) : String :=
  let (s, recs) := ops.foldl (fun (acc : DS × List String) op =>
    if op.startsWith "s" then
      let (s', r) := dbSnapshot acc.1 op
      (s', acc.2 ++ [r])
    else (dbMaint acc.1 op, acc.2)) (({} : DS), [])
  let fin := s!"F segs={segStates s.db} q={showLive s.db}"
  " | ".intercalate (recs ++ [fin])

def handle (line : String) : String :=
  match words line with
  | "tbl" :: ops => runTbl false ops
  | "stb" :: ops => runTbl true ops
  | "ttb" :: ops => runTtb ops
  | "ttbx" :: ops => runTtb ops
  | "db" :: ops => runDb ops
  | _ => "bad-op"

def main : IO Unit := runDriver handle
