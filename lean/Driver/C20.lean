import Banyan.Model.C20
open Banyan Banyan.C20

/-! Model driver for C20. Reads the canonical template AST printed by the Go driver (the participle parser is
    trusted), runs the model's `bind` / `prepare` / `Prepared.bind` and prints the same dump format. -/

/-- generic term of the dump format: `name(arg,arg,…)` or a bare atom. -/
inductive Tree where
  | node (name : String) (args : List Tree)
  deriving Inhabited

partial def parseTree (cs : List Char) : Option (Tree × List Char) :=
  let name := cs.takeWhile fun c => c != '(' && c != ',' && c != ')'
  let rest := cs.dropWhile fun c => c != '(' && c != ',' && c != ')'
  match rest with
  | '(' :: ')' :: r => some (.node (String.ofList name) [], r)
  | '(' :: r =>
    let rec args (cs : List Char) (acc : List Tree) : Option (List Tree × List Char) :=
      match parseTree cs with
      | none => none
      | some (t, ',' :: r) => args r (t :: acc)
      | some (t, ')' :: r) => some ((t :: acc).reverse, r)
      | some _ => none
    match args r [] with
    | some (as, r) => some (.node (String.ofList name) as, r)
    | none => none
  | r => some (.node (String.ofList name) [], r)

def parseTreeAll (s : String) : Option Tree :=
  match parseTree s.toList with
  | some (t, []) => some t
  | _ => none

def hexTail (s : String) : Option Str := bytesOfHexChars (s.toList.drop 1)

def atomValue (s : String) : Option Value :=
  match s.toList with
  | ['n'] => some .null
  | 's' :: r => (bytesOfHexChars r).map .str
  | 'i' :: r => (String.ofList r).toInt?.map .int
  | 'p' :: r => (String.ofList r).toNat?.map .param
  | _ => none

def atomTime (s : String) : Option TimeValue :=
  match s.toList with
  | 's' :: r => (bytesOfHexChars r).map .str
  | 'i' :: r => (String.ofList r).toInt?.map .int
  | 'p' :: r => (String.ofList r).toNat?.map .param
  | _ => none

def atomCount (s : String) : Option Count :=
  match s.toList with
  | 'c' :: r => (String.ofList r).toInt?.map .lit
  | 'p' :: r => (String.ofList r).toNat?.map .param
  | _ => none

def atomH (s : String) : Option Str :=
  match s.toList with
  | 'h' :: r => bytesOfHexChars r
  | _ => none

def atomOptH (s : String) : Option (Option Str) :=
  if s == "_" then some none else (atomH s).map some

def treeValue : Tree → Option Value
  | .node s [] => atomValue s
  | _ => none

def treeMulti : Tree → Option Multi
  | .node "one" [v] => (treeValue v).map .single
  | .node "arr" vs => (vs.mapM treeValue).map .array
  | _ => none

def treeTimeV : Tree → Option TimeValue
  | .node s [] => atomTime s
  | _ => none

def treeOptCount : Tree → Option (Option Count)
  | .node "_" [] => some none
  | .node s [] => (atomCount s).map some
  | _ => none

def treeTime : Tree → Option (Option TimeClause)
  | .node "_" [] => some none
  | .node "tc" [.node op [], v] => do
    let o ← atomH op
    let tv ← treeTimeV v
    pure (some (.cmp o tv))
  | .node "tb" [b, e] => do
    let b ← treeTimeV b
    let e ← treeTimeV e
    pure (some (.between b e))
  | _ => none

mutual
partial def treePred : Tree → Option Pred
  | .node "par" [e] => (treeOr e).map .paren
  | .node "cmp" [.node i [], .node o [], v] => do
    pure (.compare (← atomH i) (← atomH o) (← treeValue v))
  | .node "mat" [.node i [], m, .node a [], .node o []] => do
    pure (.matchP (← atomH i) (← treeMulti m) (← atomOptH a) (← atomOptH o))
  | .node "in" (.node i [] :: .node n [] :: vs) => do
    pure (.inP (← atomH i) (n == "1") (← vs.mapM treeValue))
  | .node "hav" [.node i [], .node n [], m] => do
    pure (.having (← atomH i) (n == "1") (← treeMulti m))
  | _ => none
partial def treeAnd : Tree → Option AndExpr
  | .node "and" ps => do
    let ps ← ps.mapM treePred
    match ps.reverse with
    | [] => none
    | last :: revInit => pure (revInit.foldl (fun acc p => AndExpr.cons p acc) (AndExpr.one last))
  | _ => none
partial def treeOr : Tree → Option OrExpr
  | .node "or" as => do
    let as ← as.mapM treeAnd
    match as.reverse with
    | [] => none
    | last :: revInit => pure (revInit.foldl (fun acc a => OrExpr.cons a acc) (OrExpr.one last))
  | _ => none
end

def treeGrammar : Tree → Option Grammar
  | .node "sel" [.node hdr [], topn, time, wh, .node mid [], lim, off, .node b []] => do
    let w ← (match wh with
      | .node "_" [] => some none
      | t => (treeOr t).map some)
    pure { stmt := .select { hdr := ← atomH hdr, topN := ← treeOptCount topn, time := ← treeTime time, where_ := w,
                             mid := ← atomH mid, limit := ← treeOptCount lim, offset := ← treeOptCount off },
           bound := b == "1" }
  | .node "top" [.node hdr [], .node n [], time, wh, .node tail [], .node b []] => do
    let w ← (match wh with
      | .node "_" [] => some none
      | t => (treeAnd t).map some)
    pure { stmt := .topN { hdr := ← atomH hdr, n := ← atomCount n, time := ← treeTime time, where_ := w,
                           tail := ← atomH tail },
           bound := b == "1" }
  | _ => none

/-! printing -/

def showValue : Value → String
  | .str s => "s" ++ hexOfBytes s
  | .int i => "i" ++ toString i
  | .null => "n"
  | .param k => "p" ++ toString k

def showTimeV : TimeValue → String
  | .str s => "s" ++ hexOfBytes s
  | .int i => "i" ++ toString i
  | .param k => "p" ++ toString k

def showCount : Count → String
  | .lit n => "c" ++ toString n
  | .param k => "p" ++ toString k

def showOptCount : Option Count → String
  | none => "_"
  | some c => showCount c

def showH (s : Str) : String := "h" ++ hexOfBytes s

def showOptH : Option Str → String
  | none => "_"
  | some s => showH s

def showMulti : Multi → String
  | .single v => "one(" ++ showValue v ++ ")"
  | .array vs => "arr(" ++ ",".intercalate (vs.map showValue) ++ ")"

def showTime : Option TimeClause → String
  | none => "_"
  | some (.cmp op v) => "tc(" ++ showH op ++ "," ++ showTimeV v ++ ")"
  | some (.between b e) => "tb(" ++ showTimeV b ++ "," ++ showTimeV e ++ ")"

mutual
partial def showPred : Pred → String
  | .paren e => "par(" ++ showOr e ++ ")"
  | .compare i o v => "cmp(" ++ showH i ++ "," ++ showH o ++ "," ++ showValue v ++ ")"
  | .matchP i m a o => "mat(" ++ showH i ++ "," ++ showMulti m ++ "," ++ showOptH a ++ "," ++ showOptH o ++ ")"
  | .inP i n vs => "in(" ++ ",".intercalate (showH i :: (if n then "1" else "0") :: vs.map showValue) ++ ")"
  | .having i n m => "hav(" ++ showH i ++ "," ++ (if n then "1" else "0") ++ "," ++ showMulti m ++ ")"
partial def andList : AndExpr → List String
  | .one p => [showPred p]
  | .cons p r => showPred p :: andList r
partial def showAnd (a : AndExpr) : String := "and(" ++ ",".intercalate (andList a) ++ ")"
partial def orList : OrExpr → List String
  | .one a => [showAnd a]
  | .cons a r => showAnd a :: orList r
partial def showOr (o : OrExpr) : String := "or(" ++ ",".intercalate (orList o) ++ ")"
end

def showGrammar (g : Grammar) : String :=
  let b := if g.bound then "1" else "0"
  match g.stmt with
  | .select s =>
    "sel(" ++ ",".intercalate [showH s.hdr, showOptCount s.topN, showTime s.time,
      (match s.where_ with
       | none => "_"
       | some e => showOr e),
      showH s.mid, showOptCount s.limit, showOptCount s.offset, b] ++ ")"
  | .topN t =>
    "top(" ++ ",".intercalate [showH t.hdr, showCount t.n, showTime t.time,
      (match t.where_ with
       | none => "_"
       | some e => showAnd e),
      showH t.tail, b] ++ ")"

def showErr : Err → String
  | .rebind => "ERR:rebind:0"
  | .count => "ERR:count:0"
  | .noValue i => "ERR:novalue:" ++ toString i
  | .bind i .type => "ERR:type:" ++ toString i
  | .bind i .range => "ERR:range:" ++ toString i
  | .bind i .empty => "ERR:empty:" ++ toString i
  | .bind i .ts => "ERR:ts:" ++ toString i

def showSpec : SlotKind → String
  | .scalar => "S"
  | .list => "L"
  | .time => "T"
  | .count m => "C" ++ toString m

def showResolved : Resolved → String
  | .vals vs => "v(" ++ ",".intercalate (vs.map showValue) ++ ")"
  | .time s => "t" ++ hexOfBytes s
  | .count n => "c" ++ toString n

/-! parameters: `N` nil entry, `V` TagValue without value, `n` null, `s<hex>`, `i<dec>`, `S<n>:<hex>…`, `I<n>:<dec>…`,
    `t<sec>:<nanos>`, `T` timestamp with nil message, `b<hex>`; `s~ i~ S~ I~` = nil inner message, read by Go through
    nil-safe getters as "" / 0 / empty. -/
def parseParam (s : String) : Option ParamVal :=
  match s.toList with
  | ['N'] => some .none_
  | ['V'] => some .none_
  | ['n'] => some .null
  | ['s', '~'] => some (.str [])
  | ['i', '~'] => some (.int 0)
  | ['S', '~'] => some (.strArr [])
  | ['I', '~'] => some (.intArr [])
  | ['T'] => some .tsNil
  | 's' :: r => (bytesOfHexChars r).map .str
  | 'i' :: r => (String.ofList r).toInt?.map .int
  | 'b' :: r => (bytesOfHexChars r).map .bin
  | 'S' :: r =>
    match (String.ofList r).splitOn ":" with
    | n :: es => if n.toNat? == some es.length then (es.mapM fun (e : String) => bytesOfHexChars e.toList).map .strArr else none
    | [] => none
  | 'I' :: r =>
    match (String.ofList r).splitOn ":" with
    | n :: es => if n.toNat? == some es.length then (es.mapM fun (e : String) => e.toInt?).map .intArr else none
    | [] => none
  | 't' :: r =>
    match (String.ofList r).splitOn ":" with
    | [a, b] => do pure (.ts (← a.toInt?) (← b.toInt?))
    | _ => none
  | _ => none

def parseParams (s : String) : Option (List ParamVal) :=
  if s == "-" then some [] else (s.splitOn ",").mapM parseParam

def showBind (g : Grammar) (ps : List ParamVal) : String :=
  match bind g ps with
  | .ok g' => showGrammar g'
  | .error e => showErr e

def showOverlay (p : Prepared) (ps : List ParamVal) : String :=
  match p.bind ps with
  | .ok ov => "ov(" ++ ",".intercalate (ov.map showResolved) ++ ")"
  | .error e => showErr e

/-- one step of a `seq` line: the served template and overlay must be those of the step's own text. The model of
    the cache is "keyed by the exact text, so getOrPrepare(text) = prepare(parse(text))". -/
def seqSteps : Nat → List String → Option (List String)
  | _, [] => some []
  | n, _stmt :: ast :: _lit :: ps :: rest => do
    let tail ← seqSteps (n + 1) rest
    if ast == "!" then
      pure (s!"PT{n}=PARSEERR O{n}=-" :: tail)
    else
      let g ← (parseTreeAll ast).bind treeGrammar
      let ps ← parseParams ps
      let p := prepare g
      pure (s!"PT{n}={showGrammar p.template} O{n}={showOverlay p ps}" :: tail)
  | _, _ => none

def handleBind (ast p1 p2 : String) : String :=
  match (parseTreeAll ast).bind treeGrammar, parseParams p1, parseParams p2 with
  | some g, some ps1, some ps2 =>
    let p := prepare g
    s!"T={showGrammar g} B1={showBind g ps1} B2={showBind g ps2} PT={showGrammar p.template} " ++
    s!"SP=sp({",".intercalate (p.specs.map showSpec)}) O1={showOverlay p ps1} O2={showOverlay p ps2}"
  | _, _, _ => "bad-input"

def handle (line : String) : String :=
  match words line with
  | op :: rest =>
    if op.startsWith "seq" then
      match rest with
      | _size :: steps =>
        match seqSteps 1 steps with
        | some out => " ".intercalate out
        | none => "bad-input"
      | [] => "bad-op"
    else if op.startsWith "bind" then
      match rest with
      | [_stmt, ast, _l1, _l2, p1, p2] => handleBind ast p1 p2
      | _ => "bad-op"
    else "bad-op"
  | [] => "bad-op"

def main : IO Unit := runDriver handle
