import Banyan.Model.Util
open Banyan

/- stub: model driver for C20 not built yet -/
def main : IO Unit := runDriver fun _ => "bad-op"
