"""Shared machinery for /verif checks.

Flow of one check (see DESIGN.md section 2/3):
  1. regenerate the protobuf overlay from /repo/api/proto (pbgen) and the hook overlay
  2. regenerate Lean facts from /repo (tools/extract.py) and `lake build` the property's
     proof modules + tie obligations; audit axioms
  3. build the Go driver from /repo's *current working tree* under -tags verif -overlay
  4. run generated cases through the Go driver (real code) and the Lean driver (model)
  5. evaluate the property oracle on the implementation's output
  6. verdict + evidence
"""
import hashlib
import json
import os
import random
import re
import shutil
import subprocess
import sys
import time

VERIF = os.path.dirname(os.path.dirname(os.path.abspath(__file__)))
REPO = os.environ.get("VERIF_REPO", "/repo")
BUILD = os.path.join(VERIF, ".build")
if REPO != "/repo":
    # scratch worktrees (testing a candidate fix / a seeded change without touching /repo) get their own
    # overlay and driver binaries so they never disturb checks running against /repo
    BUILD = os.path.join(VERIF, ".build", "alt-" + hashlib.sha1(REPO.encode()).hexdigest()[:10])
LEAN = os.path.join(VERIF, "lean")
HOOKS = os.path.join(VERIF, "hooks")
EVID = os.environ.get("VERIF_EVIDENCE_DIR") or os.path.join(VERIF, "evidence")
REPLAYS = os.path.join(VERIF, "replays")
SCRATCH = os.path.join(VERIF, ".scratch")
ALLOWED_AXIOMS = {"propext", "Classical.choice", "Quot.sound"}


def log(*a):
    print(*a, file=sys.stderr, flush=True)


def goenv():
    e = dict(os.environ)
    e["GOFLAGS"] = "-mod=mod"
    e["GOPROXY"] = "off"
    # do not force GOTOOLCHAIN=local: go.mod asks for go1.25.13 which is in the mod cache
    e.pop("GOTOOLCHAIN", None)
    e.pop("GOSUMDB", None)
    e.setdefault("GOMEMLIMIT", "12GiB")
    return e


def sh(cmd, cwd=None, env=None, timeout=None, check=True, input=None):
    t0 = time.time()
    p = subprocess.run(cmd, cwd=cwd, env=env, timeout=timeout, input=input,
                       stdout=subprocess.PIPE, stderr=subprocess.PIPE, text=True,
                       shell=isinstance(cmd, str))
    if check and p.returncode != 0:
        raise BuildError("command failed (%s): %s\n%s\n%s" % (p.returncode, cmd, p.stdout[-4000:], p.stderr[-4000:]))
    p.wall = time.time() - t0
    return p


class BuildError(Exception):
    pass


# ----------------------------------------------------------------------------------------
# overlay

def _tree_hash(root, suffixes):
    h = hashlib.sha256()
    for d, _, fs in sorted(os.walk(root)):
        for f in sorted(fs):
            if f.endswith(suffixes):
                p = os.path.join(d, f)
                h.update(p.encode())
                with open(p, "rb") as fh:
                    h.update(fh.read())
    return h.hexdigest()


def ensure_pbgen():
    os.makedirs(BUILD, exist_ok=True)
    exe = os.path.join(BUILD, "pbgen")
    src = os.path.join(VERIF, "tools", "pbgen")
    stamp = os.path.join(BUILD, "pbgen.stamp")
    hh = _tree_hash(src, (".go", ".mod", ".sum"))
    if not (os.path.exists(exe) and os.path.exists(stamp) and open(stamp).read() == hh):
        sh(["go", "build", "-o", exe, "."], cwd=src, env=goenv())
        open(stamp, "w").write(hh)
    return exe


def ensure_pb():
    """Regenerate pb code from /repo/api/proto (hash-cached). Returns {virtual path: generated file}."""
    exe = ensure_pbgen()
    proto_root = os.path.join(REPO, "api", "proto")
    hh = _tree_hash(proto_root, (".proto",))
    pbdir = os.path.join(BUILD, "pb")
    stamp = os.path.join(BUILD, "pb.stamp")
    if not (os.path.isdir(pbdir) and os.path.exists(stamp) and open(stamp).read() == hh):
        shutil.rmtree(pbdir, ignore_errors=True)
        os.makedirs(pbdir)
        sh([exe, "-proto", proto_root, "-out", pbdir])
        open(stamp, "w").write(hh)
    repl = {}
    for d, _, fs in os.walk(pbdir):
        for f in fs:
            p = os.path.join(d, f)
            rel = os.path.relpath(p, pbdir)
            repl[os.path.join(proto_root, rel)] = p
    return repl


def ensure_overlay(name="all"):
    """Overlay for driver `name`: regenerated pb code + hooks/banyand/internal/verifdrv/{drv,<name>}/**
    + every export file hooks/**/zz_verif_<name>.go or zz_verif_<name>_*.go (same-package exports).
    Drivers are isolated from each other's hook files (builders work concurrently)."""
    repl = ensure_pb()
    drvroot = os.path.join(HOOKS, "banyand", "internal", "verifdrv")
    for d, _, fs in os.walk(HOOKS):
        for f in fs:
            if not f.endswith(".go"):
                continue
            p = os.path.join(d, f)
            rel = os.path.relpath(p, HOOKS)
            take = False
            if d.startswith(drvroot):
                sub = os.path.relpath(d, drvroot).split(os.sep)[0]
                take = sub in ("drv", name) or name == "all"
            else:
                take = name == "all" or f == "zz_verif_%s.go" % name or f.startswith("zz_verif_%s_" % name)
            if take:
                repl[os.path.join(REPO, rel)] = p
    ov = os.path.join(BUILD, "overlay-%s.json" % name)
    new = json.dumps({"Replace": repl}, indent=0, sort_keys=True)
    if not os.path.exists(ov) or open(ov).read() != new:
        open(ov, "w").write(new)
    return ov


def go_build_driver(name, pkgdir=None):
    """Build driver `name` (hooks/banyand/internal/verifdrv/<name>) from the current /repo tree."""
    ov = ensure_overlay(name)
    out = os.path.join(BUILD, "bin", "drv_" + name)
    os.makedirs(os.path.dirname(out), exist_ok=True)
    pkg = pkgdir or ("./banyand/internal/verifdrv/" + name)
    t0 = time.time()
    p = sh(["go", "build", "-tags", "verif", "-overlay", ov, "-o", out, pkg], cwd=REPO, env=goenv(),
           check=False, timeout=1800)
    if p.returncode != 0:
        raise BuildError("go build of driver %s failed:\n%s" % (name, p.stderr[-6000:]))
    log("[go] built driver %s in %.1fs" % (name, time.time() - t0))
    return out


# ----------------------------------------------------------------------------------------
# lean

def lean_env():
    e = dict(os.environ)
    return e


def run_extract(only=()):
    """Regenerate lean/Banyan/Generated/<Cxx>.lean from /repo. Fails closed."""
    ex = os.path.join(VERIF, "tools", "extract.py")
    p = sh([sys.executable, ex, REPO, os.path.join(LEAN, "Banyan", "Generated")] + list(only), check=False)
    if p.returncode != 0:
        raise BuildError("fact extractor failed (unrecognised source shape):\n" + p.stdout[-3000:] + p.stderr[-3000:])


def lake_build(targets, timeout=3600):
    t0 = time.time()
    p = sh(["lake", "build"] + list(targets), cwd=LEAN, env=lean_env(), check=False, timeout=timeout)
    log("[lean] lake build %s: rc=%s %.1fs" % (" ".join(targets), p.returncode, time.time() - t0))
    return p


def lean_driver(name):
    """Compiled Lean model driver (core-only lean_exe)."""
    exe = os.path.join(LEAN, ".lake", "build", "bin", "drv_" + name.lower())
    p = lake_build(["drv_" + name.lower()])
    if p.returncode != 0 or not os.path.exists(exe):
        raise BuildError("lean driver build failed:\n" + p.stdout[-4000:] + p.stderr[-4000:])
    return exe


_COMMENT_BLOCK = re.compile(r"/-.*?-/", re.S)
_COMMENT_LINE = re.compile(r"--.*")
_FORBIDDEN = re.compile(r"\b(sorry|admit|native_decide|implemented_by|bv_decide)\b|^\s*axiom\s|\bunsafe\s|maxHeartbeats\s+0\b", re.M)


def lean_source_audit(files):
    """grep for forbidden constructs outside comments. Returns list of (file, hit)."""
    hits = []
    for f in files:
        src = open(f).read()
        src = _COMMENT_BLOCK.sub("", src)
        src = _COMMENT_LINE.sub("", src)
        for m in _FORBIDDEN.finditer(src):
            if m.group(0).strip() == "bv_decide" and re.search(r"Banyan/Lemmas/Bits\w*\.lean$", f):
                continue  # the one enumerated exception, DESIGN.md section 5
            hits.append((os.path.relpath(f, LEAN), m.group(0).strip()))
    return hits


def lean_module_files(mods):
    """Transitive closure of project-local imports of the given modules."""
    seen, todo, out = set(), list(mods), []
    while todo:
        m = todo.pop()
        if m in seen:
            continue
        seen.add(m)
        f = os.path.join(LEAN, *m.split(".")) + ".lean"
        if not os.path.exists(f):
            continue
        out.append(f)
        for line in open(f):
            mm = re.match(r"\s*(?:public\s+)?import\s+([\w.]+)", line)
            if mm and (mm.group(1).startswith("Banyan") or mm.group(1).startswith("Driver")):
                todo.append(mm.group(1))
    return sorted(out)


def lean_axiom_audit(prop, modules, theorems, extra_allowed=()):
    """`#print axioms` for each theorem. Returns (ok_list, bad_list[(thm, axioms|error)])."""
    os.makedirs(os.path.join(BUILD, "audit"), exist_ok=True)
    f = os.path.join(BUILD, "audit", "Audit_%s.lean" % prop)
    with open(f, "w") as fh:
        for m in modules:
            fh.write("import %s\n" % m)
        for t in theorems:
            fh.write("#print axioms %s\n" % t)
    p = sh(["lake", "env", "lean", f], cwd=LEAN, check=False, timeout=1800)
    out = p.stdout + p.stderr
    res = {}
    # messages: "'X' depends on axioms: [a, b]" or "'X' does not depend on any axioms"
    for m in re.finditer(r"'([^']+)' depends on axioms: \[([^\]]*)\]", out, re.S):
        res[m.group(1)] = [a.strip() for a in m.group(2).replace("\n", " ").split(",") if a.strip()]
    for m in re.finditer(r"'([^']+)' does not depend on any axioms", out):
        res[m.group(1)] = []
    ok, bad = [], []
    allowed = ALLOWED_AXIOMS | set(extra_allowed)

    def is_ok(a):
        return a in allowed or re.fullmatch(r"Banyan\.Bits\.[A-Za-z0-9_']+\._native\.bv_decide\.ax_[0-9_]+", a) is not None
    for t in theorems:
        if t not in res:
            bad.append((t, "not found / does not check: " + out[-600:]))
        elif any((not is_ok(a)) for a in res[t]):
            bad.append((t, "unexpected axioms: %s" % res[t]))
        else:
            ok.append((t, res[t]))
    return ok, bad


# ----------------------------------------------------------------------------------------
# running drivers

def run_lines(exe, lines, timeout=3600, env=None, cwd=None, args=()):
    """Feed lines to a line-protocol driver, return list of output lines (one per input line).
    If the process dies, the line at which it died gets 'CRASH <rc>' and the rest is re-run."""
    out = []
    i = 0
    guard = 0
    while i < len(lines):
        chunk = lines[i:]
        p = subprocess.run([exe] + list(args), input="\n".join(chunk) + "\n", stdout=subprocess.PIPE,
                           stderr=subprocess.PIPE, text=True, timeout=timeout, env=env, cwd=cwd)
        got = p.stdout.split("\n")
        if got and got[-1] == "":
            got.pop()
        if len(got) >= len(chunk) and p.returncode == 0:
            out.extend(got[:len(chunk)])
            break
        # died (or short output) at line len(got)
        out.extend(got[:len(chunk)])
        if len(got) >= len(chunk):
            break
        out.append("CRASH rc=%s %s" % (p.returncode, p.stderr.strip().split("\n")[-1][:200] if p.stderr.strip() else ""))
        i = len(out)
        guard += 1
        if guard > 50:
            while len(out) < len(lines):
                out.append("CRASH (driver keeps dying)")
            break
    return out


class Rng(random.Random):
    pass


def seed_from_env():
    try:
        return int(os.environ.get("VERIF_SEED", "1"))
    except ValueError:
        return 1


# ----------------------------------------------------------------------------------------
# known findings

def load_known(prop):
    """KNOWN_FINDINGS.txt lines:  known: property=C06 id=F6 <free text>   |   fixed: property=.. <commit> <text>"""
    res = []
    p = os.path.join(VERIF, "KNOWN_FINDINGS.txt")
    if not os.path.exists(p):
        return res
    for line in open(p):
        line = line.strip()
        m = re.match(r"known:\s+property=(\S+)\s+id=(\S+)\s+(.*)", line)
        if m and m.group(1) == prop:
            res.append({"id": m.group(2), "text": m.group(3)})
    return res


# ----------------------------------------------------------------------------------------
# verdict / evidence

class Result:
    def __init__(self, prop, tier, seed, level="proof"):
        self.prop, self.tier, self.seed, self.level = prop, tier, seed, level
        self.t0 = time.time()
        self.obligations = []      # (name, ok, detail)
        self.violations = []       # dict(kind, detail, replay)
        self.known_hits = {}       # finding id -> example
        self.coverage = {}
        self.assumptions = []
        self.samples = []
        self.evaluations = 0
        self.nontrivial = set()
        self.hist = {}
        self.bv_axioms = set()

    def oblige(self, name, ok, detail=""):
        self.obligations.append((name, bool(ok), detail))

    def count(self, key, n=1):
        self.hist[key] = self.hist.get(key, 0) + n

    def violation(self, kind, detail, replay_obj, no_input=False):
        os.makedirs(REPLAYS, exist_ok=True)
        blob = json.dumps(replay_obj, sort_keys=True, default=str)
        hh = hashlib.sha1(blob.encode()).hexdigest()[:12]
        path = os.path.join(REPLAYS, "%s-%s.json" % (self.prop, hh))
        with open(path, "w") as fh:
            json.dump({"property": self.prop, "kind": kind, "detail": detail, "seed": self.seed,
                       "tier": self.tier, "replay": replay_obj}, fh, indent=1, default=str)
        self.violations.append({"kind": kind, "detail": detail, "replay": path, "no_input": no_input})

    def finish(self, trusted_base, checker_cmd, rule, extra=None):
        for fid, ex in sorted(self.known_hits.items()):
            print("KNOWN-FINDING: property=%s %s: %s" % (self.prop, fid, ex))
        obl = len(self.obligations)
        dis = sum(1 for o in self.obligations if o[1])
        cov = {
            "obligations": obl, "discharged": dis, "checker_cmd": checker_cmd,
            "trusted_base": list(trusted_base) + (["bv_decide leaf lemmas (LRAT checker + Lean.ofReduceBool): " + ", ".join(sorted(self.bv_axioms))] if self.bv_axioms else []),
            "evaluations": self.evaluations, "distinct_nontrivial": len(self.nontrivial),
            "rule": rule, "samples": self.samples[:12],
            "histogram": dict(sorted(self.hist.items())),
            "obligation_list": [{"name": n, "ok": ok, **({"detail": d} if d and not ok else {})} for n, ok, d in self.obligations],
            "known_findings_hit": sorted(self.known_hits),
        }
        if self.level == "translation_validation":
            cov["programs"] = max(1, self.evaluations)
            cov["disagreements_checked"] = self.hist.get("disagreements", 0)
        if extra:
            cov.update(extra)
        ev = {"property_id": self.prop, "tier": self.tier, "seed": self.seed, "level": self.level,
              "coverage": cov, "assumptions": self.assumptions, "wall_s": round(time.time() - self.t0, 2),
              "violations": len(self.violations)}
        os.makedirs(EVID, exist_ok=True)
        with open(os.path.join(EVID, self.prop + ".json"), "w") as fh:
            json.dump(ev, fh, indent=1, default=str)
            fh.write("\n")
        # failed obligations without an input-level violation
        failed = [o for o in self.obligations if not o[1]]
        if failed and not any(not v["no_input"] for v in self.violations):
            self.violation("obligation", "; ".join("%s: %s" % (n, d[:300]) for n, _, d in failed),
                           {"failed_obligations": [{"name": n, "detail": d} for n, _, d in failed]}, no_input=True)
        if self.violations:
            # prefer concrete ones
            conc = [v for v in self.violations if not v["no_input"]]
            for v in (conc or self.violations)[:5]:
                tail = "" if not v["no_input"] else " no-failing-input-found"
                print("VIOLATION property=%s replay=%s%s" % (self.prop, v["replay"], tail))
                log("  ", v["kind"], v["detail"][:500])
            return 1
        log("[%s] ok: %d/%d obligations, %d cases, %.1fs" % (self.prop, dis, obl, self.evaluations, time.time() - self.t0))
        return 0


# ----------------------------------------------------------------------------------------
# the standard check skeleton

class Spec:
    """Per-property description consumed by std_check. Override what you need."""
    prop = "C00"
    level = "proof"
    lean_modules = []          # e.g. ["Banyan.Props.C12", "Banyan.Tie.C12"]
    theorems = []              # fully qualified names audited with #print axioms
    extra_axioms = ()          # enumerated exceptions (bv_decide leaf lemmas), see DESIGN.md section 5
    go_driver = None           # name under hooks/banyand/internal/verifdrv/
    lean_driver = None         # e.g. "C12" -> lean_exe drv_c12
    trusted_base = []
    assumptions = []
    rule = ""
    counts = {"quick": 1000, "thorough": 20000}

    def cases(self, rng, n):
        """list of protocol lines"""
        return []

    def oracle(self, line, go_out):
        """Property predicate on the implementation's output for one case.
        Return None (holds), ("violation", msg) or ("known", finding_id, msg)."""
        return None

    def compare(self, line, go_out, lean_out):
        """model vs implementation. Return True when they agree (or the model abstains)."""
        return go_out == lean_out

    def nontrivial(self, line, go_out):
        """hashable key when the case is non-trivial, else None"""
        return line

    def kind(self, line):
        return line.split(" ", 1)[0]

    def shrink(self, line, still_fails):
        """optional: return a smaller line for which still_fails(line) is True"""
        return line

    def extra(self, R, tier, rng):
        """hook for additional, property-specific stages (may add obligations/violations)"""
        return None


def corpus_lines(prop):
    d = os.path.join(VERIF, "corpus", prop)
    out = []
    if os.path.isdir(d):
        for f in sorted(os.listdir(d)):
            if f.endswith(".case"):
                for l in open(os.path.join(d, f)):
                    l = l.rstrip("\n")
                    if l and not l.startswith("#"):
                        out.append(l)
    return out


def static_stage(spec, R):
    """extract facts, build proofs, audit. Adds obligations to R."""
    try:
        run_extract([spec.prop] + list(getattr(spec, "extract_also", [])))
        R.oblige("fact-extractor", True)
    except BuildError as e:
        R.oblige("fact-extractor", False, str(e))
    p = lake_build(spec.lean_modules)
    if p.returncode != 0:
        # name the failing modules
        bad = re.findall(r"error: (\S+\.lean:\d+:\d+:[^\n]*)", p.stdout + p.stderr)
        R.oblige("lake build " + " ".join(spec.lean_modules), False, "; ".join(bad[:6]) or (p.stdout + p.stderr)[-1500:])
    else:
        R.oblige("lake build " + " ".join(spec.lean_modules), True)
    hits = lean_source_audit(lean_module_files(spec.lean_modules))
    R.oblige("source audit (no sorry/admit/axiom/native_decide/unsafe)", not hits, str(hits))
    if p.returncode == 0:
        ok, bad = lean_axiom_audit(spec.prop, spec.lean_modules, spec.theorems, spec.extra_axioms)
        for t, ax in ok:
            R.oblige("theorem " + t, True)
            for a in ax:
                if a not in ALLOWED_AXIOMS:
                    R.bv_axioms.add(a.split("._native")[0])
        for t, d in bad:
            R.oblige("theorem " + t, False, d)
    else:
        for t in spec.theorems:
            R.oblige("theorem " + t, False, "proof modules do not build")


def dynamic_stage(spec, R, rng, n, burst=False):
    """correspondence + oracle on n generated cases (+ corpus). Returns number of disagreements."""
    go = go_build_driver(spec.go_driver)
    lean = lean_driver(spec.lean_driver) if spec.lean_driver else None
    lines = ([] if burst else corpus_lines(spec.prop)) + spec.cases(rng, n)
    t0 = time.time()
    go_out = run_lines(go, lines, env=goenv())
    t1 = time.time()
    lean_out = run_lines(lean, lines) if lean else [None] * len(lines)
    log("[%s] %d cases: go %.1fs, lean %.1fs" % (spec.prop, len(lines), t1 - t0, time.time() - t1))
    disagreements = []
    for line, g, l in zip(lines, go_out, lean_out):
        R.evaluations += 1
        R.count("kind:" + spec.kind(line))
        k = spec.nontrivial(line, g)
        if k is not None:
            R.nontrivial.add(k)
        kd = spec.kind(line)
        if len(R.samples) < 12 and R.hist.get("kind:" + kd, 0) <= 2 or (len(R.samples) < 12 and rng.random() < 0.001):
            R.samples.append({"case": line[:400], "impl": g[:400], "model": (l or "")[:400]})
        v = spec.oracle(line, g)
        if v is not None:
            if v[0] == "known" and v[1] not in {k["id"] for k in load_known(spec.prop)}:
                v = ("violation", "(finding %s is not listed in KNOWN_FINDINGS.txt) %s" % (v[1], v[2]))
            if v[0] == "known":
                R.known_hits.setdefault(v[1], "%s | case: %s" % (v[2], line[:200]))
                R.count("known:" + v[1])
                continue  # model is of the repaired/intended behaviour; do not diff known-bad points
            else:
                R.count("oracle-violations")
                if sum(1 for x in R.violations if x["kind"] == "oracle") < 5:
                    def _still_fails(ln):
                        vv = spec.oracle(ln, run_lines(go, [ln], env=goenv())[0])
                        return vv is not None and vv[0] == "violation"
                    small = spec.shrink(line, _still_fails)
                    gs = run_lines(go, [small], env=goenv())[0] if small != line else g
                    R.violation("oracle", v[1], {"case": small, "impl_output": gs, "original_case": line,
                                                 "driver": spec.go_driver, "how": "echo '<case>' | .build/bin/drv_%s" % spec.go_driver})
                continue
        if l is not None and not spec.compare(line, g, l):
            disagreements.append((line, g, l))
    R.count("disagreements", len(disagreements))
    return disagreements


def std_check(spec, tier):
    seed = seed_from_env()
    rng = Rng(seed * 1000003 + sum(map(ord, spec.prop)))
    R = Result(spec.prop, tier, seed, spec.level)
    R.assumptions = list(spec.assumptions)
    n = spec.counts[tier]
    try:
        static_stage(spec, R)
        dis = dynamic_stage(spec, R, rng, n)
        if dis:
            R.oblige("correspondence model=implementation", False,
                     "%d disagreements; first: case=%s impl=%s model=%s" % (len(dis), dis[0][0][:300], dis[0][1][:300], dis[0][2][:300]))
        else:
            R.oblige("correspondence model=implementation on %d cases" % R.evaluations, True)
        spec.extra(R, tier, rng)
        broken = [o for o in R.obligations if not o[1]]
        if broken and not any(v["kind"] == "oracle" for v in R.violations):
            # proof or correspondence no longer checks: search the implementation for a failing input
            log("[%s] obligations broken (%s); directed search on the implementation" % (spec.prop, broken[0][0]))
            before = len(R.violations)
            seeds = [d[0] for d in dis[:200]]
            if hasattr(spec, "directed"):
                extra_lines = spec.directed(rng, seeds, n * 10)
                go = go_build_driver(spec.go_driver)
                outs = run_lines(go, extra_lines, env=goenv())
                for line, g in zip(extra_lines, outs):
                    v = spec.oracle(line, g)
                    if v is not None and v[0] == "violation":
                        R.violation("oracle", v[1], {"case": line, "impl_output": g, "driver": spec.go_driver, "found_by": "directed search"})
                        break
            else:
                dynamic_stage(spec, R, rng, n * 10, burst=True)
            if len(R.violations) == before and dis:
                d = dis[0]
                R.violation("correspondence", "model and implementation disagree; property oracle found no failing input",
                            {"broken": [o[0] for o in broken], "case": d[0], "impl_output": d[1], "model_output": d[2]}, no_input=True)
    except BuildError as e:
        R.oblige("build", False, str(e)[-3000:])
    checker = "cd /verif/lean && lake build %s && lake env lean ../.build/audit/Audit_%s.lean  (# print axioms)" % (" ".join(spec.lean_modules), spec.prop)
    return R.finish(spec.trusted_base, checker, spec.rule)


def std_replay(spec, path):
    """Re-run the case stored in a replay file on the current tree and print both sides."""
    obj = json.load(open(path))
    rp = obj.get("replay", {})
    case = rp.get("case")
    if not case:
        print(json.dumps(obj, indent=1))
        return 0
    go = go_build_driver(spec.go_driver)
    g = run_lines(go, [case], env=goenv())[0]
    print("case :", case)
    print("impl :", g)
    if spec.lean_driver:
        print("model:", run_lines(lean_driver(spec.lean_driver), [case])[0])
    v = spec.oracle(case, g)
    print("oracle:", v)
    return 1 if (v and v[0] == "violation") else 0
