#!/usr/bin/env python3
"""Run the pinned baseline command on /repo (hooks off: plain `go test`) and compare with BASELINE.json stable_pass."""
import json, os, subprocess, sys, tempfile
repo = sys.argv[1] if len(sys.argv) > 1 else "/repo"
base = json.load(open("/root/.vp/BASELINE.json"))
env = dict(os.environ); env["GOFLAGS"] = "-mod=mod"; env["GOPROXY"] = "off"; env.pop("GOTOOLCHAIN", None); env.pop("GOSUMDB", None)
with tempfile.NamedTemporaryFile("w+", suffix=".json") as f:
    subprocess.run("go test -mod=mod -json -vet=off -count=1 -timeout 25m ./... > %s 2>/dev/null" % f.name, shell=True, cwd=repo, env=env)
    passed, failed = set(), set()
    for line in open(f.name, errors="replace"):
        if not line.startswith("{"):
            continue
        try:
            ev = json.loads(line)
        except ValueError:
            continue
        if ev.get("Test") and ev.get("Action") in ("pass", "fail"):
            (passed if ev["Action"] == "pass" else failed).add(ev.get("Package", "") + "::" + ev["Test"])
passed -= failed
want = set(base["stable_pass"])
missing = sorted(want - passed)
print("pinned %d, passing %d, missing %d" % (len(want), len(want & passed), len(missing)))
for m in missing[:30]:
    print("  MISSING", m)
sys.exit(1 if missing else 0)
