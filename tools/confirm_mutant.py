#!/usr/bin/env python3
"""confirm_mutant.py <Cxx> <mutant dir> [--no-check] [--tier quick]

Confirms a seeded change independently (scratch worktrees under /tmp/cm, removed afterwards):
  1. the demonstration passes on the unmodified tree,
  2. the patch applies, the touched packages build,
  3. the demonstration fails with the patch,
  4. the pinned baseline suite (BASELINE.json stable_pass) still passes with the patch (plain worktree,
     no generated pb files – exactly what the baseline runs on),
  5. the mutant author's "existing tests" command passes with the patch (worktree with pb files),
  6. runs `VERIF_REPO=<worktree> bin/check Cxx` and records whether it reports VIOLATION.
Then stores /verif/seeded/<Cxx>-<name>/ {patch.diff, demo files, meta.json}.
"""
import json
import os
import shutil
import subprocess
import sys
import time

VERIF = os.path.dirname(os.path.dirname(os.path.abspath(__file__)))


def sh(cmd, cwd=None, env=None, timeout=3600):
    p = subprocess.run(cmd, cwd=cwd, env=env, shell=True, stdout=subprocess.PIPE, stderr=subprocess.STDOUT, text=True, timeout=timeout)
    return p.returncode, p.stdout


def goenv():
    e = dict(os.environ)
    e["GOFLAGS"] = "-mod=mod"
    e["GOPROXY"] = "off"
    e.pop("GOTOOLCHAIN", None)
    e.pop("GOSUMDB", None)
    return e


def main():
    prop, mdir = sys.argv[1], os.path.abspath(sys.argv[2])
    run_check = "--no-check" not in sys.argv
    tier = sys.argv[sys.argv.index("--tier") + 1] if "--tier" in sys.argv else "quick"
    name = os.path.basename(mdir.rstrip("/"))
    src = os.path.basename(os.path.dirname(os.path.dirname(mdir)))  # /tmp/mut/<Cyy>/out/<name>
    tag = "%s-%s" % (prop, name) if src == prop or not src.startswith("C") else "%s-from%s%s" % (prop, src, name)
    meta = json.load(open(os.path.join(mdir, "meta.json")))
    wt = "/tmp/cm/%s" % tag
    wtp = "/tmp/cm/%s-plain" % tag
    os.makedirs("/tmp/cm", exist_ok=True)
    for d in (wt, wtp):
        if os.path.exists(d):
            sh("git -C /repo worktree remove --force %s" % d)
            shutil.rmtree(d, ignore_errors=True)
    res = {"at": time.strftime("%Y-%m-%dT%H:%M:%S"), "repo_head": sh("git -C /repo rev-parse --short HEAD")[1].strip()}
    try:
        rc, out = sh("%s/tools/mkworktree.sh %s" % (VERIF, wt))
        assert rc == 0, out
        # the demo commands refer to out/<name>/...
        os.makedirs(os.path.join(wt, "out"), exist_ok=True)
        shutil.copytree(mdir, os.path.join(wt, "out", name))
        # other helper files of the author (e.g. mock generation scripts) live next to the mutant dirs
        for f in os.listdir(os.path.dirname(mdir)):
            src = os.path.join(os.path.dirname(mdir), f)
            if os.path.isfile(src):
                shutil.copy(src, os.path.join(wt, "out", f))
            elif f == "bin" and os.path.isdir(src):
                shutil.copytree(src, os.path.join(wt, "out", "bin"))
        import re as _re0
        demo = _re0.sub(r"/tmp/mut/C\d+", wt, meta["demo_cmd"])
        if meta.get("existing_tests_cmd"):
            meta["existing_tests_cmd"] = _re0.sub(r"/tmp/mut/C\d+", wt, meta["existing_tests_cmd"])

        def failed(rc, out):
            import re as _re
            return rc != 0 or _re.search(r"(?m)^(--- FAIL|FAIL|panic:)", out) is not None
        rc, out = sh(demo, cwd=wt, env=goenv())
        res["demo_clean_rc"] = rc
        res["demo_clean_failed"] = failed(rc, out)
        res["demo_clean_tail"] = out[-600:]
        sh("git clean -fdq -e out . && git checkout -q -- .", cwd=wt)
        rc, out = sh("git apply %s" % os.path.join(mdir, "patch.diff"), cwd=wt)
        res["apply_rc"] = rc
        pkgs = sorted({"./" + os.path.dirname(f) for f in meta.get("files", []) if f.endswith(".go")})
        rc, out = sh("go build %s" % " ".join(pkgs), cwd=wt, env=goenv())
        res["build_rc"] = rc
        res["build_tail"] = out[-600:]
        rc, out = sh(demo, cwd=wt, env=goenv())
        res["demo_mutant_rc"] = rc
        res["demo_mutant_failed"] = failed(rc, out)
        res["demo_mutant_tail"] = out[-1200:]
        # remove demo leftovers but keep the patch applied
        sh("git clean -fdq -e out .", cwd=wt)
        if meta.get("existing_tests_cmd"):
            rc, out = sh(meta["existing_tests_cmd"], cwd=wt, env=goenv())
            res["existing_tests_rc"] = rc
            res["existing_tests_tail"] = out[-800:]
        # baseline on a plain worktree
        sh("git -C /repo worktree add --detach %s HEAD" % wtp)
        rc, out = sh("git apply %s" % os.path.join(mdir, "patch.diff"), cwd=wtp)
        base = json.load(open("/root/.vp/BASELINE.json"))
        logf = "/tmp/cm/%s.gotest.json" % tag
        sh("go test -mod=mod -json -vet=off -count=1 -timeout 25m ./... > %s 2>/dev/null" % logf, cwd=wtp, env=goenv(), timeout=3000)
        passed, failed = set(), set()
        for line in open(logf, errors="replace"):
            line = line.strip()
            if not line.startswith("{"):
                continue
            try:
                ev = json.loads(line)
            except ValueError:
                continue
            if ev.get("Test") and ev.get("Action") in ("pass", "fail"):
                tid = ev.get("Package", "") + "::" + ev["Test"]
                (passed if ev["Action"] == "pass" else failed).add(tid)
        passed -= failed
        want = set(base["stable_pass"])
        missing = sorted(want - passed)
        res["baseline_pinned"] = len(want)
        res["baseline_pinned_passing_with_mutant"] = len(want & passed)
        res["baseline_missing"] = missing[:20]
        os.remove(logf)
        if run_check:
            env = dict(os.environ)
            env["VERIF_REPO"] = wt
            env["VERIF_TIER"] = tier
            env["VERIF_EVIDENCE_DIR"] = "/tmp/cm/evidence-%s" % tag  # never overwrite the committed evidence
            t0 = time.time()
            rc, out = sh("bin/check %s --tier %s" % (prop, tier), cwd=VERIF, env=env, timeout=7200)
            res["check_rc"] = rc
            res["check_wall_s"] = round(time.time() - t0, 1)
            vl = [l for l in out.split("\n") if l.startswith("VIOLATION")]
            res["check_verdict_lines"] = vl[:6] + [l[:200] for l in out.split("\n") if l.startswith("KNOWN-FINDING")][:6]
            res["check_tail"] = out[-1500:]
    finally:
        for d in (wt, wtp):
            sh("git -C /repo worktree remove --force %s" % d)
            shutil.rmtree(d, ignore_errors=True)
        sh("git -C /repo worktree prune")
    ok = (res.get("demo_clean_failed") is False and res.get("apply_rc") == 0 and res.get("build_rc") == 0
          and res.get("demo_mutant_failed") is True and not res.get("baseline_missing"))
    res["confirmed"] = bool(ok)
    if run_check:
        res["detected"] = res.get("check_rc") == 1 and any(l.startswith("VIOLATION") for l in res.get("check_verdict_lines", []))
    dst = os.path.join(VERIF, "seeded", tag)
    if ok:
        os.makedirs(dst, exist_ok=True)
        for f in os.listdir(mdir):
            if f != "meta.json":
                shutil.copy(os.path.join(mdir, f), os.path.join(dst, f))
        m = {"property": prop, "summary": meta.get("summary"), "needs": meta.get("needs"), "files": meta.get("files"),
             "demo_cmd": meta.get("demo_cmd"), "author_existing_tests_cmd": meta.get("existing_tests_cmd"),
             "what_i_ran": res}
        json.dump(m, open(os.path.join(dst, "meta.json"), "w"), indent=1)
    print(json.dumps({k: v for k, v in res.items() if not k.endswith("_tail")}, indent=1))
    print("CONFIRMED" if ok else "NOT-CONFIRMED", tag, "detected=%s" % res.get("detected"))
    return 0


if __name__ == "__main__":
    sys.exit(main())
