"""Facts for C01: variable-length array escaping of the measure engine, shape of the value decoders."""
import re


def facts(repo, f, H):
    f["entityDelimiter"] = H.const(repo, "banyand/measure/datapoints.go", "entityDelimiter")
    f["escape"] = H.const(repo, "banyand/measure/datapoints.go", "escape")
    src = re.sub(r"\s+", " ", H.strip_comments(H.read(repo, "banyand/measure/datapoints.go")))
    # nameValue.marshal: int arrays are concatenated, every other array goes through marshalVarArray; a nil valueArr means `value`
    want = ("func (n *nameValue) marshal() []byte { if n.valueArr != nil { var dst []byte for i := range n.valueArr { "
            "if n.valueType == pbv1.ValueTypeInt64Arr { dst = append(dst, n.valueArr[i]...) continue } "
            "dst = marshalVarArray(dst, n.valueArr[i]) } return dst } return n.value }")
    if want not in src:
        raise ValueError("banyand/measure/datapoints.go: unrecognised nameValue.marshal")
    q = re.sub(r"\s+", " ", H.strip_comments(H.read(repo, "banyand/measure/query.go")))
    for frag in ("func mustDecodeTagValue(valueType pbv1.ValueType, value []byte) *modelv1.TagValue { if value == nil { return pbv1.NullTagValue }",
                 "func mustDecodeFieldValue(valueType pbv1.ValueType, value []byte) *modelv1.FieldValue { if value == nil { switch valueType { "
                 "case pbv1.ValueTypeStr: return pbv1.EmptyStrFieldValue case pbv1.ValueTypeBinaryData: return pbv1.EmptyBinaryFieldValue "
                 "default: return pbv1.NullFieldValue } }"):
        if frag not in q:
            raise ValueError("banyand/measure/query.go: unrecognised nil handling in the value decoders")
    f["valueShape"] = True
