"""Facts for C02 (shared by C03, C01): block limits and the shape of the version tie-breaks of the measure engine."""
import re


def _norm(s):
    return re.sub(r"\s+", " ", s)


def body(repo, rel, sig, H):
    """source of the function whose header matches sig; the body starts at the first '{' that ends a line
    (signatures may contain `struct{}`)"""
    src = H.read(repo, rel)
    m = re.search(sig, src)
    if not m:
        raise ValueError("%s: function /%s/ not found" % (rel, sig))
    i = src.index("{\n", m.end())
    depth, j = 0, i
    while j < len(src):
        if src[j] == "{":
            depth += 1
        elif src[j] == "}":
            depth -= 1
            if depth == 0:
                return src[i:j + 1]
        j += 1
    raise ValueError("%s: unbalanced braces after /%s/" % (rel, sig))


def facts(repo, f, H):
    f["maxBlockLength"] = H.const(repo, "banyand/measure/measure.go", "maxBlockLength")
    f["maxUncompressedBlockSize"] = H.const(repo, "banyand/measure/measure.go", "maxUncompressedBlockSize")

    init = _norm(H.strip_comments(body(repo, "banyand/measure/part.go", r"func \(mp \*memPart\) mustInitFromDataPoints\(", H)))
    guarded = "if i == 0 { sidPrev = sid }" in init and "if i > indexPrev && tsPrev == dps.timestamps[i] {" in init
    legacy = "if sidPrev == 0 { sidPrev = sid }" in init and "if tsPrev == dps.timestamps[i] {" in init
    if guarded == legacy:
        raise ValueError("banyand/measure/part.go: unrecognised duplicate test in mustInitFromDataPoints")
    f["initGuarded"] = guarded
    if "sort.Sort(dps)" not in init:
        raise ValueError("banyand/measure/part.go: mustInitFromDataPoints no longer sorts with sort.Sort(dps)")
    if "(i-indexPrev) > maxBlockLength" not in init or "uncompressedBlockSizeBytes >= maxUncompressedBlockSize" not in init:
        raise ValueError("banyand/measure/part.go: unrecognised block split condition")
    f["memSplitAfter"] = True      # a block is closed once it holds MORE than maxBlockLength rows

    less = _norm(H.strip_comments(body(repo, "banyand/measure/datapoints.go", r"func \(d \*dataPoints\) Less\(", H)))
    want = ("if d.seriesIDs[i] != d.seriesIDs[j] { return d.seriesIDs[i] < d.seriesIDs[j] } "
            "if d.timestamps[i] != d.timestamps[j] { return d.timestamps[i] < d.timestamps[j] } "
            "return d.versions[i] > d.versions[j]")
    if want not in less:
        raise ValueError("banyand/measure/datapoints.go: unrecognised dataPoints.Less")
    f["lessVersionDesc"] = True

    mtb = _norm(H.strip_comments(body(repo, "banyand/measure/merger.go", r"func mergeTwoBlocks\(", H)))
    if "if left.versions[i-1] >= right.versions[right.idx] { target.append(left, i) } else {" not in mtb:
        raise ValueError("banyand/measure/merger.go: unrecognised version comparison in mergeTwoBlocks")
    if "left.timestamps[i] <= ts2" not in mtb or "left, right = right, left" not in mtb:
        raise ValueError("banyand/measure/merger.go: unrecognised loop shape in mergeTwoBlocks")
    f["mergeLeftWinsTie"] = True

    mb = _norm(H.strip_comments(body(repo, "banyand/measure/merger.go", r"func mergeBlocks\(", H)))
    for frag in ("pendingBlock.bm.seriesID != b.bm.seriesID || (pendingBlock.isFull() && pendingBlock.bm.timestamps.max <= b.bm.timestamps.min)",
                 "len(tmpBlock.timestamps) <= maxBlockLength && tmpBlock.uncompressedSizeBytes() <= maxUncompressedBlockSize",
                 "tmpBlock.idx = maxBlockLength"):
        if frag not in mb:
            raise ValueError("banyand/measure/merger.go: unrecognised shape of mergeBlocks (%s)" % frag[:40])
    f["mergeBlocksShape"] = True

    qm = _norm(H.strip_comments(body(repo, "banyand/measure/query.go", r"func \(qr \*queryResult\) merge\(", H)))
    if "} else if topBC.versions[topBC.idx] > lastVersion { topBC.replace(result, storedIndexValue) }" not in qm:
        raise ValueError("banyand/measure/query.go: unrecognised replace condition in queryResult.merge")
    if "if lastSid != 0 && topBC.bm.seriesID != lastSid { return result }" not in qm:
        raise ValueError("banyand/measure/query.go: unrecognised series boundary in queryResult.merge")
    f["queryReplaceStrict"] = True

    ql = _norm(H.strip_comments(body(repo, "banyand/measure/query.go", r"func \(qr queryResult\) Less\(", H)))
    if ql.count("return leftVersion > rightVersion") != 2:
        raise ValueError("banyand/measure/query.go: unrecognised queryResult.Less")
    f["queryLessVersionDesc"] = True

    # the columnar read path: queryResult.PullBatch / mergeBatch (query_batch.go)
    f["mergeBatchMaxRows"] = H.const(repo, "banyand/measure/query_batch.go", "mergeBatchMaxRows")
    pb = _norm(H.strip_comments(body(repo, "banyand/measure/query_batch.go", r"func \(qr \*queryResult\) PullBatch\(", H)))
    if "if len(qr.data) == 1 { bc := qr.data[0]" not in pb or "bc.copyAllToBatch(b, qr.batchSchema, qr.storedIndexValue, qr.orderByTimestampDesc()) qr.data = qr.data[:0]" not in pb:
        raise ValueError("banyand/measure/query_batch.go: unrecognised single-cursor fast path in PullBatch")
    mbt = _norm(H.strip_comments(body(repo, "banyand/measure/query_batch.go", r"func \(qr \*queryResult\) mergeBatch\(", H)))
    dup = "b.RowCount() > 0 && topBC.timestamps[topBC.idx] == b.Timestamps[len(b.Timestamps)-1]"
    legacy = ("for qr.Len() > 0 && b.RowCount() < mergeBatchMaxRows { topBC := qr.data[0]" in mbt
              and "lastSid = topBC.bm.seriesID if " + dup + " {" in mbt)
    fixed = ("for qr.Len() > 0 { topBC := qr.data[0]" in mbt
             and "lastSid = topBC.bm.seriesID isDuplicate := " + dup + " if b.RowCount() >= mergeBatchMaxRows && !isDuplicate { break } if isDuplicate {" in mbt)
    if legacy == fixed:
        raise ValueError("banyand/measure/query_batch.go: unrecognised loop / batch cut in mergeBatch")
    f["batchCutBetweenPoints"] = fixed
    for frag in ("if lastSid != 0 && topBC.bm.seriesID != lastSid { break } lastSid = topBC.bm.seriesID",
                 "if topBC.versions[topBC.idx] > lastVersion { topBC.replaceInBatch(b, schema, storedIndexValue) lastVersion = topBC.versions[topBC.idx] } "
                 "} else { topBC.copyToBatch(b, schema, storedIndexValue) lastVersion = topBC.versions[topBC.idx] } topBC.idx += step"):
        if frag not in mbt:
            raise ValueError("banyand/measure/query_batch.go: unrecognised shape of mergeBatch (%s)" % frag[:40])
    if "b := newMeasureBatchForSchema(schema, mergeBatchMaxRows) var lastVersion int64 var lastSid common.SeriesID for qr.Len() > 0" not in mbt:
        raise ValueError("banyand/measure/query_batch.go: mergeBatch no longer starts every batch from scratch")
    f["batchReplaceStrict"] = True

    # liaison-side merge of node answers: sortedMIterator.loadOneGroup (the parts of a series may live on several nodes)
    rel = "pkg/query/logical/measure/measure_plan_distributed.go"
    log = _norm(H.strip_comments(body(repo, rel, r"func \(s \*sortedMIterator\) loadOneGroup\(", H)))
    for frag in ("first := s.Iterator.Val() s.uniqueData[hashDataPoint(first.GetDataPoint())] = first.InternalDataPoint",
                 "v := s.Iterator.Val() if bytes.Equal(first.SortedField(), v.SortedField()) { key := hashDataPoint(v.GetDataPoint()) "
                 "if existed, ok := s.uniqueData[key]; ok { if v.GetDataPoint().Version > existed.GetDataPoint().Version { "
                 "s.uniqueData[key] = v.InternalDataPoint } } else { s.uniqueData[key] = v.InternalDataPoint } } else { break }"):
        if frag not in log:
            raise ValueError(rel + ": unrecognised version de-dup in sortedMIterator.loadOneGroup (%s)" % frag[:40])
    hd = _norm(H.strip_comments(body(repo, rel, r"func hashDataPoint\(", H)))
    if ("h = (h ^ dp.Sid) * prime64 h = (h ^ uint64(dp.Timestamp.Seconds)) * prime64 h = (h ^ uint64(dp.Timestamp.Nanos)) * prime64 return h"
            not in hd):
        raise ValueError(rel + ": hashDataPoint no longer keys on (sid, timestamp)")
    f["nodeDedupGreaterVersion"] = True
