"""Facts for C03: typed column names used when tag types conflict across merged parts (banyand/measure/column.go)."""
import re


def facts(repo, f, H):
    src = H.strip_comments(H.read(repo, "banyand/measure/column.go"))
    m = re.search(r'const\s+typedColumnSeparator\s*=\s*"([^"\\]*)"', src)
    if not m or len(m.group(1)) != 1:
        raise ValueError("banyand/measure/column.go: typedColumnSeparator not found / not a single character")
    f["typedSeparator"] = ord(m.group(1))
    m = re.search(r"valueTypeToSuffix\s*=\s*map\[pbv1\.ValueType\]string\{(.*?)\n\t\}", src, re.S)
    if not m:
        raise ValueError("banyand/measure/column.go: valueTypeToSuffix not found")
    tab = dict(re.findall(r'pbv1\.ValueType(\w+):\s*"([^"]*)"', m.group(1)))
    want = ["Str", "Int64", "BinaryData", "StrArr", "Int64Arr"]
    for k in want:
        if k not in tab:
            raise ValueError("banyand/measure/column.go: valueTypeToSuffix lacks %s" % k)
    f["typedSuffixes"] = [tab[k] for k in want]     # order: s i b A I
    body = src[src.index("func encodeTypedColumn("):]
    body = re.sub(r"\s+", " ", body[:body.index("func decodeTypedColumn(")])
    if "return name + typedColumnSeparator + suffix" not in body:
        raise ValueError("banyand/measure/column.go: unrecognised encodeTypedColumn")
    f["typedShape"] = True
