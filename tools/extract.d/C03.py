"""Facts for C03: typed column names used when tag types conflict across merged parts (banyand/measure/column.go)."""
import re


def facts(repo, f, H):
    src = H.strip_comments(H.read(repo, "banyand/measure/column.go"))
    m = re.search(r'const\s+typedColumnSeparator\s*=\s*"([^"\\]*)"', src)
    if not m or len(m.group(1)) != 1:
        raise ValueError("banyand/measure/column.go: typedColumnSeparator not found / not a single character")
    f["typedSeparator"] = ord(m.group(1))
    m = re.search(r"valueTypeToSuffix\s*=\s*map\[pbv1\.ValueType\]string\{(.*?)\n\t\}", src, re.S)
    if not m:
        raise ValueError("banyand/measure/column.go: valueTypeToSuffix not found")
    tab = dict(re.findall(r'pbv1\.ValueType(\w+):\s*"([^"]*)"', m.group(1)))
    want = ["Str", "Int64", "BinaryData", "StrArr", "Int64Arr"]
    for k in want:
        if k not in tab:
            raise ValueError("banyand/measure/column.go: valueTypeToSuffix lacks %s" % k)
    f["typedSuffixes"] = [tab[k] for k in want]     # order: s i b A I
    body = src[src.index("func encodeTypedColumn("):]
    body = re.sub(r"\s+", " ", body[:body.index("func decodeTypedColumn(")])
    if "return name + typedColumnSeparator + suffix" not in body:
        raise ValueError("banyand/measure/column.go: unrecognised encodeTypedColumn")
    f["typedShape"] = True

    # sidx mergeParts: how the merged part's optional timestamp range is aggregated
    m = re.sub(r"\s+", " ", H.strip_comments(H.read(repo, "banyand/internal/sidx/merge.go")))
    legacy = ("if p.MinTimestamp != nil { if !hasMinTS || *p.MinTimestamp < minVal { minVal = *p.MinTimestamp hasMinTS = true } } "
              "if p.MaxTimestamp != nil { if !hasMaxTS || *p.MaxTimestamp > maxVal { maxVal = *p.MaxTimestamp hasMaxTS = true } } } "
              "if hasMinTS && hasMaxTS { pm.MinTimestamp = &minVal pm.MaxTimestamp = &maxVal }")
    fixed = ("if p.MinTimestamp == nil || p.MaxTimestamp == nil { hasRange = false break } "
             "if i == 0 || *p.MinTimestamp < minVal { minVal = *p.MinTimestamp } "
             "if i == 0 || *p.MaxTimestamp > maxVal { maxVal = *p.MaxTimestamp } } "
             "if hasRange { pm.MinTimestamp = &minVal pm.MaxTimestamp = &maxVal }")
    if (legacy in m) == (fixed in m):
        raise ValueError("banyand/internal/sidx/merge.go: unrecognised aggregation of the merged part's timestamp range")
    f["sidxHullAllOrNone"] = fixed in m
    pw = re.sub(r"\s+", " ", H.strip_comments(H.read(repo, "banyand/internal/sidx/part_wrapper.go")))
    if ("if pm.MinTimestamp == nil || pm.MaxTimestamp == nil { return true } "
            "if *pm.MaxTimestamp < minTS || *pm.MinTimestamp > maxTS { return false } return true") not in pw:
        raise ValueError("banyand/internal/sidx/part_wrapper.go: unrecognised overlapsTimestampRange")
    f["sidxOverlapsShape"] = True
