"""Facts for C04: names and order of the files of a measure part, manifest/tmp suffixes, and the order of the
durability-relevant calls in WriteAtomic / mustFlush / mergeParts (syntactic; fails closed)."""
import re


def _string_consts(src):
    """name -> value for `name = "lit"` and `name = other + "lit"` inside const blocks"""
    vals = {}
    for m in re.finditer(r'^\s*([A-Za-z_]\w*)\s*=\s*("(?:[^"\\]|\\.)*"|[A-Za-z_]\w*\s*\+\s*"(?:[^"\\]|\\.)*")\s*$', src, re.M):
        vals[m.group(1)] = m.group(2)
    out = {}

    def ev(name, depth=0):
        if depth > 5:
            raise ValueError("cyclic const " + name)
        e = vals[name]
        if e.startswith('"'):
            return e[1:-1]
        a, b = [x.strip() for x in e.split("+")]
        return ev(a, depth + 1) + b[1:-1]
    for k in vals:
        try:
            out[k] = ev(k)
        except KeyError:
            pass
    return out


def _body(H, repo, rel, header):
    """text of a top-level function: from its header to the closing brace in column 0 (H.func_body is fooled by
    `struct{}` in parameter lists)"""
    src = H.read(repo, rel)
    i = src.find(header)
    if i < 0:
        raise ValueError("%s: %s not found" % (rel, header))
    j = src.find("\n}\n", i)
    if j < 0:
        raise ValueError("%s: end of %s not found" % (rel, header))
    return H.strip_comments(src[i:j + 3])


def facts(repo, f, H):
    part = H.strip_comments(H.read(repo, "banyand/measure/part.go"))
    c = _string_consts(part)
    for lean, go in [("metaFilename", "metaFilename"), ("primaryFilename", "primaryFilename"),
                     ("timestampsFilename", "timestampsFilename"), ("fieldValuesFilename", "fieldValuesFilename"),
                     ("metadataFilename", "metadataFilename"), ("tagTypeFilename", "tagTypeFilename"),
                     ("tagFamiliesFilenameExt", "tagFamiliesFilenameExt"),
                     ("tagFamiliesMetadataFilenameExt", "tagFamiliesMetadataFilenameExt")]:
        if go not in c:
            raise ValueError("part.go: constant %s not found" % go)
        f[lean] = c[go]
    tst = H.strip_comments(H.read(repo, "banyand/measure/tstable.go"))
    cs = _string_consts(tst)
    if "snapshotSuffix" not in cs:
        raise ValueError("tstable.go: snapshotSuffix not found")
    f["snapshotSuffix"] = cs["snapshotSuffix"]
    # WriteAtomic: tmp suffix and call order
    wa = _body(H, repo, "pkg/fs/local_file_system.go", "func (fs *localFileSystem) WriteAtomic(")
    m = re.search(r'tmpName\s*:=\s*name\s*\+\s*"([^"]*)"', wa)
    if not m:
        raise ValueError("WriteAtomic: tmpName := name + \"...\" not found")
    f["tmpSuffix"] = m.group(1)
    order = []
    for tok, pat in [("open", r"os\.OpenFile\(tmpName"), ("write", r"file\.Write\(buffer\)"), ("fsync", r"file\.Sync\(\)"),
                     ("close", r"closeErr\s*:=\s*file\.Close\(\)"), ("rename", r"os\.Rename\(tmpName,\s*name\)"),
                     ("fsyncdir", r"syncDir\(parentDir\)")]:
        mm = re.search(pat, wa)
        if not mm:
            raise ValueError("WriteAtomic: %s call not found" % tok)
        order.append((mm.start(), tok))
    f["writeAtomicOrder"] = [t for _, t in sorted(order)]
    # mustFlush: order of the files
    mf = _body(H, repo, "banyand/measure/part.go", "func (mp *memPart) mustFlush(")
    seq = []
    for mm in re.finditer(r"MkdirPanicIfExist|filepath\.Join\(path,\s*([A-Za-z]\w*|name\s*\+\s*\w+)\)|mustWriteTagType|mustWriteMetadata", mf):
        g = mm.group(0)
        if g == "MkdirPanicIfExist":
            seq.append("mkdir")
        elif g == "mustWriteTagType":
            seq.append("tagType")
        elif g == "mustWriteMetadata":
            seq.append("metadata")
        else:
            a = mm.group(1).replace(" ", "")
            seq.append({"metaFilename": "meta", "primaryFilename": "primary", "timestampsFilename": "timestamps",
                        "fieldValuesFilename": "fv", "name+tagFamiliesFilenameExt": "tf",
                        "name+tagFamiliesMetadataFilenameExt": "tfm", "seriesMetadataFilename": "smeta"}.get(a, "?" + a))
    f["mustFlushOrder"] = seq
    # mergeParts: tag.type, then metadata.json, after the block writer was flushed
    mp = _body(H, repo, "banyand/measure/merger.go", "func (tst *tsTable) mergeParts(")
    seq = []
    for mm in re.finditer(r"mustInitForFilePart|mergeBlocks\(|mustWriteTagType|mustWriteMetadata|mustOpenFilePart", mp):
        seq.append(mm.group(0).rstrip("("))
    if not seq:
        raise ValueError("mergeParts: no recognised calls")
    f["mergePartsOrder"] = seq
    # persistSnapshot goes through MustFlushAtomic
    mws = _body(H, repo, "banyand/measure/tstable.go", "func (tst *tsTable) mustWriteSnapshot(")
    f["snapshotWrittenAtomically"] = "fs.MustFlushAtomic(" in mws
    # replaceSnapshot: persist after swapping; introducer loop: gc.clean after the introduction
    il = _body(H, repo, "banyand/measure/introducer.go", "func (tst *tsTable) introducerLoop(")
    f["cleanAfterIntroduceFlushed"] = bool(re.search(r"tst\.introduceFlushed\(next, epoch\)[^}]*?tst\.gc\.clean\(\)", il, re.S))
    f["cleanAfterIntroduceMerged"] = bool(re.search(r"tst\.introduceMerged\(next, epoch\)[^}]*?tst\.gc\.clean\(\)", il, re.S))
