"""Facts for C05: the exact text (comments stripped, whitespace collapsed) of the functions whose op-level atomicity and
reference-count arithmetic the Lean model mirrors.  `lean/Banyan/Tie/C05.lean` compares them with the text the model
was written against, so any edit of these functions breaks the tie and forces the model to be re-read against the code.
Also: stream/ and trace/ carry the same snapshot / partWrapper code as measure/ (booleans)."""
import re


def norm(H, body):
    return re.sub(r"\s+", " ", H.strip_comments(body)).strip()


def fn(H, repo, rel, recv, name):
    """normalised body of `func (<recv>) <name>(...) ... {body}`; the body brace is the first `{` outside parentheses
    (so `map[uint64]struct{}` in a parameter list is skipped)"""
    src = H.read(repo, rel)
    sig = r"func \(%s\) %s\(" % (re.escape(recv), re.escape(name)) if recv else r"func %s\(" % re.escape(name)
    m = re.search(sig, src)
    if not m:
        raise ValueError("%s: func %s %s not found" % (rel, recv, name))
    i, depth = m.end() - 1, 0
    while i < len(src):
        c = src[i]
        if c == "(":
            depth += 1
        elif c == ")":
            depth -= 1
        elif c == "{" and depth == 0:
            break
        i += 1
    else:
        raise ValueError("%s: no body for %s" % (rel, name))
    j, d = i, 0
    while j < len(src):
        if src[j] == "{":
            d += 1
        elif src[j] == "}":
            d -= 1
            if d == 0:
                return norm(H, src[i:j + 1])
        j += 1
    raise ValueError("%s: unbalanced braces in %s" % (rel, name))


def facts(repo, f, H):
    m = "banyand/measure/"
    f["currentSnapshot"] = fn(H, repo, m + "snapshot.go", "tst *tsTable", "currentSnapshot")
    f["snapIncRef"] = fn(H, repo, m + "snapshot.go", "s *snapshot", "incRef")
    f["snapDecRef"] = fn(H, repo, m + "snapshot.go", "s *snapshot", "decRef")
    f["copyAllTo"] = fn(H, repo, m + "snapshot.go", "s *snapshot", "copyAllTo")
    f["merge"] = fn(H, repo, m + "snapshot.go", "s *snapshot", "merge")
    f["remove"] = fn(H, repo, m + "snapshot.go", "s *snapshot", "remove")
    f["newPartWrapper"] = fn(H, repo, m + "part.go", "", "newPartWrapper")
    f["partIncRef"] = fn(H, repo, m + "part.go", "pw *partWrapper", "incRef")
    f["partDecRef"] = fn(H, repo, m + "part.go", "pw *partWrapper", "decRef")
    f["introducePart"] = fn(H, repo, m + "introducer.go", "tst *tsTable", "introducePart")
    f["introduceFlushed"] = fn(H, repo, m + "introducer.go", "tst *tsTable", "introduceFlushed")
    f["introduceMerged"] = fn(H, repo, m + "introducer.go", "tst *tsTable", "introduceMerged")
    f["introduceSync"] = fn(H, repo, m + "introducer.go", "tst *tsTable", "introduceSync")
    f["replaceSnapshot"] = fn(H, repo, m + "introducer.go", "tst *tsTable", "replaceSnapshot")
    f["tableClose"] = fn(H, repo, m + "tstable.go", "tst *tsTable", "Close")

    # lock / atomic shape the op-level atomicity rests on (redundant with the texts above, but named)
    cs = f["currentSnapshot"]
    f["currentSnapshotIncRefUnderRLock"] = bool(re.fullmatch(
        r"\{ tst\.RLock\(\) defer tst\.RUnlock\(\) if tst\.snapshot == nil \{ return nil \} s := tst\.snapshot s\.incRef\(\) return s \}", cs))
    rs = f["replaceSnapshot"]
    f["replaceSnapshotUnderLock"] = bool(re.match(
        r"\{ tst\.Lock\(\) defer tst\.Unlock\(\) if tst\.snapshot != nil \{ tst\.snapshot\.decRef\(\) \} tst\.snapshot = next ", rs))
    f["decRefReleasesOnlyAtZero"] = bool(
        re.match(r"\{ n := atomic\.AddInt32\(&s\.ref, -1\) if n > 0 \{ return \} for i := range s\.parts \{ s\.parts\[i\]\.decRef\(\) \}", f["snapDecRef"])
        and re.match(r"\{ n := atomic\.AddInt32\(&pw\.ref, -1\) if n > 0 \{ return \}", f["partDecRef"])
        and "if pw.removable.Load() && pw.p.fileSystem != nil { go func(pw *partWrapper) { pw.p.fileSystem.MustRMAll(pw.p.path) }(pw) }" in f["partDecRef"])

    # stream and trace carry the same code
    def same(pkg, snap_names, lower=False):
        ok = True
        for key, name in snap_names:
            recv = "s *snapshot"
            body = fn(H, repo, "banyand/%s/snapshot.go" % pkg, recv, name)
            if pkg == "trace" and key == "remove":
                body = body.replace("var removedCount int ", "").replace(" removedCount++", "")
            ok = ok and body == f[key]
        ok = ok and fn(H, repo, "banyand/%s/snapshot.go" % pkg, "tst *tsTable", "currentSnapshot") == f["currentSnapshot"]
        ok = ok and fn(H, repo, "banyand/%s/part.go" % pkg, "pw *partWrapper", "decRef") == f["partDecRef"]
        ok = ok and fn(H, repo, "banyand/%s/part.go" % pkg, "pw *partWrapper", "incRef") == f["partIncRef"]
        ok = ok and fn(H, repo, "banyand/%s/part.go" % pkg, "", "newPartWrapper") == f["newPartWrapper"]
        return ok
    f["streamSameAsMeasure"] = same("stream", [("snapIncRef", "incRef"), ("snapDecRef", "decRef"), ("copyAllTo", "copyAllTo"),
                                               ("merge", "merge"), ("remove", "remove")])
    f["traceSameAsMeasure"] = same("trace", [("snapIncRef", "IncRef"), ("snapDecRef", "DecRef"), ("copyAllTo", "copyAllTo"),
                                             ("merge", "merge"), ("remove", "remove")])

    t = "banyand/trace/introducer.go"
    f["traceCommitSnapshotTransaction"] = fn(H, repo, t, "tst *tsTable", "commitSnapshotTransaction")
    f["traceReplaceSnapshot"] = fn(H, repo, t, "tst *tsTable", "ReplaceSnapshot")
    qv = H.strip_comments(H.read(repo, "banyand/trace/query_vectorized.go"))
    f["traceReaderTakesFence"] = bool(
        re.search(r"table\.snapshotPublicationMu\.RLock\(\)", qv)
        and re.search(r"releasePublicationView = acquireSnapshotPublicationView\(tables\)\s+defer releasePublicationView\(\)", qv))
    # every introduce* of trace publishes through the fence, never through txn.Commit() directly
    ti = H.strip_comments(H.read(repo, t))
    f["traceCommitsOnlyThroughFence"] = len(re.findall(r"\btxn\.Commit\(\)", ti)) == 1 and \
        len(re.findall(r"tst\.commitSnapshotTransaction\(txn\)", ti)) >= 5

    s = "banyand/internal/snapshot/snapshot.go"
    f["txnTransitionCommit"] = fn(H, repo, s, "t *Transition[S]", "Commit")
    f["txnTransitionRollback"] = fn(H, repo, s, "t *Transition[S]", "Rollback")
    f["txnTransitionReset"] = fn(H, repo, s, "t *Transition[S]", "reset")
    f["txnCommit"] = fn(H, repo, s, "txn *Transaction", "Commit")
    f["txnRollback"] = fn(H, repo, s, "txn *Transaction", "Rollback")
