"""Facts for C06: constants of IntervalRule.Standard (banyand/internal/storage/storage.go) and the
directory-name formats."""
import re


def facts(repo, f, H):
    rel = "banyand/internal/storage/storage.go"
    body = H.func_body(repo, rel, r"func \(ir IntervalRule\) Standard\(t time\.Time\) time\.Time \{")
    m = re.search(r"days := floorDiv\(int64\(todayMidnight\.Sub\(epochLocal\)\.Hours\(\)\+(\d+)\), (\d+)\)", body)
    if not m:
        raise ValueError("%s: the day-count expression of IntervalRule.Standard has an unrecognised shape" % rel)
    f["stdDayRoundHours"] = int(m.group(1))
    f["stdHoursPerDay"] = int(m.group(2))
    if not re.search(r"epochLocal := time\.Date\(1970, 1, 1, 0, 0, 0, 0, t\.Location\(\)\)", body):
        raise ValueError("%s: grid anchor of IntervalRule.Standard is not 1970-01-01T00:00 local" % rel)
    if not re.search(r"hours := floorDiv\(int64\(todayHour\.Sub\(epochLocal\)\), int64\(time\.Hour\)\)", body):
        raise ValueError("%s: hour-count expression of IntervalRule.Standard has an unrecognised shape" % rel)
    f["anchorYear"] = 1970
    src = H.strip_comments(H.read(repo, rel))
    for name, key in (("hourFormat", "hourFormat"), ("dayFormat", "dayFormat")):
        m = re.search(r'%s\s*=\s*"([0-9]+)"' % name, src)
        if not m:
            raise ValueError("%s: %s not found" % (rel, name))
        f[key] = m.group(1)
    nt = H.func_body(repo, rel, r"func \(ir IntervalRule\) NextTime\(current time\.Time\) time\.Time \{")
    if "current.Add(time.Hour * time.Duration(ir.Num))" not in nt or "current.AddDate(0, 0, ir.Num)" not in nt:
        raise ValueError("%s: NextTime has an unrecognised shape" % rel)
    f["nextTimeShapeOk"] = True
