"""Facts for C07: rotation/retention constants (banyand/internal/storage/rotation.go) and the
shape of the retention deadline computations."""
import re


def facts(repo, f, H):
    rel = "banyand/internal/storage/rotation.go"
    src = H.strip_comments(H.read(repo, rel))
    m = re.search(r"creationGap\s*=\s*time\.Hour\b", src)
    if not m:
        raise ValueError("%s: creationGap is not time.Hour" % rel)
    f["creationGapHours"] = 1
    if not re.search(r"newSegmentTimeGap\s*=\s*creationGap\.Nanoseconds\(\)", src):
        raise ValueError("%s: newSegmentTimeGap has an unrecognised shape" % rel)
    m = re.search(r"timeEventSnapDuration\s*=\s*\((\d+)\s*\*\s*time\.Minute\)\.Nanoseconds\(\)", src)
    if not m:
        raise ValueError("%s: timeEventSnapDuration has an unrecognised shape" % rel)
    f["tickSnapMinutes"] = int(m.group(1))
    seg = H.strip_comments(H.read(repo, "banyand/internal/storage/segment.go"))
    if not re.search(r"func \(sc \*segmentController\[T, O\]\) getRetentionDeadline\(\) time\.Time \{\s*"
                     r"return sc\.clock\.Now\(\)\.Local\(\)\.Add\(-sc\.getOptions\(\)\.TTL\.estimatedDuration\(\)\)", seg):
        raise ValueError("segment.go: getRetentionDeadline has an unrecognised shape")
    body = H.func_body(repo, "banyand/internal/storage/segment.go", r"func \(sc \*segmentController\[T, O\]\) removeOldest\(\) \(bool, error\) \{")
    if "if len(sc.lst) <= 1 {" not in body or "oldest := sc.lst[0]" not in body:
        raise ValueError("segment.go: removeOldest has an unrecognised shape")
    f["keepOneRule"] = True
    st = H.func_body(repo, "banyand/internal/storage/storage.go", r"func \(ir IntervalRule\) estimatedDuration\(\) time\.Duration \{")
    m = re.search(r"case DAY:\s*return (\d+) \* time\.Hour \* time\.Duration\(ir\.Num\)", st)
    if not m or "return time.Hour * time.Duration(ir.Num)" not in st:
        raise ValueError("storage.go: estimatedDuration has an unrecognised shape")
    f["ttlDayHours"] = int(m.group(1))
