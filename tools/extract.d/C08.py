"""Facts for C08: bloom filter constants, var-array codec bytes, and the shape of the functions whose
repaired form the Lean model mirrors (fixes F9, F21-F25, F27, F29). An unrecognised shape is an error."""
import re


def facts(repo, f, H):
    f["bloomK"] = H.const(repo, "pkg/filter/bloom_filter.go", "k")
    f["bloomB"] = H.const(repo, "pkg/filter/bloom_filter.go", "B")
    f["varArrayDelimiter"] = H.const(repo, "pkg/encoding/vararray/vararray.go", "EntityDelimiter")
    f["varArrayEscape"] = H.const(repo, "pkg/encoding/vararray/vararray.go", "Escape")
    f["sidxMaxBlockLength"] = H.const(repo, "banyand/internal/sidx/sidx.go", "maxBlockLength")

    # NewBloomFilter: n >> 2 words, at least one
    body = H.strip_comments(H.func_body(repo, "pkg/filter/bloom_filter.go", r"func NewBloomFilter\(n int\) \*BloomFilter \{"))
    if not re.search(r"numBits := n >> 2\s+if numBits == 0 \{\s+numBits = 1", body):
        raise ValueError("NewBloomFilter: size computation not recognised")
    f["bloomWordShift"] = 2
    body = H.strip_comments(H.func_body(repo, "pkg/filter/bloom_filter.go", r"func \(bf \*BloomFilter\) MightContain\(item \[\]byte\) bool \{"))
    if "idx := hi % maxBits" not in body or "for i := 0; i < k; i++" not in body:
        raise ValueError("BloomFilter.MightContain: probe loop not recognised")

    # F9: extractElements must not decode the stored dictionary value in place
    body = H.strip_comments(H.func_body(repo, "pkg/filter/dictionary_filter.go", r"func \(df \*DictionaryFilter\) extractElements\("))
    f["dictDecodesInPlace"] = "UnmarshalVarArray(serializedArray" in body
    body = H.strip_comments(H.func_body(repo, "pkg/filter/dictionary_filter.go", r"func \(df \*DictionaryFilter\) MightContain\("))
    f["dictMightContainFalseForArrays"] = bool(re.search(r"ValueTypeStrArr \|\| df.valueType == pbv1.ValueTypeInt64Arr \{\s+return false", body))

    # F21: int64Literal.Compare
    body = H.strip_comments(H.func_body(repo, "pkg/query/logical/expr_literal.go", r"func \(i \*int64Literal\) Compare\("))
    f["intCompareSubtracts"] = "i.int64 - o.int64" in body
    # F29: implicit bound of a one-sided int range
    body = H.strip_comments(H.func_body(repo, "pkg/query/logical/expr_literal.go", r"func \(i \*int64Literal\) RangeOpts\("))
    m1 = re.search(r"NewIntRangeOpts\(math\.MinInt64, i\.int64, (\w+), (\w+)\)", body)
    m2 = re.search(r"NewIntRangeOpts\(i\.int64, math\.MaxInt64, (\w+), (\w+)\)", body)
    if not m1 or not m2:
        raise ValueError("int64Literal.RangeOpts: shape not recognised")
    f["intRangeImplicitBoundInclusive"] = (m1.group(1) == "true" and m2.group(2) == "true")
    # Contains/BelongTo on two scalars of the same type compare pointers
    body = H.strip_comments(H.func_body(repo, "pkg/query/logical/expr_literal.go", r"func \(s \*strLiteral\) Contains\("))
    f["scalarContainsComparesPointers"] = bool(re.search(r"other\.\(\*strLiteral\); ok \{\s+return s == o", body))

    # F22 / F23: stream index filter
    body = H.strip_comments(H.func_body(repo, "pkg/query/logical/stream/index_filter.go", r"func \(eq \*eq\) ShouldSkip\("))
    f["streamEqProbesBytes"] = "Expr.Bytes()" in body and "Expr.String()" not in body
    src = H.strip_comments(H.read(repo, "pkg/query/logical/stream/index_filter.go"))
    f["streamNotHasShouldSkip"] = bool(re.search(r"func \(n \*not\) ShouldSkip\(", src))
    body = H.strip_comments(H.func_body(repo, "pkg/query/logical/trace/index_filter.go", r"func \(tef \*traceEqFilter\) ShouldSkip\("))
    f["traceEqProbesBytes"] = "expr.Bytes()" in body and "expr.String()" not in body
    body = H.strip_comments(H.func_body(repo, "pkg/query/logical/trace/index_filter.go", r"func \(thf \*traceHavingFilter\) ShouldSkip\("))
    f["traceHavingProbesBytes"] = "expr.Bytes()" in body and ".String()" not in body
    body = H.strip_comments(H.func_body(repo, "pkg/query/logical/trace/index_filter.go", r"func \(taf \*traceAndFilter\) ShouldSkip\("))
    f["traceAndSkipsOnlyIfBoth"] = "return leftSkip && rightSkip, nil" in body

    # F24: FilterOp.Eq must use ContainsAll (array dictionaries)
    body = H.strip_comments(H.func_body(repo, "banyand/stream/tag_filter.go", r"func \(tfs \*tagFamilyFilters\) Eq\("))
    f["streamEqUsesContainsAll"] = "ContainsAll(" in body and "MightContain(" not in body
    body = H.strip_comments(H.func_body(repo, "banyand/internal/sidx/tag_filter_op.go", r"func \(tfo \*tagFilterOp\) Eq\("))
    f["sidxEqUsesContainsAll"] = "ContainsAll(" in body and "MightContain(" not in body

    # F25: a pruned block must not advance the series cursor
    body = H.strip_comments(H.func_body(repo, "banyand/stream/part_iter.go", r"func \(pi \*partIter\) findBlock\(\) bool \{"))
    m = re.search(r"if shouldSkip \{(.*?)\n\t\t\t\}", body, re.S)
    if not m:
        raise ValueError("partIter.findBlock: shouldSkip branch not recognised")
    f["streamSkipAdvancesSeries"] = "nextSeriesID" in m.group(1)

    # F27: null values must not take part in min/max
    body = H.strip_comments(H.func_body(repo, "banyand/stream/block.go", r"func \(b \*block\) processTags\("))
    m = re.search(r"if t\.valueType == pbv1\.ValueTypeInt64( && t\.value != nil)? \{", body)
    if not m:
        raise ValueError("block.processTags: min/max update not recognised")
    f["streamMinMaxIgnoresNull"] = m.group(1) is not None

    # F62: Range must not prune a block that has no recorded bounds
    body = H.strip_comments(H.func_body(repo, "banyand/stream/tag_filter.go", r"func \(tfs \*tagFamilyFilters\) Range\("))
    f["streamRangeGuardsMissingBounds"] = bool(re.search(r"len\(tf\.min\) == 0 \|\| len\(tf\.max\) == 0", body))
    body = H.strip_comments(H.func_body(repo, "banyand/internal/sidx/tag_filter_op.go", r"func \(tfo \*tagFilterOp\) Range\("))
    f["sidxRangeGuardsMissingBounds"] = bool(re.search(r"len\(cache\.min\) == 0 \|\| len\(cache\.max\) == 0", body))

    # F61: query results must not be the shared mutable DummyPostingList
    src = H.strip_comments(H.read(repo, "pkg/index/inverted/inverted.go"))
    f["invertedReturnsSharedDummyList"] = "return roaring.DummyPostingList" in src
    # F63: equality on a numeric field matches the prefix-coded value, not its decimal text
    body = H.strip_comments(H.func_body(repo, "pkg/index/inverted/inverted.go", r"func \(s \*store\) MatchTerms\("))
    f["invertedNumericEqByDecimalText"] = "strconv.FormatFloat(field.GetFloat()" in body
