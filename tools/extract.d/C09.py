"""Facts for C09: sidx scanner batch constants and the shape of the code the model mirrors."""
import re


def facts(repo, f, H):
    f["blockScannerBatchSize"] = H.const(repo, "banyand/internal/sidx/block_scanner.go", "blockScannerBatchSize")
    f["maxBlockLength"] = H.const(repo, "banyand/internal/sidx/sidx.go", "maxBlockLength")

    # lessByKey compares minKey, maxKey, seriesID (then the data offset) in this order
    body = H.strip_comments(H.func_body(repo, "banyand/internal/sidx/part_key_iter.go",
                                        r"func \(bm \*blockMetadata\) lessByKey\(other \*blockMetadata\) bool \{"))
    fields = re.findall(r"if bm\.(\w+) != other\.\1 \{\s*return bm\.\1 < other\.\1\s*\}", body)
    if not re.search(r"return bm\.dataBlock\.offset < other\.dataBlock\.offset\s*\}\s*$", body):
        raise ValueError("lessByKey: unexpected final comparison")
    f["lessByKeyFields"] = fields

    # scanner batches: threshold = MaxBatchSize or the default, flushed when full or at capacity
    for name, sig in (("scan", r"func \(bsn \*blockScanner\) scan\(ctx context\.Context, blockCh chan \*blockScanResultBatch\) \{"),
                      ("scanSync", r"func \(bsn \*blockScanner\) scanSync\(ctx context\.Context, consume func\(\*blockScanResultBatch\) error\) error \{")):
        body = H.strip_comments(H.func_body(repo, "banyand/internal/sidx/block_scanner.go", sig))
        f[name + "ThresholdShape"] = bool(re.search(
            r"batchThreshold := bsn\.batchSize\s+if batchThreshold <= 0 \{\s+batchThreshold = blockScannerBatchSize\s+\}", body))
        f[name + "FlushShape"] = bool(re.search(
            r"if len\(batch\.bss\) >= batchThreshold \|\| len\(batch\.bss\) >= cap\(batch\.bss\) \{", body))
    src = H.strip_comments(H.read(repo, "banyand/internal/sidx/block_scanner.go"))
    f["batchCapIsScannerBatch"] = bool(re.search(r"bss: make\(\[\]blockScanResult, 0, blockScannerBatchSize\)", src))

    # merge / mergeSync drain the heap completely on every call
    for name, sig in (("merge", r"func \(bch \*blockCursorHeap\) merge\(ctx context\.Context, batchSize int, resultsCh chan<- \*QueryResponse, metrics \*batchMetrics\) error \{"),
                      ("mergeSync", r"func \(bch \*blockCursorHeap\) mergeSync\(ctx context\.Context, batchSize int, metrics \*batchMetrics\) \(\[\]\*QueryResponse, error\) \{")):
        body = H.strip_comments(H.func_body(repo, "banyand/internal/sidx/sidx.go", sig))
        f[name + "DrainsHeap"] = bool(re.search(r"for bch\.Len\(\) > 0 \{", body)) and "break" not in re.sub(
            r"for _, \w+ := range bucket \{.*?\n\t\t\}", "", body, flags=re.S)
    # streaming loop: one merge per scanner batch
    body = H.strip_comments(H.func_body(repo, "banyand/internal/sidx/query.go", r"func \(s \*sidx\) handleStreamingBatch\("))
    f["mergePerScannerBatch"] = bool(re.search(r"resources\.heap\.pushCursors\(cursors\)", body)) and bool(
        re.search(r"return resources\.heap\.merge\(ctx, req\.MaxBatchSize, resultsCh, metrics\)", body))

    # trace: cross-instance merge direction and batch size; stream row-path limit loop
    f["defaultTraceBatchSize"] = H.const(repo, "banyand/trace/streaming_pipeline.go", "defaultTraceBatchSize")
    body = H.strip_comments(H.func_body(repo, "banyand/trace/streaming_pipeline.go", r"func newSIDXStreamRunner\("))
    f["traceMergeDirectionShape"] = bool(re.search(
        r"asc := true\s+if req\.Order != nil && req\.Order\.Sort == modelv1\.Sort_SORT_DESC \{\s+asc = false\s+\}", body))
    body = H.strip_comments(H.func_body(repo, "banyand/internal/sidx/query.go", r"func extractOrdering\(req QueryRequest\) bool \{"))
    f["sidxOrderingShape"] = bool(re.search(
        r"if req\.Order == nil \{\s+return true\s+\}\s+return req\.Order\.Sort != modelv1\.Sort_SORT_DESC", body))
    body = H.strip_comments(H.func_body(repo, "pkg/query/logical/stream/stream_analyzer.go",
                                        r"func \(l \*limit\) Execute\(ec context\.Context\) \(\[\]\*streamv1\.Element, error\) \{"))
    f["streamLimitLoopShape"] = bool(re.search(r"for len\(allEntities\) < targetCount\+offset \{", body)) and bool(
        re.search(r"needed := targetCount \+ offset - len\(allEntities\)", body)) and bool(
        re.search(r"return allEntities\[offset:endIndex\], nil", body))

    # getDisjointParts (stream and trace copies): the group boundary only grows; groups reversed for descending scans
    ok = True
    for rel in ("banyand/stream/snapshot.go", "banyand/trace/snapshot.go"):
        body = H.strip_comments(H.func_body(repo, rel, r"func getDisjointParts\(parts \[\]\*part, asc bool\) \[\]\[\]\*part \{"))
        ok = ok and bool(re.search(
            r"if pMin <= boundary \{\s+currentGroup = append\(currentGroup, p\)\s+if pMax > boundary \{\s+boundary = pMax\s+\}\s+\} else \{"
            r"\s+groups = append\(groups, currentGroup\)\s+currentGroup = \[\]\*part\{p\}\s+boundary = pMax", body))
        ok = ok and bool(re.search(r"MinTimestamp < parts\[j\]\.partMetadata\.MinTimestamp", body)) and bool(re.search(r"if !asc \{", body))
    f["disjointBoundaryShape"] = ok
    # segResult.remove drops the sort value together with the series, unconditionally w.r.t. Fields
    body = H.strip_comments(H.func_body(repo, "banyand/measure/query.go", r"func \(sr \*segResult\) remove\(i int\) \{"))
    f["segResultRemoveShape"] = ("return" not in body) and bool(re.search(
        r"if sr\.sortedValues != nil \{\s+sr\.sortedValues = append\(sr\.sortedValues\[:i\], sr\.sortedValues\[i\+1:\]\.\.\.\)", body))

    # idxResult.loadSortingData: min and max of the window are updated independently
    body = H.strip_comments(H.func_body(repo, "banyand/stream/query_by_idx.go", r"func \(qr \*idxResult\) loadSortingData\("))
    f["idxWindowShape"] = bool(re.search(
        r"if val\.Timestamp > qo\.maxTimestamp \{\s+qo\.maxTimestamp = val\.Timestamp\s+\}\s+"
        r"if val\.Timestamp < qo\.minTimestamp \|\| qo\.minTimestamp == 0 \{\s+qo\.minTimestamp = val\.Timestamp\s+\}", body))
    # distributed plans: per-node limit = (limit or default) + offset
    f["traceDefaultLimit"] = H.const(repo, "pkg/query/logical/trace/trace_analyzer.go", "defaultLimit")
    f["measureDefaultLimit"] = H.const(repo, "pkg/query/logical/measure/measure_analyzer.go", "defaultLimit")
    ok = True
    for rel, sig, off in (("pkg/query/logical/trace/trace_plan_distributed.go", r"func \(t \*unresolvedTraceDistributed\) Analyze\(", r"t\.originalQuery\.Offset"),
                          ("pkg/query/logical/measure/measure_plan_distributed.go", r"func \(ud \*unresolvedDistributed\) Analyze\(", r"ud\.originalQuery\.Offset")):
        body = H.strip_comments(H.func_body(repo, rel, sig))
        ok = ok and bool(re.search(r"limit := \w+\.originalQuery\.GetLimit\(\)\s+if limit == 0 \{\s+limit = defaultLimit\s+\}", body))
        ok = ok and bool(re.search(r"Limit:\s+limit \+ " + off + ",", body))
    f["pushDownLimitShape"] = ok
