"""Facts for C10: sentinels and constructors of pkg/query/aggregation, the MEAN clamp, the scalar shard id."""
import re


def _resolve_extreme(repo, H, fn):
    """value of minOf[int64]() / maxOf[int64]() (the `case *int64:` arm)."""
    body = H.func_body(repo, "pkg/query/aggregation/aggregation.go", r"func %s\[N Number\]\(\) \(r N\) \{" % fn)
    m = re.search(r"case \*int64:\s*\*x = (math\.MinInt64|math\.MaxInt64)\b", body)
    if not m:
        raise ValueError("aggregation.go: int64 arm of %s not recognised" % fn)
    return -(1 << 63) if m.group(1) == "math.MinInt64" else (1 << 63) - 1


def _ctors(repo, H, fname, suffix):
    body = H.func_body(repo, "pkg/query/aggregation/aggregation.go", r"func %s\[N Number\]\(af modelv1\.AggregationFunction\) \(\w+\[N\], error\) \{" % fname)
    arms = re.findall(r"case modelv1\.AggregationFunction_AGGREGATION_FUNCTION_(\w+):\s*result = &(\w+)\[N\]\{(\w+): (\w+)\[N\]\(\)\}", body)
    if len(arms) != 5:
        raise ValueError("aggregation.go: %s switch has %d recognised arms, want 5" % (fname, len(arms)))
    names, init = [], {}
    for fn, struct, field, ctor in arms:
        names.append("%s:%s" % (fn, struct))
        init[fn] = (field, ctor)
    return names, init


def facts(repo, f, H):
    ext = {"minOf": _resolve_extreme(repo, H, "minOf"), "maxOf": _resolve_extreme(repo, H, "maxOf"), "zero": 0}
    mnames, minit = _ctors(repo, H, "NewMap", "Func")
    rnames, rinit = _ctors(repo, H, "NewReduce", "ReduceFunc")
    f["mapCtor"] = mnames
    f["reduceCtor"] = rnames
    # the configured reset value of MIN / MAX accumulators (NewMap sets it, Reset() copies it into val)
    for side, init in (("map", minit), ("reduce", rinit)):
        for fn in ("MIN", "MAX"):
            field, ctor = init[fn]
            if (fn, field) not in (("MIN", "max"), ("MAX", "min")) or ctor not in ext:
                raise ValueError("aggregation.go: unexpected initialiser %s{%s: %s}" % (fn, field, ctor))
            f["%s%sInit" % (side, fn.capitalize())] = ext[ctor]
    src = H.strip_comments(H.read(repo, "pkg/query/aggregation/function.go"))
    for recv in ("minFunc", "maxFunc", "minReduceFunc", "maxReduceFunc"):
        field = "max" if recv.startswith("min") else "min"
        if not re.search(r"func \(m \*%s\[N\]\) Reset\(\) \{\s*m\.val = m\.%s\s*\}" % (recv, field), src):
            raise ValueError("function.go: %s.Reset not recognised" % recv)
    clamps = set()
    for recv in ("meanFunc", "meanReduceFunc"):
        m = re.search(r"func \(m %s\[N\]\) Val\(\) N \{\s*if m\.count == m\.zero \{\s*return m\.zero\s*\}\s*v := m\.sum / m\.count\s*"
                      r"if v < (\d+) \{\s*return (\d+)\s*\}\s*return v\s*\}" % recv, src)
        if not m:
            raise ValueError("function.go: %s.Val not recognised" % recv)
        clamps.add((int(m.group(1)), int(m.group(2))))
    if len(clamps) != 1:
        raise ValueError("function.go: meanFunc.Val and meanReduceFunc.Val clamp differently: %s" % clamps)
    (below, to), = clamps
    f["meanClampBelow"] = below
    f["meanClampTo"] = to
    agg = H.strip_comments(H.read(repo, "pkg/query/logical/measure/measure_plan_aggregation.go"))
    m = re.search(r"func \(ami \*aggAllIterator\[N\]\) Current\(\) \[\]\*measurev1\.InternalDataPoint \{.*?ShardId:\s*(\d+)\}\}", agg, re.S)
    if not m:
        raise ValueError("measure_plan_aggregation.go: aggAllIterator.Current not recognised")
    f["scalarShardId"] = int(m.group(1))
