"""Facts for C11: storage codec constants and a few shape facts (fail closed on any unrecognised shape)."""
import re


def _one(pattern, text, what):
    m = re.findall(pattern, text)
    if len(m) != 1:
        raise ValueError("C11: expected exactly one match for %s, got %d" % (what, len(m)))
    return m[0]


def facts(repo, f, H):
    et = H.iota_block(repo, "pkg/encoding/encoding.go", "EncodeTypeUnknown")
    for k in ("Const", "DeltaConst", "Delta", "DeltaOfDelta", "Plain", "Dictionary"):
        f["et" + k] = et["EncodeType" + k]
    for k in ("uintBlockType8", "uintBlockType16", "uintBlockType32", "uintBlockType64",
              "compressTypePlain", "compressTypeZSTD"):
        f[k] = H.const(repo, "pkg/encoding/bytes.go", k)
    f["maxUniqueValues"] = H.const(repo, "pkg/encoding/dictionary.go", "maxUniqueValues")
    f["varArrayDelimiter"] = H.const(repo, "pkg/encoding/vararray/vararray.go", "EntityDelimiter")
    f["varArrayEscape"] = H.const(repo, "pkg/encoding/vararray/vararray.go", "Escape")

    cb = H.strip_comments(H.func_body(repo, "pkg/encoding/bytes.go", r"func compressBlock\("))
    f["plainBlockLimit"] = H.go_int(_one(r"if len\(src\) < (\d+) \{", cb, "plain block limit"))

    vi = H.strip_comments(H.func_body(repo, "pkg/encoding/int.go", r"func VarInt64ListToBytes\("))
    a, b = _one(r"if v < (0x[0-9a-f]+) && v > -(0x[0-9a-f]+) \{", vi, "varint single byte range")
    f["varintSmallHi"] = H.go_int(a)
    f["varintSmallLo"] = H.go_int(b)
    vd = H.strip_comments(H.func_body(repo, "pkg/encoding/int.go", r"func BytesToVarInt64List\("))
    f["varintMaxExtra"] = H.go_int(_one(r"if idx-startIdx > (\d+) \{", vd, "varint length limit"))
    vu = H.strip_comments(H.func_body(repo, "pkg/encoding/int.go", r"func BytesToVarUint64s\("))
    f["varuintMaxExtra"] = H.go_int(_one(r"if idx-startIdx > (\d+) \{", vu, "varuint length limit"))

    il = H.strip_comments(H.func_body(repo, "pkg/encoding/int_list.go", r"func Int64ListToBytes\("))
    # order in which the modes are tried / returned
    f["modeOrder"] = re.findall(r"isConst\(a\)|isDeltaConst \{|isDelta \{|isIncremental\(a\)|EncodeType[A-Za-z]+", il)
    inc = H.strip_comments(H.func_body(repo, "pkg/encoding/int_list.go", r"func isIncremental\("))
    f["incShift"] = H.go_int(_one(r"if v > \(vPrev >> (\d+)\) \{", inc, "reset shift"))
    f["incResets"] = H.go_int(_one(r"if resets <= (\d+) \{", inc, "free resets"))
    f["incLenShift"] = H.go_int(_one(r"return resets < \(len\(a\) >> (\d+)\)", inc, "reset density shift"))

    fl = H.strip_comments(H.read(repo, "pkg/encoding/float.go"))
    tab = _one(r"var pow10tab = \[(\d+)\]int64\{", fl, "pow10tab size")
    f["pow10tabLen"] = int(tab)
    mp = H.strip_comments(H.func_body(repo, "pkg/encoding/float.go", r"func mulPow10Fast\("))
    f["pow10FastMax"] = H.go_int(_one(r"if n <= (\d+) \{", mp, "fast path bound"))
    ml = H.strip_comments(H.func_body(repo, "pkg/encoding/float.go", r"func mulPow10Large\("))
    f["pow10LargeFrom"] = H.go_int(_one(r"for n >= (\d+) \{", ml, "large loop bound"))
    f["pow10LargeStep"] = H.go_int(_one(r"n -= (\d+)", ml, "large loop step"))

    te = H.strip_comments(H.read(repo, "banyand/internal/encoding/tag_encoder.go"))
    f["tagHeaderLens"] = sorted(int(x) for x in re.findall(r"const expectedLen = (\d+)", te))
