"""Facts for C12: series-key marshalling constants."""


def facts(repo, f, H):
    f["entityDelimiter"] = H.const(repo, "pkg/pb/v1/value.go", "entityDelimiter")
    f["entityEscape"] = H.const(repo, "pkg/pb/v1/value.go", "escape")
    vt = H.iota_block(repo, "pkg/pb/v1/valuetype/valuetype.go", "ValueTypeUnknown")
    for k, v in vt.items():
        f["vt" + k[len("ValueType"):]] = v
