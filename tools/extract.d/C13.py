"""Facts for C13: fragment-guard enums and reason strings, drop-set pricing constants,
guard budgets, sidx element format byte, chain bypass reasons."""
import re


def _string_consts(src, type_name):
    """values of `name <type_name> = "value"` lines, in source order"""
    out = []
    for m in re.finditer(r"^\s*([A-Za-z_][A-Za-z0-9_]*)\s+%s\s*=\s*\"([^\"]*)\"\s*$" % re.escape(type_name), src, re.M):
        out.append((m.group(1), m.group(2)))
    return out


def facts(repo, f, H):
    guard = "banyand/trace/fragment_guard.go"
    src = H.strip_comments(H.read(repo, guard))
    reasons = _string_consts(src, "traceFragmentGuardReason")
    if len(reasons) < 20:
        raise ValueError("%s: reason constants not recognised (%d found)" % (guard, len(reasons)))
    f["reasons"] = [v for _, v in reasons]
    f["reasonNames"] = [n for n, _ in reasons]

    for first, prefix, key in [
        ("traceFragmentTemporalSafetyUnknown", "traceFragmentTemporalSafety", "temporal"),
        ("traceFragmentMembershipUnknown", "traceFragmentMembership", "membership"),
        ("traceFragmentSamplerActionUnknown", "traceFragmentSamplerAction", "sampler"),
        ("traceFragmentGuardActionDefer", "traceFragmentGuardAction", "action"),
    ]:
        blk = H.iota_block(repo, guard, first)
        f[key + "Names"] = [n[len(prefix):] for n, _ in sorted(blk.items(), key=lambda kv: kv[1])]

    # Resolve must test the sampler action before anything else and Drop must be reachable only
    # through recordConfirmedDrop: shape facts the model mirrors
    body = H.func_body(repo, guard, r"func \(g \*defaultTraceFragmentGuard\) Resolve\(")
    f["resolveDropSites"] = len(re.findall(r"traceFragmentGuardActionDrop,", body))
    f["resolveRecordSites"] = len(re.findall(r"g\.recordConfirmedDrop\(", body))
    f["resolveCtxPolls"] = len(re.findall(r"ctx\.Err\(\) != nil", body))
    rbody = H.func_body(repo, guard, r"func \(g \*defaultTraceFragmentGuard\) RevalidateDrops\(")
    f["revalidatePublishSites"] = len(re.findall(r"result\.Publish = true", rbody))
    f["revalidateCtxPolls"] = len(re.findall(r"ctx\.Err\(\) != nil", rbody))

    ds = "banyand/trace/drop_set.go"
    for name in ["dropSetEntryHeaderBytes", "dropSetEntrySlotBytes", "allocClassGranularity",
                 "allocClassGranularityAbove", "allocClassLargeThreshold"]:
        f[name] = H.const(repo, ds, name)
    f["idFormatV1"] = H.const(repo, "banyand/trace/constants.go", "idFormatV1")

    rt = "banyand/trace/fragment_guard_runtime.go"
    f["probeBudgetBytes"] = H.const(repo, rt, "traceFragmentProbeBudgetBytes")
    f["tokenBudgetBytes"] = H.const(repo, rt, "traceFragmentTokenBudgetBytes")
    mg = "banyand/trace/merger.go"
    f["stageBudgetFloor"] = H.const(repo, mg, "defaultStageBudgetFloor")
    f["defaultDropSetBudget"] = H.const(repo, mg, "defaultDropSetBudget")

    chain = H.strip_comments(H.read(repo, "pkg/pipeline/sdk/chain.go"))
    by = re.findall(r"^\s*(BypassReason[A-Za-z]+)\s*=\s*\"([^\"]*)\"\s*$", chain, re.M)
    if len(by) != 3:
        raise ValueError("pkg/pipeline/sdk/chain.go: expected 3 bypass reasons, found %d" % len(by))
    f["bypassReasons"] = [v for _, v in sorted(by)]

    # the sidx merge applies the keep predicate to every loaded block (shape fact)
    mb = H.func_body(repo, "banyand/internal/sidx/merge.go",
                     r"func mergeBlocks\([^\n]*\) \(\*partMetadata, error\) \{")
    f["sidxKeepFilterSites"] = len(re.findall(r"filterBlockPointer\(br\.block, keep\)", mb))
    f["sidxLoadSites"] = len(re.findall(r"loadAndRename\(\)", mb))
