"""Facts for C14: the sequence of atomic / mutex / resource actions of the functions of
banyand/internal/storage/segment.go that the atomic-step model Banyan.C14.tstep mirrors, in textual
order.  lean/Banyan/Tie/C14.lean states that these sequences are the ones the model's program
counters stand for.  Any action on refCount / mustBeDeleted / mu / index that is not recognised
shows up as a '?' token and breaks the tie (fail closed)."""
import re

REL = "banyand/internal/storage/segment.go"

PATS = [
    (r"current\s*:=\s*atomic\.LoadInt32\(&(?:s|sc\.lst\[i\])\.refCount\)", "cur:=rc"),
    (r"atomic\.LoadInt32\(&s\.refCount\)\s*>\s*0", "rc>0"),
    (r"atomic\.LoadInt32\(&s\.refCount\)\s*!=\s*0", "rc!=0"),
    (r"atomic\.LoadInt32\(&s\.refCount\)\s*==\s*0", "rc==0"),
    (r"atomic\.LoadInt32\(", "load32?"),
    (r"atomic\.CompareAndSwapInt32\(&(?:s|sc\.lst\[i\])\.refCount,\s*current,\s*current\+1\)", "cas+1"),
    (r"atomic\.CompareAndSwapInt32\(&s\.refCount,\s*current,\s*current-1\)", "cas-1"),
    (r"atomic\.CompareAndSwapInt32\(", "cas?"),
    (r"atomic\.AddInt32\(&s\.refCount,\s*1\)", "rc+=1"),
    (r"atomic\.AddInt32\(", "add?"),
    (r"atomic\.StoreInt32\(&s\.refCount,\s*1\)", "rc:=1"),
    (r"atomic\.StoreInt32\(", "store32?"),
    (r"atomic\.LoadUint32\(&s\.mustBeDeleted\)\s*!=\s*0", "mbd!=0"),
    (r"atomic\.LoadUint32\(", "loadu32?"),
    (r"atomic\.StoreUint32\(&s\.mustBeDeleted,\s*1\)", "mbd:=1"),
    (r"atomic\.StoreUint32\(", "storeu32?"),
    (r"\bs\.refCount\b", "refCount?"),
    (r"\bs\.mustBeDeleted\b", "mustBeDeleted?"),
    (r"current\s*<=\s*0", "cur<=0"),
    (r"current\s*==\s*1", "cur==1"),
    (r"defer\s+s\.mu\.Unlock\(\)", "defer-unlock"),
    (r"\bs\.mu\.Lock\(\)", "lock"),
    (r"\bs\.mu\.Unlock\(\)", "unlock"),
    (r"defer\s+s\.mu\.RUnlock\(\)", "defer-runlock"),
    (r"\bs\.mu\.RLock\(\)", "rlock"),
    (r"\bs\.mu\.RUnlock\(\)", "runlock"),
    (r"\bs\.acquire\(ctx\)", "acquire"),
    (r"\bs\.initialize\(ctx\)", "initialize"),
    (r"\bs\.performDelete\(\)", "performDelete"),
    (r"\bs\.closeResourcesLocked\(\)", "closeResources"),
    (r"\bs\.lfs\.MustRMAll\(s\.location\)", "rmall"),
    (r"\bs\.index\s*==\s*nil", "idx==nil"),
    (r"\bs\.index\s*!=\s*nil", "idx!=nil"),
    (r"\bidx\s*:=\s*s\.index", "idx:=index"),
    (r"\bidx\s*!=\s*nil", "idx!=nil"),
    (r"\bs\.index\s*=\s*nil", "index:=nil"),
    (r"\bs\.index\s*=\s*sir", "index:=sir"),
    (r"\bs\.index\s*=[^=]", "index:=?"),
    (r"\bs\.lastAccessed\.Load\(\)\s*>=\s*idleThreshold", "la>=thr"),
    (r"\bs\.lastAccessed\.Store\(now\)", "la:=now"),
    (r"defer\s+s\.DecRef\(\)", "defer-DecRef"),
    (r"\b\w+\.DecRef\(\)", "DecRef"),
    (r"\bs\.snapshotOpen\(", "snapshotOpen"),
    (r"\bs\.snapshotClosed\(", "snapshotClosed"),
    (r"(?:\bs|sc\.lst\[i\])\.incRef\(ctx\)", "incRef"),
    (r"(?:\bs|sc\.lst\[i\])\.pinIfActive\(\)", "pinIfActive"),
    (r"unpinnedSegment\[T, O\]\{s\}", "unpinned"),
    (r"sc\.segments\(context\.Background\(\),\s*false\)", "segments(false)"),
    (r"sc\.copySegments\(\)", "copySegments"),
    (r"\b(?:s|oldest)\.delete\(\)", "delete"),
    (r"sc\.removeSeg\(", "removeSeg"),
    (r"return\s+ErrSegmentClosed", "ret-closed"),
]
RX = re.compile("|".join("(%s)" % p for p, _ in PATS))


def tokens(body):
    out = []
    for m in RX.finditer(body):
        out.append(PATS[m.lastindex - 1][1])
    return out


def facts(repo, f, H):
    seg = r"func \(s \*segment\[T, O\]\) %s\("
    ctl = r"func \(sc \*segmentController\[T, O\]\) %s\("

    def body(sig, optional=False):
        try:
            return H.strip_comments(H.func_body(repo, REL, sig))
        except ValueError:
            if optional:
                return ""
            raise

    for name in ["incRef", "acquire", "DecRef", "performDelete", "delete", "closeIfIdle", "closeResourcesLocked",
                 "snapshotInto", "collectOpenMetrics", "initialize"]:
        f["fn_" + name] = tokens(body(seg % name))
    f["fn_pinIfActive"] = tokens(body(seg % "pinIfActive", optional=True)) or ["absent"]
    for name in ["selectSegments", "segments", "remove", "getExpiredSegmentsTimeRange", "deleteExpiredSegments",
                 "removeOldest", "close"]:
        f["ctl_" + name] = tokens(body(ctl % name))
