"""Facts for C15: frame wire constants and the role/type wire maps of the measure and stream bindings."""
import re

ROLES = ["Timestamp", "Version", "SeriesID", "ShardID", "Tag", "Field", "ElementID", "OrderKey"]
TYPES = ["Int64", "Float64", "String", "Bytes", "Int64Array", "StrArray", "TagValue", "FieldValue"]


def _wire_map(H, repo, rel, fn, prefix, names, const_prefix):
    """parse `func <fn>(..) { switch .. { case vectorized.<prefix>X: return <const>, nil ... default: .. } }`
    into a list indexed by iota order: wire byte, or 0 for "unmapped" (0 is never a wire value)"""
    body = H.strip_comments(H.func_body(repo, rel, r"func %s\(" % fn))
    pairs = re.findall(r"case\s+vectorized\.%s(\w+)\s*:\s*return\s+(\w+)\s*,\s*nil" % prefix, body)
    if not pairs:
        raise ValueError("%s: no cases recognised in %s" % (rel, fn))
    if len(re.findall(r"\bcase\b", body)) != len(pairs):
        raise ValueError("%s: %s has a case of an unrecognised shape" % (rel, fn))
    out = [0] * len(names)
    for name, const in pairs:
        if name not in names:
            raise ValueError("%s: %s maps unknown %s%s" % (rel, fn, prefix, name))
        if not const.startswith(const_prefix):
            raise ValueError("%s: %s returns %s" % (rel, fn, const))
        v = H.const(repo, rel, const)
        if not 0 < v < 256:
            raise ValueError("%s: wire value %s = %d" % (rel, const, v))
        out[names.index(name)] = v
    return out


def _inverse_ok(H, repo, rel, fn, prefix, names, fwd):
    """the decode side must be the exact inverse: case <const>: return vectorized.<prefix>X, nil"""
    body = H.strip_comments(H.func_body(repo, rel, r"func %s\(" % fn))
    pairs = re.findall(r"case\s+(\w+)\s*:\s*return\s+vectorized\.%s(\w+)\s*,\s*nil" % prefix, body)
    if len(re.findall(r"\bcase\b", body)) != len(pairs):
        raise ValueError("%s: %s has a case of an unrecognised shape" % (rel, fn))
    inv = [0] * len(names)
    for const, name in pairs:
        inv[names.index(name)] = H.const(repo, rel, const)
    if inv != fwd:
        raise ValueError("%s: %s is not the inverse of the encode map (%s vs %s)" % (rel, fn, inv, fwd))


def facts(repo, f, H):
    lead = H.const(repo, "api/data/codec.go", "RawFrameMagicLeadingByte")
    for eng, rel in (("measure", "pkg/query/vectorized/measure/frame/frame.go"), ("stream", "pkg/query/vectorized/stream/frame/frame.go")):
        src = H.strip_comments(H.read(repo, rel))
        m = re.search(r"var\s+Magic\s*=\s*\[4\]byte\{\s*data\.RawFrameMagicLeadingByte\s*,\s*'(.)'\s*,\s*'(.)'\s*,\s*'(.)'\s*\}", src)
        if not m:
            raise ValueError("%s: Magic not recognised" % rel)
        f[eng + "Magic"] = [lead] + [ord(c) for c in m.groups()]
        f[eng + "WireVersion"] = H.const(repo, rel, "WireVersion")
        roles = _wire_map(H, repo, rel, "roleToWire", "Role", ROLES, "wireRole")
        types = _wire_map(H, repo, rel, "typeToWire", "ColumnType", TYPES, "wireType")
        _inverse_ok(H, repo, rel, "wireToRole", "Role", ROLES, roles)
        _inverse_ok(H, repo, rel, "wireToType", "ColumnType", TYPES, types)
        f[eng + "RoleWire"] = roles
        f[eng + "TypeWire"] = types
    base = "pkg/query/vectorized/frame/frame.go"
    if H.const(repo, base, "MagicLen") != 4:
        raise ValueError("MagicLen != 4")
    src = H.strip_comments(H.read(repo, base))
    if not re.search(r"const\s+MinHeaderLen\s*=\s*MagicLen\s*\+\s*1\s*\+\s*1\s*\+\s*1", src):
        raise ValueError("MinHeaderLen shape changed")
    f["minHeaderLen"] = 7
    ct = H.iota_block(repo, "pkg/query/vectorized/column.go", "ColumnTypeInt64")
    f["colTypeIota"] = [ct["ColumnType" + t] for t in TYPES]
    cr = H.iota_block(repo, "pkg/query/vectorized/schema.go", "RoleTimestamp")
    f["roleIota"] = [cr["Role" + r] for r in ROLES]
    f["defaultLimit"] = H.const(repo, "pkg/query/vectorized/measure/plan/analyzer.go", "defaultLimit")
    f["rowDefaultLimit"] = H.const(repo, "pkg/query/logical/measure/measure_analyzer.go", "defaultLimit")
