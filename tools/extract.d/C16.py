"""Facts for C16: the literals the placement arithmetic depends on (fail closed on any other shape)."""
import re


def facts(repo, f, H):
    route = H.strip_comments(H.read(repo, "pkg/partition/route.go"))
    body = H.func_body(repo, "pkg/partition/route.go", r"func ShardID\(key \[\]byte, shardNum uint32\) \(uint, error\) \{")
    m = re.search(r"if shardNum < (\d+) \{\s*return 0, errors\.New", body)
    if not m:
        raise ValueError("ShardID: guard `if shardNum < N { return 0, error }` not found")
    f["shardNumMin"] = int(m.group(1))
    if not re.search(r"return uint\(encodeKey % uint64\(shardNum\)\), nil", body):
        raise ValueError("ShardID: `encodeKey % uint64(shardNum)` not found")
    body = H.func_body(repo, "pkg/partition/route.go", r"func TraceShardID\(traceID string, shardNum uint32\) common\.ShardID \{")
    m = re.search(r"if shardNum == 0 \{\s*return (\d+)\s*\}", body)
    if not m:
        raise ValueError("TraceShardID: zero guard not found")
    f["traceShardOnZero"] = int(m.group(1))
    rr = "pkg/node/round_robin.go"
    body = H.func_body(repo, rr, r"func \(r \*roundRobinSelector\) String\(\) string \{")
    m = re.search(r"copies := entry\.replicas \+ (\d+)", body)
    if not m:
        raise ValueError("String: `copies := entry.replicas + N` not found")
    f["copiesExtra"] = int(m.group(1))
    body = H.func_body(repo, rr, r"func \(r \*roundRobinSelector\) selectNode\(index int, replicasID uint32\) string \{")
    if not (re.search(r"adjustedIndex := index \+ int\(replicasID\)", body) and
            re.search(r"return r\.nodes\[adjustedIndex%len\(r\.nodes\)\]", body)):
        raise ValueError("selectNode: `(index + replica) % len(nodes)` shape not found")
    f["selectNodeIsIndexPlusReplicaModLen"] = True
    body = H.func_body(repo, rr, r"func \(r \*roundRobinSelector\) sortEntries\(\) \{")
    if not (re.search(r"n := strings\.Compare\(a\.group, b\.group\)\s*if n != 0 \{\s*return n\s*\}\s*return int\(a\.shardID\) - int\(b\.shardID\)", body)):
        raise ValueError("sortEntries: (group, shardID) comparison shape not found")
    f["sortEntriesIsGroupThenShard"] = True
