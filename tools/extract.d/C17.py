"""Facts for C17: chunk-ordering defaults of the queue server, sync status codes, retry bounds and the
shape of the sender-side "always introduce after executeSyncWithRetry" flow."""
import re


def facts(repo, f, H):
    # sub/server.go NewServerWithPorts: chunk ordering defaults
    body = H.func_body(repo, "banyand/queue/sub/server.go", r"func NewServerWithPorts\(")
    m = re.search(r"enableChunkReordering:\s*(true|false)", body)
    if not m:
        raise ValueError("enableChunkReordering default not found")
    f["defaultReorder"] = m.group(1) == "true"
    for key, name in (("maxChunkBufferSize", "defaultMaxBuf"), ("maxChunkGapSize", "defaultMaxGap")):
        m = re.search(r"%s:\s*([0-9_]+)\s*," % key, body)
        if not m:
            raise ValueError("%s default not found" % key)
        f[name] = int(m.group(1).replace("_", ""))
    # SyncStatus enum (rpc.proto)
    proto = H.strip_comments(H.read(repo, "api/proto/banyandb/cluster/v1/rpc.proto"))
    m = re.search(r"enum\s+SyncStatus\s*\{(.*?)\}", proto, re.S)
    if not m:
        raise ValueError("enum SyncStatus not found")
    vals = dict((k, int(v)) for k, v in re.findall(r"(SYNC_STATUS_[A-Z_]+)\s*=\s*(\d+)\s*;", m.group(1)))
    for k, name in (("SYNC_STATUS_CHUNK_RECEIVED", "stReceived"), ("SYNC_STATUS_CHUNK_CHECKSUM_MISMATCH", "stMismatch"),
                    ("SYNC_STATUS_CHUNK_OUT_OF_ORDER", "stOutOfOrder"), ("SYNC_STATUS_SESSION_NOT_FOUND", "stNoSession"),
                    ("SYNC_STATUS_SYNC_COMPLETE", "stComplete"), ("SYNC_STATUS_VERSION_UNSUPPORTED", "stVersion")):
        if k not in vals:
            raise ValueError("status %s not found" % k)
        f[name] = vals[k]
    # retry bound of the failed-parts handler
    f["failedPartsMaxRetries"] = H.const(repo, "banyand/internal/storage/failed_parts_handler.go", "DefaultMaxRetries")
    # shape: executeSyncWithRetry never reports a failure, so syncSnapshot always reaches sendSyncIntroduction
    for eng in ("measure", "stream"):
        rel = "banyand/%s/syncer.go" % eng
        src = H.read(repo, rel)
        if "func (tst *tsTable) executeSyncWithRetry(" not in src:
            raise ValueError("%s: executeSyncWithRetry not found" % rel)
        body = H.strip_comments(H.func_body(repo, rel, r"func \(tst \*tsTable\) executeSyncWithRetry\("))
        rets = re.findall(r"\breturn\b([^\n]*)", body)
        # closures inside return values of their own; the function's own error returns must all be nil
        own = [r.strip() for r in rets if r.strip() in ("nil", "err") or r.strip().startswith("fmt.Errorf")]
        f["%sRetryAlwaysNil" % eng] = all(r == "nil" for r in own) and len(own) >= 1
    # the checksum is CRC-32 (IEEE) rendered with %x on both sides
    snd = H.read(repo, "banyand/queue/pub/chunked_sync.go")
    rcv = H.read(repo, "banyand/queue/sub/chunked_sync.go")
    pat = 'fmt.Sprintf("%x", crc32.ChecksumIEEE('
    f["checksumIsCrc32Hex"] = (pat in snd) and (pat in rcv)
