"""Facts for C18: search limits the model abstracts and the shape of the comparisons it mirrors."""
import re


def facts(repo, f, H):
    # limits: every search the model treats as "all revisions of the key" is bounded by these
    f["gossipQuerySize"] = H.const(repo, "banyand/property/db/repair_gossip.go", "gossipShardQueryDatabaseSize")
    rep = H.func_body(repo, "banyand/property/db/shard.go", r"func \(s \*shard\) repair\(")
    m = re.search(r"s\.search\(ctx, iq, nil, (\d+)\)", rep)
    if not m:
        raise ValueError("shard.repair: search limit not found")
    f["repairSearchLimit"] = int(m.group(1))
    qp = H.func_body(repo, "banyand/liaison/grpc/property.go", r"func \(ps \*propertyServer\) queryProperties\(")
    m = re.search(r"if req\.Limit == 0 \{\s*req\.Limit = (\d+)", qp)
    if not m:
        raise ValueError("queryProperties: default limit not found")
    f["queryDefaultLimit"] = int(m.group(1))

    # shard.repair: when does the stored newest document win against the incoming one of the same revision?
    cond = re.search(r"timestamp == property\.Metadata\.ModRevision &&\s*olderProperties\[len\(olderProperties\)-1\]\.deleteTime (==|>=) deleteTime", rep)
    if not cond:
        raise ValueError("shard.repair: tie-break comparison has an unrecognised shape")
    f["repairKeepsLaterTombstone"] = cond.group(1) == ">="
    if not re.search(r"timestamp > property\.Metadata\.ModRevision\) \|\|", rep):
        raise ValueError("shard.repair: revision comparison has an unrecognised shape")
    nd = H.func_body(repo, "banyand/property/db/shard.go", r"func \(s \*shard\) buildNotDeletedDocIDList\(")
    if "p.deleteTime > 0" not in nd:
        raise ValueError("buildNotDeletedDocIDList: unrecognised shape")
    f["repairSkipsReplacedDoc"] = "bytes.Equal(p.id" in nd
    # buildDeleteFromTimeDocuments: the id lookup is limited to the number of listed ids (model: `hits`)
    bd = H.func_body(repo, "banyand/property/db/shard.go", r"func \(s \*shard\) buildDeleteFromTimeDocuments\(")
    if "s.search(ctx, iq, nil, len(docID))" not in bd:
        raise ValueError("buildDeleteFromTimeDocuments: lookup limit has an unrecognised shape")
    f["deleteLookupLimitIsIdCount"] = True

    # liaison: order used to pick the previous property / the query winner
    src = H.read(repo, "banyand/liaison/grpc/property.go")
    fp = H.func_body(repo, "banyand/liaison/grpc/property.go", r"func \(ps \*propertyServer\) findPrevAndOlderProperties\(")
    sd = H.func_body(repo, "banyand/liaison/grpc/property.go", r"func \(ps \*propertyServer\) simpleDedupWithoutSort\(")
    so = H.func_body(repo, "banyand/liaison/grpc/property.go", r"func \(ps \*propertyServer\) sortedQueryWithDedup\(")
    uses = ["newerThan(" in b for b in (fp, sd, so)]
    if any(uses) and not all(uses):
        raise ValueError("newerThan is used by some but not all of findPrev / simpleDedup / sortedDedup")
    if all(uses):
        nt = H.func_body(repo, "banyand/liaison/grpc/property.go", r"func newerThan\(")
        if not ("ModRevision > q.Metadata.ModRevision" in nt and "p.deletedTime > q.deletedTime" in nt):
            raise ValueError("newerThan: unrecognised shape")
    else:
        if "p.Metadata.ModRevision > prevPropertyWithMetadata.Metadata.ModRevision" not in fp:
            raise ValueError("findPrevAndOlderProperties: unrecognised shape")
    f["liaisonUsesNewerThan"] = all(uses)

    # mergeProperty keeps the request's tags first and appends the previous ones it does not carry
    mp = H.func_body(repo, "banyand/liaison/grpc/property.go", r"func \(ps \*propertyServer\) mergeProperty\(")
    if not ("if !tagExisted {" in mp and "cur.Tags = append(cur.Tags, tags...)" in mp):
        raise ValueError("mergeProperty: unrecognised shape")
    rp = H.func_body(repo, "banyand/liaison/grpc/property.go", r"func \(ps \*propertyServer\) replaceProperty\(")
    if not ("cur.Metadata.CreateRevision = prev.Metadata.CreateRevision" in rp and "cur.Metadata.ModRevision = ns" in rp):
        raise ValueError("replaceProperty: unrecognised shape")
    pid = H.read(repo, "banyand/property/db/property.go")
    if 'GetEntity(prop) + "/" + strconv.FormatInt(prop.Metadata.ModRevision, 10)' not in pid:
        raise ValueError("GetPropertyID: unrecognised shape")
    f["docIdIsEntityAndRevision"] = True
    # Merkle leaf names: "%s/%s/%s" and its inverse SplitN(entity, "/", 3)
    rp2 = H.read(repo, "banyand/property/db/repair.go")
    bl = H.func_body(repo, "banyand/property/db/repair.go", r"func \(r \*repair\) buildLeafNodeEntity\(")
    m = re.search(r'fmt\.Sprintf\("%s(.)%s(.)%s", group, name, entityID\)', bl)
    if not m or m.group(1) != m.group(2):
        raise ValueError("buildLeafNodeEntity: unrecognised shape")
    f["leafSep"] = ord(m.group(1))
    pl = H.func_body(repo, "banyand/property/db/repair.go", r"func \(r \*repair\) parseLeafNodeEntity\(")
    m2 = re.search(r'strings\.(SplitN\(entity, "(.)", (\d+)\)|Split\(entity, "(.)"\))', pl)
    if not m2 or "len(parts) != 3" not in pl:
        raise ValueError("parseLeafNodeEntity: unrecognised shape")
    if m2.group(2) is not None:
        if ord(m2.group(2)) != f["leafSep"]:
            raise ValueError("parseLeafNodeEntity splits at another separator than buildLeafNodeEntity writes")
        f["leafParts"] = int(m2.group(3))
    else:
        f["leafParts"] = 0   # unbounded split: an id containing the separator cannot be parsed back
