"""Facts for C19: the *shape* of the snapshot procedures the Lean model mirrors.

Each fact is a Bool computed syntactically from the current source; `lean/Banyan/Tie/C19.lean` demands `= true`
(and equality of the exclusion list), so that an edit which changes the modelled order of steps breaks `lake build`
and names the obligation. An unrecognised function shape raises (fail closed).
"""
import re


def _body(H, repo, rel, sig):
    return H.strip_comments(H.func_body(repo, rel, sig))


def _idx(body, needle, what, rel):
    i = body.find(needle)
    if i < 0:
        raise ValueError("%s: %s not found in %s" % (rel, needle, what))
    return i


def _str_const(H, repo, rel, name):
    src = H.strip_comments(H.read(repo, rel))
    m = re.search(r"^\s*(?:const\s+)?%s\s*=\s*\"([^\"]*)\"" % re.escape(name), src, re.M)
    if not m:
        raise ValueError("%s: string constant %s not found" % (rel, name))
    return m.group(1)


def table_facts(H, repo, f, eng):
    rel = "banyand/%s/snapshot.go" % eng
    b = _body(H, repo, rel, r"func \(tst \*tsTable\) TakeFileSnapshot\(dst string\) \(success bool, err error\) \{")
    pin = _idx(b, "tst.currentSnapshot()", "TakeFileSnapshot", rel)
    unpin = _idx(b, "defer snapshot.decRef()", "TakeFileSnapshot", rel)
    loop = _idx(b, "for _, pw := range snapshot.parts", "TakeFileSnapshot", rel)
    link = _idx(b, "tst.fileSystem.CreateHardLink(srcPath, destPartPath, nil)", "TakeFileSnapshot", rel)
    meta = _idx(b, "tst.createMetadata(dst, snapshot)", "TakeFileSnapshot", rel)
    f[eng + "PinThenDeferUnpinBeforeLinks"] = pin < unpin < loop < link
    # (an unlock of the publication mutex may precede the return: repaired trace procedure)
    f[eng + "NilSnapshotReturnsErrNoCurrentSnapshot"] = re.search(
        r"if snapshot == nil \{\s*(?:tst\.snapshotPublicationMu\.R?Unlock\(\)\s*)?return false, storage\.ErrNoCurrentSnapshot\s*\}", b) is not None
    f[eng + "ErrorRemovesDst"] = re.search(
        r"defer func\(\) \{\s*if err != nil \{\s*tst\.fileSystem\.MustRMAll\(dst\)\s*\}\s*\}\(\)", b) is not None
    f[eng + "LoopSkipsMemParts"] = re.search(
        r"for _, pw := range snapshot\.parts \{\s*if pw\.mp != nil \{\s*continue\s*\}", b) is not None
    f[eng + "LinkErrorReturns"] = re.search(r"linkErr != nil \{\s*return false,", b) is not None
    f[eng + "ManifestAfterLinks"] = link < meta and b.count("tst.createMetadata(") == 1
    f[eng + "NoDiskPartsNoManifest"] = re.search(r"if !hasDiskParts \{\s*return [^\n]*, nil\s*\}\s*tst\.createMetadata", b) is not None
    c = _body(H, repo, rel, r"func \(tst \*tsTable\) createMetadata\(dst string, snapshot \*snapshot\) \{")
    # the manifest names every part of the pinned snapshot (no mem-part filter), as persistSnapshot does
    f[eng + "ManifestNamesAllParts"] = (re.search(r"for i := range snapshot\.parts \{\s*partNames = append\(partNames, partName\(snapshot\.parts\[i\]\.ID\(\)\)\)\s*\}", c)
                                        is not None and ".mp" not in c)
    f[eng + "ManifestNamedByEpoch"] = "snapshotName(snapshot.epoch)" in c
    cur = _body(H, repo, rel, r"func \(tst \*tsTable\) currentSnapshot\(\) \*snapshot \{")
    f[eng + "CurrentSnapshotIncRefUnderRLock"] = (cur.find("tst.RLock()") >= 0 and cur.find("tst.RLock()") < cur.find("s.incRef()")
                                                  and "defer tst.RUnlock()" in cur)
    prel = "banyand/%s/part.go" % eng
    d = _body(H, repo, prel, r"func \(pw \*partWrapper\) decRef\(\) \{")
    f[eng + "PartDirRemovedOnlyAtRefZeroAndRemovable"] = re.search(
        r"n := atomic\.AddInt32\(&pw\.ref, -1\)\s*if n > 0 \{\s*return\s*\}", d) is not None and re.search(
        r"if pw\.removable\.Load\(\) && pw\.p\.fileSystem != nil \{\s*go func\(pw \*partWrapper\) \{\s*pw\.p\.fileSystem\.MustRMAll\(pw\.p\.path\)", d) is not None


def trace_fence_facts(H, repo, f):
    """F19 repair: the core snapshot is pinned and the secondary indexes are hard-linked inside ONE shared section of
    the publication fence; the pin must come after the RLock (a pin taken before it can be overtaken by a queued
    publication) and the section must end before the core parts are linked."""
    rel = "banyand/trace/snapshot.go"
    b = _body(H, repo, rel, r"func \(tst \*tsTable\) TakeFileSnapshot\(dst string\) \(success bool, err error\) \{")
    rlock = _idx(b, "tst.snapshotPublicationMu.RLock()", "TakeFileSnapshot", rel)
    pin = _idx(b, "tst.currentSnapshot()", "TakeFileSnapshot", rel)
    sidx = _idx(b, "tst.takeSidxFileSnapshotsLocked(dst)", "TakeFileSnapshot", rel)
    loop = _idx(b, "for _, pw := range snapshot.parts", "TakeFileSnapshot", rel)
    f["traceCorePinnedInsideFence"] = (rlock < pin < sidx < loop and b.count("snapshotPublicationMu.RLock()") == 1
                                       and b.count("tst.currentSnapshot()") == 1)
    f["traceNilSnapshotReleasesFence"] = re.search(
        r"if snapshot == nil \{\s*tst\.snapshotPublicationMu\.RUnlock\(\)\s*return false, storage\.ErrNoCurrentSnapshot\s*\}", b) is not None
    # nothing but the helper releases the fence on the normal path, and nothing re-acquires it
    f["traceFenceReleasedOnlyByHelper"] = b.count("snapshotPublicationMu.RUnlock()") == 1 and "snapshotPublicationMu.Lock()" not in b
    h = _body(H, repo, rel, r"func \(tst \*tsTable\) takeSidxFileSnapshotsLocked\(dst string\) error \{")
    f["traceIndexLinkedInsideFence"] = (h.lstrip("{ \n\t").startswith("defer tst.snapshotPublicationMu.RUnlock()")
                                        and "v.TakeFileSnapshot(indexDir)" in h and h.count("snapshotPublicationMu") == 1)
    c = _body(H, repo, "banyand/trace/introducer.go", r"func \(tst \*tsTable\) commitSnapshotTransaction\(txn \*snapshotpkg\.Transaction\) \{")
    f["tracePublicationsHoldFenceExclusively"] = re.search(
        r"tst\.snapshotPublicationMu\.Lock\(\)\s*defer tst\.snapshotPublicationMu\.Unlock\(\)\s*txn\.Commit\(\)", c) is not None
    src = H.strip_comments(H.read(repo, "banyand/trace/introducer.go"))
    f["traceSinglePublicationSite"] = src.count("txn.Commit()") == 1


def facts(repo, f, H):
    for eng in ("measure", "stream", "trace"):
        table_facts(H, repo, f, eng)
    trace_fence_facts(H, repo, f)

    rel = "banyand/internal/storage/segment.go"
    b = _body(H, repo, rel, r"func \(s \*segment\[T, O\]\) snapshotInto\(dst string\) \(bool, error\) \{")
    f["segLockFirst"] = b.lstrip("{ \n\t").startswith("s.mu.Lock()")
    f["segDeletedSkipped"] = re.search(
        r"if atomic\.LoadUint32\(&s\.mustBeDeleted\) != 0 \{\s*s\.mu\.Unlock\(\)\s*return false, nil\s*\}", b) is not None
    f["segOpenPinsWithoutReopen"] = re.search(
        r"idx := s\.index\s*if idx != nil \{\s*atomic\.AddInt32\(&s\.refCount, 1\)\s*s\.mu\.Unlock\(\)\s*defer s\.DecRef\(\)\s*return s\.snapshotOpen\(dst, idx\)\s*\}", b) is not None
    f["segClosedLinkedUnderLock"] = re.search(r"defer s\.mu\.Unlock\(\)\s*return s\.snapshotClosed\(dst\)\s*\}\s*$", b) is not None
    c = _body(H, repo, rel, r"func \(s \*segment\[T, O\]\) snapshotClosed\(dst string\) \(bool, error\) \{")
    o = _body(H, repo, rel, r"func \(s \*segment\[T, O\]\) snapshotOpen\(dst string, idx \*seriesIndex\) \(bool, error\) \{")
    f["segClosedHardLinksWithFilter"] = "s.lfs.CreateHardLink(s.location, segPath, includeInClosedSnapshot)" in c
    f["segSnapshotNeverReopens"] = not any(k in x for x in (b, c, o) for k in ("incRef(", "acquire(", "initialize(", "openSegment("))
    f["segOpenSkipsEmptyShard"] = re.search(r"errors\.Is\(err, ErrNoCurrentSnapshot\) \{[^}]*continue\s*\}\s*return false,", o) is not None
    f["segOpenIteratesShardList"] = re.search(r"sLst := s\.sLst\.Load\(\)\s*if sLst != nil \{\s*for _, shard := range \*sLst \{", o) is not None
    inc = _body(H, repo, rel, r"func includeInClosedSnapshot\(p string\) bool \{")
    m = re.search(r"case (base == [^:]*):\s*return false\s*default:\s*return filepath\.Ext\(base\) != \"([^\"]*)\"", inc)
    if not m:
        raise ValueError("%s: includeInClosedSnapshot has an unrecognised shape" % rel)
    names = [x.strip().replace("base == ", "") for x in m.group(1).split(",")]
    vals = []
    for n in names:
        if n == "inverted.LockFilename":
            vals.append(_str_const(H, repo, "pkg/index/inverted/inverted.go", "LockFilename"))
        elif n == "inverted.ExternalSegmentTempDirName":
            vals.append(_str_const(H, repo, "pkg/index/inverted/inverted.go", "ExternalSegmentTempDirName"))
        elif n == "FailedPartsDirName":
            vals.append(_str_const(H, repo, "banyand/internal/storage/failed_parts_handler.go", "FailedPartsDirName"))
        else:
            raise ValueError("%s: includeInClosedSnapshot excludes an unknown name %s" % (rel, n))
    f["closedExcludes"] = sorted(vals) + [m.group(2)]

    dec = _body(H, repo, rel, r"func \(s \*segment\[T, O\]\) DecRef\(\) \{")
    f["segDecRefDeletesAtLastRelease"] = re.search(
        r"if current == 1 && atomic\.LoadUint32\(&s\.mustBeDeleted\) != 0 \{\s*s\.performDelete\(\)", dec) is not None
    ci = _body(H, repo, rel, r"func \(s \*segment\[T, O\]\) closeIfIdle\(idleThreshold int64\) bool \{")
    f["segCloseIfIdleRequiresRefZero"] = re.search(
        r"if s\.index == nil \|\| atomic\.LoadInt32\(&s\.refCount\) != 0 \|\|\s*atomic\.LoadUint32\(&s\.mustBeDeleted\) != 0", ci) is not None

    trel = "banyand/internal/storage/tsdb.go"
    t = _body(H, repo, trel, r"func \(d \*database\[T, O\]\) TakeFileSnapshot\(dst string\) \(success bool, err error\) \{")
    f["dbUsesCopySegments"] = "d.segmentController.copySegments()" in t and ".segments(" not in t and "selectSegments" not in t
    f["dbErrorRemovesDst"] = re.search(
        r"defer func\(\) \{\s*if err != nil \{\s*d\.lfs\.MustRMAll\(dst\)\s*\}\s*\}\(\)", t) is not None
    f["dbStopsAtFirstError"] = re.search(r"wrote, segErr := seg\.snapshotInto\(dst\)\s*if segErr != nil \{\s*return false, segErr\s*\}", t) is not None
    cs = _body(H, repo, rel, r"func \(sc \*segmentController\[T, O\]\) copySegments\(\) \[\]\*segment\[T, O\] \{")
    f["copySegmentsTouchesNothing"] = "incRef" not in cs and "refCount" not in cs and "copy(r, sc.lst)" in cs
