"""Facts for C20: count bounds per position, walk order of binder.collect / preparer.walkGrammar, accepted parameter
types per resolver, shape of the shared count guard. Syntactic; an unrecognised shape is an error."""
import re

BOUNDS = {"MaxInt32": 2147483647, "MaxUint32": 4294967295}


def _one(pattern, body, what):
    m = re.findall(pattern, body)
    if len(m) != 1:
        raise ValueError("%s: expected exactly one match of /%s/, found %d" % (what, pattern, len(m)))
    return m[0]


def _order(body, table, what):
    """positions (in source order) of the first occurrence of each marker regex"""
    pos = []
    for name, rx in table:
        m = re.search(rx, body)
        if not m:
            raise ValueError("%s: marker /%s/ for %s not found" % (what, rx, name))
        pos.append((m.start(), name))
    return [n for _, n in sorted(pos)]


def _split_select_topn(body, what):
    i = body.find("if g.Select != nil")
    j = body.find("if g.TopN != nil")
    if i < 0 or j < 0 or j < i:
        raise ValueError("%s: Select/TopN branches not found in the expected order" % what)
    return body[i:j], body[j:]


def _case_types(body, what):
    """TagValue variants named in `case` clauses before `default:`"""
    d = body.find("default:")
    if d < 0:
        raise ValueError(what + ": no default branch")
    return sorted(set(re.findall(r"\*modelv1\.TagValue_(\w+)", "\n".join(
        l for l in body[:d].split("\n") if l.strip().startswith("case ")))))


def facts(repo, f, H):
    binder = "pkg/bydbql/binder.go"
    prepared = "pkg/bydbql/prepared.go"
    sc = H.strip_comments

    collect = sc(H.func_body(repo, binder, r"func \(b \*binder\) collect\(g \*Grammar\) \{"))
    sel, top = _split_select_topn(collect, "binder.collect")
    f["bindSelTopN"] = BOUNDS[_one(r"collectIntSlot\(&topN\.N, &topN\.NParam, math\.(\w+)\)", sel, "collect SELECT TOP")]
    f["bindLimit"] = BOUNDS[_one(r"collectIntSlot\(&g\.Select\.Limit\.Value, &g\.Select\.Limit\.Param, math\.(\w+)\)", sel, "collect LIMIT")]
    f["bindOffset"] = BOUNDS[_one(r"collectIntSlot\(&g\.Select\.Offset\.Value, &g\.Select\.Offset\.Param, math\.(\w+)\)", sel, "collect OFFSET")]
    f["bindShowTopN"] = BOUNDS[_one(r"collectIntSlot\(&g\.TopN\.N, &g\.TopN\.NParam, math\.(\w+)\)", top, "collect SHOW TOP")]
    f["bindSelectOrder"] = _order(sel, [("topN", r"topN\.NParam"), ("time", r"collectTime\("), ("where", r"collectOrExpr\("),
                                        ("limit", r"Limit\.Param"), ("offset", r"Offset\.Param")], "collect SELECT")
    f["bindTopNOrder"] = _order(top, [("n", r"TopN\.NParam"), ("time", r"collectTime\("), ("where", r"collectAndExpr\(")], "collect TOPN")

    walk = sc(H.func_body(repo, prepared, r"func \(p \*preparer\) walkGrammar\(g \*Grammar\) \{"))
    wsel, wtop = _split_select_topn(walk, "preparer.walkGrammar")
    f["prepSelTopN"] = BOUNDS[_one(r"topN\.NParamIndex = p\.add\(phCount, math\.(\w+)\)", wsel, "walk SELECT TOP")]
    f["prepLimit"] = BOUNDS[_one(r"Limit\.ParamIndex = p\.add\(phCount, math\.(\w+)\)", wsel, "walk LIMIT")]
    f["prepOffset"] = BOUNDS[_one(r"Offset\.ParamIndex = p\.add\(phCount, math\.(\w+)\)", wsel, "walk OFFSET")]
    f["prepShowTopN"] = BOUNDS[_one(r"g\.TopN\.NParamIndex = p\.add\(phCount, math\.(\w+)\)", wtop, "walk SHOW TOP")]
    f["prepSelectOrder"] = _order(wsel, [("topN", r"topN\.NParamIndex"), ("time", r"walkTime\("), ("where", r"walkOrExpr\("),
                                         ("limit", r"Limit\.ParamIndex"), ("offset", r"Offset\.ParamIndex")], "walk SELECT")
    f["prepTopNOrder"] = _order(wtop, [("n", r"TopN\.NParamIndex"), ("time", r"walkTime\("), ("where", r"walkAndExpr\(")], "walk TOPN")

    vg = sc(H.func_body(repo, binder, r"func validateGrammarCounts\(g \*Grammar\) error \{"))
    f["litSelTopN"] = BOUNDS[_one(r'validateCountValue\("TOP", int64\(g\.Select\.Projection\.TopN\.N\), math\.(\w+)\)', vg, "literal TOP")]
    f["litLimit"] = BOUNDS[_one(r'validateCountValue\("LIMIT", int64\(g\.Select\.Limit\.Value\), math\.(\w+)\)', vg, "literal LIMIT")]
    f["litOffset"] = BOUNDS[_one(r'validateCountValue\("OFFSET", int64\(g\.Select\.Offset\.Value\), math\.(\w+)\)', vg, "literal OFFSET")]
    f["litShowTopN"] = BOUNDS[_one(r'validateCountValue\("SHOW TOP", int64\(g\.TopN\.N\), math\.(\w+)\)', vg, "literal SHOW TOP")]

    vc = sc(H.func_body(repo, binder, r"func validateCountValue\(label string, value, maxValue int64\) error \{"))
    f["countGuardShape"] = bool(re.search(r"if value < 0 \|\| value > maxValue \{\s*return fmt\.Errorf", vc))
    rc = sc(H.func_body(repo, binder, r"func resolveCountParam\(p \*modelv1\.TagValue, maxValue int64\) \(int, error\) \{"))
    f["boundPathUsesGuard"] = bool(re.search(r'validateCountValue\("int parameter", bound, maxValue\)', rc))
    f["countTypes"] = sorted(set(re.findall(r"p\.Value\.\(\*modelv1\.TagValue_(\w+)\)", rc)))

    f["scalarTypes"] = _case_types(sc(H.func_body(repo, binder, r"func resolveScalarParam\(p \*modelv1\.TagValue\) \(\*GrammarValue, error\) \{")), "resolveScalarParam")
    f["timeTypes"] = _case_types(sc(H.func_body(repo, binder, r"func resolveTimeParam\(p \*modelv1\.TagValue\) \(string, error\) \{")), "resolveTimeParam")
    f["arrayTypes"] = _case_types(sc(H.func_body(repo, binder, r"func resolveArrayElements\(p \*modelv1\.TagValue\) \(\[\]\*GrammarValue, error\) \{")), "resolveArrayElements")
    f["listScalarTypes"] = _case_types(sc(H.func_body(repo, binder, r"func resolveListParam\(p \*modelv1\.TagValue\) \(\[\]\*GrammarValue, error\) \{")), "resolveListParam")
    f["bindListScalarTypes"] = _case_types(sc(H.func_body(repo, binder, r"func \(b \*binder\) bindListValue\(v \*GrammarValue, p \*modelv1\.TagValue\) error \{")), "bindListValue")

    kinds = H.iota_block(repo, prepared, "phScalar")
    for k, v in kinds.items():
        f[k] = v
