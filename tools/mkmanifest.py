#!/usr/bin/env python3
"""Regenerates /verif/MANIFEST.json from the table below (kept in one place so it stays valid)."""
import json
import os

HERE = os.path.dirname(os.path.dirname(os.path.abspath(__file__)))
ALL = ["C%02d" % i for i in range(1, 21)]

def load_claimed():
    """one fragment per claimed property: checks/Cxx.manifest.json with keys
    category, text, design_ref, note, technique"""
    out = {}
    d = os.path.join(HERE, "checks")
    for f in sorted(os.listdir(d)):
        if f.endswith(".manifest.json"):
            out[f.split(".")[0]] = json.load(open(os.path.join(d, f)))
    return out


CLAIMED = load_claimed()
NA_REASONS = json.load(open(os.path.join(HERE, "checks", "not_applicable.json"))) if os.path.exists(os.path.join(HERE, "checks", "not_applicable.json")) else {}

NOT_YET = "no check built yet in this tree (work in progress; see DESIGN.md section 6 for the intended model and theorems)"


def main():
    checks = []
    for pid in ALL:
        if pid not in CLAIMED:
            continue
        c = CLAIMED[pid]
        checks.append({
            "property_id": pid,
            "quick_cmd": "bin/check %s --tier quick" % pid,
            "thorough_cmd": "bin/check %s --tier thorough" % pid,
            "evidence_file": "evidence/%s.json" % pid,
            "replay_cmd_template": "bin/check %s --replay {path}" % pid,
            "engine": "lean-proof+correspondence",
            "level_claimed": {"category": c["category"], "text": c["text"], "design_ref": c["design_ref"]},
            "level_note": c["note"],
            "technique": c["technique"],
        })
    m = {
        "version": 1,
        "setup_cmd": "bin/setup",
        "hooks": {
            "guard": "verif",
            "enable": "go build -tags verif -overlay /verif/.build/overlay.json (hooks live in /verif/hooks and are injected by overlay; /repo carries no hook commits)",
            "baseline_off_cmd": "cd /repo && go test -mod=mod -json -vet=off -count=1 -timeout 25m ./...",
            "source_commits": [],
            "add_only": True,
        },
        "engines": [{
            "name": "lean-proof+correspondence", "path": "lean/ + hooks/ + checks/ + lib/vlib.py",
            "serves_properties": sorted(CLAIMED),
            "kind_free_text": "Lean 4 theorems about executable models; Go drivers run the real code in-process on the same "
                              "line-protocol inputs as the compiled Lean model; property oracle on the implementation output",
        }],
        "checks": checks,
        "not_applicable": [{"property_id": p, "reason": NA_REASONS.get(p, NOT_YET)} for p in ALL if p not in CLAIMED],
        "notes": "See DESIGN.md. KNOWN_FINDINGS.txt lists known findings and fixed defects.",
    }
    with open(os.path.join(HERE, "MANIFEST.json"), "w") as fh:
        json.dump(m, fh, indent=1)
        fh.write("\n")


if __name__ == "__main__":
    main()
