#!/usr/bin/env python3
"""Regenerates /verif/MANIFEST.json from the table below (kept in one place so it stays valid)."""
import json
import os

HERE = os.path.dirname(os.path.dirname(os.path.abspath(__file__)))
ALL = ["C%02d" % i for i in range(1, 21)]

CLAIMED = {
    "C12": {
        "category": "proof",
        "text": "Lean 4 theorems over an executable model of pkg/convert ordered encodings and pkg/pb/v1 series marshalling: "
                "int64/int32 byte order = signed order and round trip for every value; float64 byte order = IEEE order "
                "and bit-exact round trip for every bit pattern; Series.Marshal injective and Unmarshal∘Marshal = normalise "
                "for all subjects/values. Model tied to the Go code by a byte-exact differential run on every check.",
        "design_ref": "DESIGN.md 6/C12",
        "note": "Lean kernel; bv_decide leaf lemmas in Banyan/Lemmas/Bits.lean (enumerated in evidence); correspondence "
                "check (random+edge pools); xxhash is a parameter; IEEE `>=` modelled on bit patterns.",
        "technique": "Lean 4 proof (round-trip/order/injectivity theorems) + byte-exact model/implementation correspondence",
    },
}

NOT_YET = "no check built yet in this tree (work in progress; see DESIGN.md section 6 for the intended model and theorems)"


def main():
    checks = []
    for pid in ALL:
        if pid not in CLAIMED:
            continue
        c = CLAIMED[pid]
        checks.append({
            "property_id": pid,
            "quick_cmd": "bin/check %s --tier quick" % pid,
            "thorough_cmd": "bin/check %s --tier thorough" % pid,
            "evidence_file": "evidence/%s.json" % pid,
            "replay_cmd_template": "bin/check %s --replay {path}" % pid,
            "engine": "lean-proof+correspondence",
            "level_claimed": {"category": c["category"], "text": c["text"], "design_ref": c["design_ref"]},
            "level_note": c["note"],
            "technique": c["technique"],
        })
    m = {
        "version": 1,
        "setup_cmd": "bin/setup",
        "hooks": {
            "guard": "verif",
            "enable": "go build -tags verif -overlay /verif/.build/overlay.json (hooks live in /verif/hooks and are injected by overlay; /repo carries no hook commits)",
            "baseline_off_cmd": "cd /repo && go test -mod=mod -json -vet=off -count=1 -timeout 25m ./...",
            "source_commits": [],
            "add_only": True,
        },
        "engines": [{
            "name": "lean-proof+correspondence", "path": "lean/ + hooks/ + checks/ + lib/vlib.py",
            "serves_properties": sorted(CLAIMED),
            "kind_free_text": "Lean 4 theorems about executable models; Go drivers run the real code in-process on the same "
                              "line-protocol inputs as the compiled Lean model; property oracle on the implementation output",
        }],
        "checks": checks,
        "not_applicable": [{"property_id": p, "reason": NOT_YET} for p in ALL if p not in CLAIMED],
        "notes": "See DESIGN.md. KNOWN_FINDINGS.txt lists known findings and fixed defects.",
    }
    with open(os.path.join(HERE, "MANIFEST.json"), "w") as fh:
        json.dump(m, fh, indent=1)
        fh.write("\n")


if __name__ == "__main__":
    main()
