#!/bin/bash
# mkworktree.sh <dir>: scratch git worktree of /repo at HEAD, made buildable by dropping the
# regenerated protobuf Go files in as untracked files (they are not part of any patch made with `git diff`).
set -e
d="$1"
git -C /repo worktree add --detach "$d" HEAD >/dev/null
python3 - "$d" <<'PY'
import sys, os, shutil
sys.path.insert(0, "/verif/lib")
import vlib
repl = vlib.ensure_pb()
root = os.path.join("/repo", "api", "proto")
for virt, real in repl.items():
    dst = os.path.join(sys.argv[1], "api", "proto", os.path.relpath(virt, root))
    os.makedirs(os.path.dirname(dst), exist_ok=True)
    shutil.copy(real, dst)
PY
# keep the generated files out of `git status` / `git diff`
( cd "$d" && git ls-files --others --exclude-standard api/proto | sed 's#^#/#' >> "$(git rev-parse --git-path info/exclude)" ) || true

# mockgen outputs (git-ignored upstream) so that upstream test packages and demo tests compile; best effort.
# Generated once into /verif/.build/mocks and copied afterwards.
if [ -z "$NO_MOCKS" ]; then
  cache=/verif/.build/mocks
  if [ ! -f "$cache/.done" ]; then
    mkdir -p "$cache"
    ( cd "$d" && export GOFLAGS=-mod=mod GOPROXY=off && unset GOTOOLCHAIN GOSUMDB && \
      grep -rn "go:generate mockgen" --include=*.go . | while IFS=: read -r file line rest; do
        dir=$(dirname "$file"); args=$(echo "$rest" | sed 's#^//go:generate mockgen ##')
        ( cd "$dir" && go run go.uber.org/mock/mockgen $args >/dev/null 2>&1 ) || true
      done
      git ls-files --others --ignored --exclude-standard | grep '_mock\.go$' | while read -r f; do
        mkdir -p "$cache/$(dirname "$f")"; cp "$f" "$cache/$f"; done ) || true
    touch "$cache/.done"
  else
    ( cd "$cache" && find . -name '*_mock.go' | while read -r f; do mkdir -p "$d/$(dirname "$f")"; cp "$f" "$d/$f"; done )
  fi
fi
echo "$d"
