#!/bin/bash
# mkworktree.sh <dir>: scratch git worktree of /repo at HEAD, made buildable by dropping the
# regenerated protobuf Go files in as untracked files (they are not part of any patch made with `git diff`).
set -e
d="$1"
git -C /repo worktree add --detach "$d" HEAD >/dev/null
python3 - "$d" <<'PY'
import sys, os, shutil
sys.path.insert(0, "/verif/lib")
import vlib
repl = vlib.ensure_pb()
root = os.path.join("/repo", "api", "proto")
for virt, real in repl.items():
    dst = os.path.join(sys.argv[1], "api", "proto", os.path.relpath(virt, root))
    os.makedirs(os.path.dirname(dst), exist_ok=True)
    shutil.copy(real, dst)
PY
# keep the generated files out of `git status` / `git diff`
( cd "$d" && git ls-files --others --exclude-standard api/proto | sed 's#^#/#' >> "$(git rev-parse --git-path info/exclude)" ) || true
echo "$d"
