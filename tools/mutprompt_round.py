import json,sys,glob,os,subprocess
pid=sys.argv[1]
base=subprocess.run(['python3','/tmp/mutprompt.py',pid],capture_output=True,text=True).stdout
prev=[]
for f in sorted(glob.glob('/tmp/mutprev/%s/*/meta.json'%pid)):
    try:
        m=json.load(open(f)); prev.append("- "+(m.get('summary') or '')[:400].replace('\n',' '))
    except Exception: pass
base=base.replace('/out/m<i>/','/out/r<i>/').replace('out/m<i>/','out/r<i>/').replace('zz_mut_demo<i>_test.go','zz_mut3_demo<i>_test.go').replace('out/m1','out/r1')
extra="\n\nThis is a THIRD round. The following changes were already produced in an earlier round; do NOT repeat them or close variants of them (different function or different mechanism, please; prefer code paths and engines the earlier ones did not touch – e.g. if earlier ones were in the measure engine look at stream/trace/sidx/property/liaison code that the property also depends on):\n"+"\n".join(prev)+"\n\nDeliver into out/r1, out/r2, out/r3 (not out/m* or out/n*). Ask for TWO mutants only this round if time is short: quality over count.\n"
print(base+extra)
