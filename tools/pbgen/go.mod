module pbgen

go 1.25.13

require google.golang.org/protobuf v1.36.12
