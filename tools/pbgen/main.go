package main

import (
	"flag"
	"fmt"
	"os"
	"path/filepath"
	"sort"
	"strings"

	gengo "google.golang.org/protobuf/cmd/protoc-gen-go/internal_gengo"
	"google.golang.org/protobuf/compiler/protogen"
	"google.golang.org/protobuf/proto"
	"google.golang.org/protobuf/reflect/protodesc"
	"google.golang.org/protobuf/reflect/protoreflect"
	"google.golang.org/protobuf/reflect/protoregistry"
	"google.golang.org/protobuf/types/descriptorpb"
	"google.golang.org/protobuf/types/pluginpb"

	_ "google.golang.org/protobuf/types/known/anypb"
	_ "google.golang.org/protobuf/types/known/durationpb"
	_ "google.golang.org/protobuf/types/known/structpb"
	_ "google.golang.org/protobuf/types/known/timestamppb"
)

var droppedImports = map[string]bool{
	"validate/validate.proto":                        true,
	"google/api/annotations.proto":                   true,
	"protoc-gen-openapiv2/options/annotations.proto": true,
}

type symtab struct {
	kinds map[string]string // full name -> "msg" | "enum" | "pkg"
}

func (s *symtab) addPkg(pkg string) {
	parts := strings.Split(pkg, ".")
	for i := 1; i <= len(parts); i++ {
		n := strings.Join(parts[:i], ".")
		if _, ok := s.kinds[n]; !ok {
			s.kinds[n] = "pkg"
		}
	}
}

func (s *symtab) addMsg(prefix string, m *descriptorpb.DescriptorProto) {
	fq := prefix + "." + m.GetName()
	s.kinds[fq] = "msg"
	for _, n := range m.NestedType {
		s.addMsg(fq, n)
	}
	for _, e := range m.EnumType {
		s.kinds[fq+"."+e.GetName()] = "enum"
	}
}

func (s *symtab) addFile(fd *descriptorpb.FileDescriptorProto) {
	s.addPkg(fd.GetPackage())
	for _, m := range fd.MessageType {
		s.addMsg(fd.GetPackage(), m)
	}
	for _, e := range fd.EnumType {
		s.kinds[fd.GetPackage()+"."+e.GetName()] = "enum"
	}
}

func (s *symtab) resolve(scope, ref string) (string, string) {
	if strings.HasPrefix(ref, ".") {
		k, ok := s.kinds[ref[1:]]
		if !ok {
			panic("unresolved " + ref)
		}
		return ref, k
	}
	first := ref
	if i := strings.Index(ref, "."); i >= 0 {
		first = ref[:i]
	}
	for {
		cand := first
		full := ref
		if scope != "" {
			cand = scope + "." + first
			full = scope + "." + ref
		}
		if _, ok := s.kinds[cand]; ok {
			if k, ok2 := s.kinds[full]; ok2 && k != "pkg" {
				return "." + full, k
			}
			// protoc would error here; keep searching outward for robustness
		}
		if scope == "" {
			panic(fmt.Sprintf("unresolved type %q", ref))
		}
		if i := strings.LastIndex(scope, "."); i >= 0 {
			scope = scope[:i]
		} else {
			scope = ""
		}
	}
}

func (s *symtab) fixField(scope string, f *descriptorpb.FieldDescriptorProto) {
	if f.TypeName == nil || f.Type != nil && f.GetType() != descriptorpb.FieldDescriptorProto_TYPE_MESSAGE {
		return
	}
	full, kind := s.resolve(scope, f.GetTypeName())
	f.TypeName = proto.String(full)
	if kind == "enum" {
		f.Type = descriptorpb.FieldDescriptorProto_TYPE_ENUM.Enum()
	} else {
		f.Type = descriptorpb.FieldDescriptorProto_TYPE_MESSAGE.Enum()
	}
}

func (s *symtab) fixMsg(prefix string, m *descriptorpb.DescriptorProto) {
	fq := prefix + "." + m.GetName()
	for _, f := range m.Field {
		s.fixField(fq, f)
	}
	for _, n := range m.NestedType {
		s.fixMsg(fq, n)
	}
}

func main() {
	root := flag.String("proto", "/repo/api/proto", "proto root")
	out := flag.String("out", "", "output root (mirrors module path)")
	flag.Parse()
	var names []string
	_ = filepath.Walk(*root, func(path string, info os.FileInfo, err error) error {
		if err == nil && strings.HasSuffix(path, ".proto") {
			rel, _ := filepath.Rel(*root, path)
			names = append(names, rel)
		}
		return nil
	})
	sort.Strings(names)
	files := map[string]*descriptorpb.FileDescriptorProto{}
	st := &symtab{kinds: map[string]string{}}
	for _, n := range names {
		src, err := os.ReadFile(filepath.Join(*root, n))
		if err != nil {
			panic(err)
		}
		fd := parseFile(n, string(src))
		var deps []string
		for _, d := range fd.Dependency {
			if !droppedImports[d] {
				deps = append(deps, d)
			}
		}
		fd.Dependency = deps
		files[n] = fd
		st.addFile(fd)
	}
	// well-known types
	wkt := map[string]*descriptorpb.FileDescriptorProto{}
	protoregistry.GlobalFiles.RangeFiles(func(f protoreflect.FileDescriptor) bool {
		fd := protodesc.ToFileDescriptorProto(f)
		wkt[f.Path()] = fd
		st.addFile(fd)
		return true
	})
	for _, fd := range files {
		for _, m := range fd.MessageType {
			st.fixMsg(fd.GetPackage(), m)
		}
		for _, sv := range fd.Service {
			for _, m := range sv.Method {
				in, _ := st.resolve(fd.GetPackage(), m.GetInputType())
				o, _ := st.resolve(fd.GetPackage(), m.GetOutputType())
				m.InputType, m.OutputType = proto.String(in), proto.String(o)
			}
		}
	}
	// topological order
	var order []*descriptorpb.FileDescriptorProto
	seen := map[string]bool{}
	var visit func(n string)
	visit = func(n string) {
		if seen[n] {
			return
		}
		seen[n] = true
		fd := files[n]
		if fd == nil {
			fd = wkt[n]
		}
		if fd == nil {
			panic("missing import " + n)
		}
		for _, d := range fd.Dependency {
			visit(d)
		}
		order = append(order, fd)
	}
	for _, n := range names {
		visit(n)
	}
	req := &pluginpb.CodeGeneratorRequest{
		FileToGenerate: names,
		Parameter:      proto.String("paths=source_relative"),
		ProtoFile:      order,
	}
	gen, err := protogen.Options{}.New(req)
	if err != nil {
		panic(err)
	}
	for _, f := range gen.Files {
		if f.Generate {
			gengo.GenerateFile(gen, f)
			genExtras(gen, f)
		}
	}
	resp := gen.Response()
	if resp.Error != nil {
		panic(*resp.Error)
	}
	for _, f := range resp.File {
		p := filepath.Join(*out, f.GetName())
		if err := os.MkdirAll(filepath.Dir(p), 0o755); err != nil {
			panic(err)
		}
		if err := os.WriteFile(p, []byte(f.GetContent()), 0o644); err != nil {
			panic(err)
		}
	}
	fmt.Printf("generated %d files\n", len(resp.File))
}
