package main

// A small proto3 parser producing FileDescriptorProto. Options other than
// go_package are parsed and discarded (custom options: validate, http, openapi).

import (
	"fmt"
	"strconv"
	"strings"

	"google.golang.org/protobuf/proto"
	"google.golang.org/protobuf/types/descriptorpb"
)

type tok struct {
	kind string // ident, int, float, str, sym, eof
	val  string
	line int
}

func lex(src string) ([]tok, error) {
	var out []tok
	i, line := 0, 1
	n := len(src)
	for i < n {
		c := src[i]
		switch {
		case c == '\n':
			line++
			i++
		case c == ' ' || c == '\t' || c == '\r':
			i++
		case c == '/' && i+1 < n && src[i+1] == '/':
			for i < n && src[i] != '\n' {
				i++
			}
		case c == '/' && i+1 < n && src[i+1] == '*':
			j := strings.Index(src[i+2:], "*/")
			if j < 0 {
				return nil, fmt.Errorf("line %d: unterminated comment", line)
			}
			line += strings.Count(src[i:i+2+j+2], "\n")
			i += 2 + j + 2
		case c == '"' || c == '\'':
			q := c
			j := i + 1
			var sb strings.Builder
			for j < n && src[j] != q {
				if src[j] == '\\' && j+1 < n {
					sb.WriteByte(src[j])
					sb.WriteByte(src[j+1])
					j += 2
					continue
				}
				if src[j] == '\n' {
					line++
				}
				sb.WriteByte(src[j])
				j++
			}
			if j >= n {
				return nil, fmt.Errorf("line %d: unterminated string", line)
			}
			s, err := strconv.Unquote(`"` + strings.ReplaceAll(sb.String(), `"`, `\"`) + `"`)
			if err != nil {
				s = sb.String()
			}
			out = append(out, tok{"str", s, line})
			i = j + 1
		case isIdentStart(c):
			j := i
			for j < n && (isIdentStart(src[j]) || (src[j] >= '0' && src[j] <= '9') || src[j] == '.') {
				j++
			}
			out = append(out, tok{"ident", src[i:j], line})
			i = j
		case (c >= '0' && c <= '9') || (c == '-' && i+1 < n && src[i+1] >= '0' && src[i+1] <= '9') || (c == '.' && i+1 < n && src[i+1] >= '0' && src[i+1] <= '9'):
			j := i + 1
			for j < n && (isIdentStart(src[j]) || (src[j] >= '0' && src[j] <= '9') || src[j] == '.' || ((src[j] == '+' || src[j] == '-') && (src[j-1] == 'e' || src[j-1] == 'E'))) {
				j++
			}
			out = append(out, tok{"num", src[i:j], line})
			i = j
		default:
			out = append(out, tok{"sym", string(c), line})
			i++
		}
	}
	out = append(out, tok{"eof", "", line})
	return out, nil
}

func isIdentStart(c byte) bool {
	return c == '_' || (c >= 'a' && c <= 'z') || (c >= 'A' && c <= 'Z')
}

type parser struct {
	toks []tok
	pos  int
	file string
}

func (p *parser) peek() tok { return p.toks[p.pos] }
func (p *parser) next() tok  { t := p.toks[p.pos]; p.pos++; return t }
func (p *parser) fail(format string, a ...any) {
	panic(fmt.Sprintf("%s:%d: %s", p.file, p.peek().line, fmt.Sprintf(format, a...)))
}

func (p *parser) expectSym(s string) {
	t := p.next()
	if t.kind != "sym" || t.val != s {
		p.pos--
		p.fail("expected %q got %q", s, t.val)
	}
}

func (p *parser) isSym(s string) bool {
	t := p.peek()
	return t.kind == "sym" && t.val == s
}

func (p *parser) ident() string {
	t := p.next()
	if t.kind != "ident" {
		p.pos--
		p.fail("expected identifier got %q", t.val)
	}
	return t.val
}

func (p *parser) intLit() int32 {
	t := p.next()
	if t.kind != "num" {
		p.pos--
		p.fail("expected number got %q", t.val)
	}
	v, err := strconv.ParseInt(t.val, 0, 32)
	if err != nil {
		p.fail("bad int %q", t.val)
	}
	return int32(v)
}

// skipOptionValue consumes a constant: scalar, or aggregate {...}.
func (p *parser) skipConst() string {
	if p.isSym("{") {
		depth := 0
		for {
			t := p.next()
			if t.kind == "eof" {
				p.fail("eof in aggregate")
			}
			if t.kind == "sym" && t.val == "{" {
				depth++
			}
			if t.kind == "sym" && t.val == "}" {
				depth--
				if depth == 0 {
					return ""
				}
			}
		}
	}
	t := p.next()
	if t.kind == "sym" && (t.val == "-" || t.val == "+") {
		t = p.next()
	}
	v := t.val
	// adjacent string literal concatenation
	for t.kind == "str" && p.peek().kind == "str" {
		v += p.next().val
	}
	return v
}

// optionName parses name like foo, (a.b).c.d
func (p *parser) optionName() string {
	var sb strings.Builder
	for {
		if p.isSym("(") {
			p.next()
			sb.WriteString("(" + p.ident() + ")")
			p.expectSym(")")
		} else if p.peek().kind == "ident" {
			sb.WriteString(p.ident())
		} else if p.isSym(".") {
			p.next()
			sb.WriteString(".")
		} else {
			break
		}
	}
	return sb.String()
}

// bracketOptions parses [a = b, (x).y = {..}] and returns simple ones.
func (p *parser) bracketOptions() map[string]string {
	res := map[string]string{}
	if !p.isSym("[") {
		return res
	}
	p.next()
	for {
		name := p.optionName()
		p.expectSym("=")
		res[name] = p.skipConst()
		if p.isSym(",") {
			p.next()
			continue
		}
		p.expectSym("]")
		return res
	}
}

func parseFile(name, src string) *descriptorpb.FileDescriptorProto {
	toks, err := lex(src)
	if err != nil {
		panic(err)
	}
	p := &parser{toks: toks, file: name}
	fd := &descriptorpb.FileDescriptorProto{Name: proto.String(name)}
	for p.peek().kind != "eof" {
		if p.isSym(";") {
			p.next()
			continue
		}
		kw := p.ident()
		switch kw {
		case "syntax":
			p.expectSym("=")
			s := p.next().val
			fd.Syntax = proto.String(s)
			p.expectSym(";")
		case "package":
			fd.Package = proto.String(p.ident())
			p.expectSym(";")
		case "import":
			if p.peek().kind == "ident" {
				p.next()
			}
			fd.Dependency = append(fd.Dependency, p.next().val)
			p.expectSym(";")
		case "option":
			name := p.optionName()
			p.expectSym("=")
			v := p.skipConst()
			p.expectSym(";")
			if name == "go_package" {
				if fd.Options == nil {
					fd.Options = &descriptorpb.FileOptions{}
				}
				fd.Options.GoPackage = proto.String(v)
			}
		case "message":
			fd.MessageType = append(fd.MessageType, p.message())
		case "enum":
			fd.EnumType = append(fd.EnumType, p.enum())
		case "service":
			fd.Service = append(fd.Service, p.service())
		default:
			p.fail("unexpected top-level %q", kw)
		}
	}
	return fd
}

var scalarTypes = map[string]descriptorpb.FieldDescriptorProto_Type{
	"double": descriptorpb.FieldDescriptorProto_TYPE_DOUBLE, "float": descriptorpb.FieldDescriptorProto_TYPE_FLOAT,
	"int32": descriptorpb.FieldDescriptorProto_TYPE_INT32, "int64": descriptorpb.FieldDescriptorProto_TYPE_INT64,
	"uint32": descriptorpb.FieldDescriptorProto_TYPE_UINT32, "uint64": descriptorpb.FieldDescriptorProto_TYPE_UINT64,
	"sint32": descriptorpb.FieldDescriptorProto_TYPE_SINT32, "sint64": descriptorpb.FieldDescriptorProto_TYPE_SINT64,
	"fixed32": descriptorpb.FieldDescriptorProto_TYPE_FIXED32, "fixed64": descriptorpb.FieldDescriptorProto_TYPE_FIXED64,
	"sfixed32": descriptorpb.FieldDescriptorProto_TYPE_SFIXED32, "sfixed64": descriptorpb.FieldDescriptorProto_TYPE_SFIXED64,
	"bool": descriptorpb.FieldDescriptorProto_TYPE_BOOL, "string": descriptorpb.FieldDescriptorProto_TYPE_STRING,
	"bytes": descriptorpb.FieldDescriptorProto_TYPE_BYTES,
}

func setType(f *descriptorpb.FieldDescriptorProto, typ string) {
	if t, ok := scalarTypes[typ]; ok {
		f.Type = t.Enum()
	} else {
		f.TypeName = proto.String(typ) // resolved later
	}
}

func camel(s string) string {
	var sb strings.Builder
	up := true
	for _, r := range s {
		if r == '_' {
			up = true
			continue
		}
		if up {
			sb.WriteString(strings.ToUpper(string(r)))
			up = false
		} else {
			sb.WriteRune(r)
		}
	}
	return sb.String()
}

func (p *parser) field(label string, oneofIdx *int32, msg *descriptorpb.DescriptorProto) *descriptorpb.FieldDescriptorProto {
	f := &descriptorpb.FieldDescriptorProto{}
	typ := p.ident()
	if typ == "map" {
		p.expectSym("<")
		kt := p.ident()
		p.expectSym(",")
		vt := p.ident()
		p.expectSym(">")
		name := p.ident()
		p.expectSym("=")
		num := p.intLit()
		p.bracketOptions()
		p.expectSym(";")
		entry := &descriptorpb.DescriptorProto{
			Name:    proto.String(camel(name) + "Entry"),
			Options: &descriptorpb.MessageOptions{MapEntry: proto.Bool(true)},
		}
		kf := &descriptorpb.FieldDescriptorProto{Name: proto.String("key"), Number: proto.Int32(1), Label: descriptorpb.FieldDescriptorProto_LABEL_OPTIONAL.Enum(), JsonName: proto.String("key")}
		setType(kf, kt)
		vf := &descriptorpb.FieldDescriptorProto{Name: proto.String("value"), Number: proto.Int32(2), Label: descriptorpb.FieldDescriptorProto_LABEL_OPTIONAL.Enum(), JsonName: proto.String("value")}
		setType(vf, vt)
		entry.Field = []*descriptorpb.FieldDescriptorProto{kf, vf}
		msg.NestedType = append(msg.NestedType, entry)
		f.Name = proto.String(name)
		f.Number = proto.Int32(num)
		f.Label = descriptorpb.FieldDescriptorProto_LABEL_REPEATED.Enum()
		f.Type = descriptorpb.FieldDescriptorProto_TYPE_MESSAGE.Enum()
		f.TypeName = proto.String(entry.GetName())
		f.JsonName = proto.String(jsonName(name))
		return f
	}
	setType(f, typ)
	f.Name = proto.String(p.ident())
	p.expectSym("=")
	f.Number = proto.Int32(p.intLit())
	opts := p.bracketOptions()
	if opts["deprecated"] == "true" {
		f.Options = &descriptorpb.FieldOptions{Deprecated: proto.Bool(true)}
	}
	p.expectSym(";")
	switch label {
	case "repeated":
		f.Label = descriptorpb.FieldDescriptorProto_LABEL_REPEATED.Enum()
	default:
		f.Label = descriptorpb.FieldDescriptorProto_LABEL_OPTIONAL.Enum()
	}
	if label == "optional" {
		f.Proto3Optional = proto.Bool(true)
	}
	if oneofIdx != nil {
		f.OneofIndex = proto.Int32(*oneofIdx)
	}
	f.JsonName = proto.String(jsonName(f.GetName()))
	return f
}

func jsonName(s string) string {
	c := camel(s)
	if c == "" {
		return c
	}
	// lowerCamel, but protoc only lowercases nothing: it keeps first char as is from source
	var sb strings.Builder
	up := false
	for _, r := range s {
		if r == '_' {
			up = true
			continue
		}
		if up {
			sb.WriteString(strings.ToUpper(string(r)))
			up = false
		} else {
			sb.WriteRune(r)
		}
	}
	return sb.String()
}

func (p *parser) message() *descriptorpb.DescriptorProto {
	m := &descriptorpb.DescriptorProto{Name: proto.String(p.ident())}
	p.expectSym("{")
	var optionalFields []*descriptorpb.FieldDescriptorProto
	for !p.isSym("}") {
		if p.isSym(";") {
			p.next()
			continue
		}
		t := p.peek()
		if t.kind != "ident" {
			p.fail("unexpected %q in message", t.val)
		}
		switch t.val {
		case "message":
			p.next()
			m.NestedType = append(m.NestedType, p.message())
		case "enum":
			p.next()
			m.EnumType = append(m.EnumType, p.enum())
		case "option":
			p.next()
			p.optionName()
			p.expectSym("=")
			p.skipConst()
			p.expectSym(";")
		case "reserved":
			p.next()
			for !p.isSym(";") {
				p.next()
			}
			p.next()
		case "oneof":
			p.next()
			idx := int32(len(m.OneofDecl))
			m.OneofDecl = append(m.OneofDecl, &descriptorpb.OneofDescriptorProto{Name: proto.String(p.ident())})
			p.expectSym("{")
			for !p.isSym("}") {
				if p.peek().kind == "ident" && p.peek().val == "option" {
					p.next()
					p.optionName()
					p.expectSym("=")
					p.skipConst()
					p.expectSym(";")
					continue
				}
				m.Field = append(m.Field, p.field("", &idx, m))
			}
			p.next()
		case "repeated", "optional":
			p.next()
			f := p.field(t.val, nil, m)
			m.Field = append(m.Field, f)
			if t.val == "optional" {
				optionalFields = append(optionalFields, f)
			}
		default:
			m.Field = append(m.Field, p.field("", nil, m))
		}
	}
	p.next()
	for _, f := range optionalFields {
		idx := int32(len(m.OneofDecl))
		m.OneofDecl = append(m.OneofDecl, &descriptorpb.OneofDescriptorProto{Name: proto.String("_" + f.GetName())})
		f.OneofIndex = proto.Int32(idx)
	}
	return m
}

func (p *parser) enum() *descriptorpb.EnumDescriptorProto {
	e := &descriptorpb.EnumDescriptorProto{Name: proto.String(p.ident())}
	p.expectSym("{")
	for !p.isSym("}") {
		if p.isSym(";") {
			p.next()
			continue
		}
		name := p.ident()
		switch name {
		case "option":
			on := p.optionName()
			p.expectSym("=")
			v := p.skipConst()
			p.expectSym(";")
			if on == "allow_alias" && v == "true" {
				e.Options = &descriptorpb.EnumOptions{AllowAlias: proto.Bool(true)}
			}
		case "reserved":
			for !p.isSym(";") {
				p.next()
			}
			p.next()
		default:
			p.expectSym("=")
			neg := false
			if p.isSym("-") {
				p.next()
				neg = true
			}
			n := p.intLit()
			if neg {
				n = -n
			}
			p.bracketOptions()
			p.expectSym(";")
			e.Value = append(e.Value, &descriptorpb.EnumValueDescriptorProto{Name: proto.String(name), Number: proto.Int32(n)})
		}
	}
	p.next()
	return e
}

func (p *parser) service() *descriptorpb.ServiceDescriptorProto {
	s := &descriptorpb.ServiceDescriptorProto{Name: proto.String(p.ident())}
	p.expectSym("{")
	for !p.isSym("}") {
		if p.isSym(";") {
			p.next()
			continue
		}
		kw := p.ident()
		switch kw {
		case "option":
			p.optionName()
			p.expectSym("=")
			p.skipConst()
			p.expectSym(";")
		case "rpc":
			m := &descriptorpb.MethodDescriptorProto{Name: proto.String(p.ident())}
			p.expectSym("(")
			in := p.ident()
			if in == "stream" {
				m.ClientStreaming = proto.Bool(true)
				in = p.ident()
			}
			m.InputType = proto.String(in)
			p.expectSym(")")
			if r := p.ident(); r != "returns" {
				p.fail("expected returns")
			}
			p.expectSym("(")
			out := p.ident()
			if out == "stream" {
				m.ServerStreaming = proto.Bool(true)
				out = p.ident()
			}
			m.OutputType = proto.String(out)
			p.expectSym(")")
			if p.isSym("{") {
				p.next()
				for !p.isSym("}") {
					if p.isSym(";") {
						p.next()
						continue
					}
					if k := p.ident(); k != "option" {
						p.fail("unexpected %q in rpc body", k)
					}
					p.optionName()
					p.expectSym("=")
					p.skipConst()
					p.expectSym(";")
				}
				p.next()
			} else {
				p.expectSym(";")
			}
			s.Method = append(s.Method, m)
		default:
			p.fail("unexpected %q in service", kw)
		}
	}
	p.next()
	return s
}
