#!/bin/bash
bin/setup > setup.log 2>&1
for i in $(seq -w 1 20); do p=C$i; s=$(date +%s); out=$(bin/check $p --tier thorough 2>&1); rc=$?; echo "thorough $p rc=$rc $(( $(date +%s)-s ))s $(echo "$out" | grep '^VIOLATION' | head -2)"; [ $rc -ne 0 ] && echo "$out" | tail -20 > thorfail-$p.log; done
